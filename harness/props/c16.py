"""C16 — pretty-printed data evaluates back to the data.

Correspondence: Lean model (Model/Pretty.lean) vs rich.pretty, in-process:
  * `traverse` on a heap description of the Python value (identities kept) vs the real Node tree,
  * `Node.render` / `pretty_repr` output, character for character,
  * `Node.iter_tokens/__str__/check_length`, `_Line.expandable/check_length/__str__/expand` on synthetic
    (also ill-formed) nodes and lines.
Direct evaluation (3d), with oracles independent of the Lean model:
  * eval() of the real output is the value again, same types at every level,
  * the output equals a reference printer written from the statement (one item per line, consistent
    indentation, kept on one line iff it fits, exact abbreviation counts, `...` on the path) up to the legal
    trailing comma, and equals repr() whenever that fits for list/tuple/dict/set/frozenset values.
"""
import multiprocessing
import random

from core import enc_bool, enc_opt, enc_str, enc_str_list

PROPERTY = "C16"

# CODE VARIANT FLAGS  (1 = rich 9.10.0 as found, 0 = the repaired code = what /repo contains now; see Model/Pretty.lean `Variant`)
DROP_SUFFIX = 0  # F24: _Line.expand derives the closing line's suffix from the node instead of carrying its own (0: fix 376cec1)
ARRAY_LITERAL = 0  # F12: the empty form of array is the literal text "array({_object.typecode!r})" (0: fix e5d1b9a)

ARRAY_LITERAL_TEXT = "array({_object.typecode!r})"
INDENTS = [4, 4, 1, 2, 0, 8]
MAX_LENGTHS = [None, None, None, 0, 1, 2, 3, 5]
MAX_STRINGS = [None, None, None, 0, 1, 3, 10]


class Rec:
    """what a worker hands back: correspondence cases, failed checks, pass counters, distribution notes."""

    def __init__(self, seed):
        self.cases = []
        self.fails = []
        self.passes = {}
        self.notes = {}
        self.rng = random.Random(seed)

    def case(self, fn, args, ans, shape=None, sample=None):
        self.cases.append((fn, [str(a) for a in args], str(ans), shape, sample))

    def check(self, ok, site, inp, what, finding=None):
        if ok:
            self.passes[site] = self.passes.get(site, 0) + 1
        else:
            self.fails.append((site, inp, what, finding))
        return ok

    def note(self, k, n=1):
        self.notes[k] = self.notes.get(k, 0) + n

    def result(self):
        return self.cases, self.fails, self.passes, self.notes


def _short(v, n=300):
    try:
        r = repr(v)
    except Exception:  # noqa: BLE001
        r = "<unreprable>"
    return r if len(r) <= n else r[:n] + "…"


def _leading(s):
    return len(s) - len(s.lstrip(" "))


def choose_widths(rng, crit, maxw, k, sweep=False):
    if sweep:
        # every width within +-2 of every fit threshold of the value (true widths from the table)
        return sorted({c + d for c in crit for d in (-2, -1, 0, 1, 2) if c + d >= 0})[:60]
    cand = set()
    for c in crit:
        for d in (-1, 0, 1):
            if 1 <= c + d <= maxw:
                cand.add(c + d)
    cand = sorted(cand)
    rng.shuffle(cand)
    out = cand[:k]
    out.append(rng.randint(1, maxw))
    if rng.random() < 0.2:
        out.append(rng.choice([0, 1, 2, 80, maxw]))
    if rng.random() < 0.01:
        out.append(-rng.randint(1, 5))  # outside the modelled domain: answered `unmodelled`, still evaluated directly
    return out


def eval_value(rec, v, tier_quick, n_cfg, tag, sweep=False):
    """all checks for one value under `n_cfg` option sets x critical widths (`sweep`: all widths within +-2 of
    every fit threshold)."""
    import lib_pretty as L
    from rich.pretty import pretty_repr, traverse

    cell_len = L.table_cell_len  # oracle side: the width table only, none of rich.cells' code
    rng = rec.rng
    maxw = 60 if tier_quick else 200
    cyc = L.has_cycle(v)
    can_eval = (not cyc) and L.evaluable(v)
    basic = (not cyc) and L.only_basic(v)
    rec.note(f"value:{tag}:{type(v).__name__}")
    if cyc:
        rec.note("value:cyclic")
    heaps = {}
    trees = {}
    for ci in range(n_cfg):
        ind = rng.choice(INDENTS)
        ea = rng.random() < 0.25
        if ci == 0:
            ml = ms = None
        else:
            ml = rng.choice(MAX_LENGTHS)
            ms = rng.choice(MAX_STRINGS)
        if (ml, ms) not in trees:
            trees[(ml, ms)] = L.ref_tree(v, ml, ms)
        tree = trees[(ml, ms)]
        crit = set()
        L.ref_lines(tree, cell_len, 0, ind, True, crit)
        rec.note("depth:%d" % min(_depth(tree), 7))
        widths = choose_widths(rng, crit, maxw, 2 if ci else 3, sweep=sweep)
        if ms not in heaps:
            heaps[ms] = L.enc_heap(v, ms)
        heap, root, table = heaps[ms]
        for w in widths:
            inp = dict(value=_short(v), max_width=w, indent_size=ind, expand_all=ea, max_length=ml, max_string=ms)
            try:
                out = pretty_repr(v, max_width=w, indent_size=ind, max_length=ml, max_string=ms, expand_all=ea)
            except RecursionError:
                rec.check(False, "pretty_repr", inp, "did not terminate (RecursionError)")
                continue
            sample = f"pretty_repr({_short(v, 120)}, max_width={w}, indent_size={ind}, expand_all={ea}, max_length={ml}, max_string={ms})" if rng.random() < 0.02 else None
            shape = ("multi" if "\n" in out else "one") + (":ea" if ea else "") + (":ml" if ml is not None else "") + (":ms" if ms is not None else "") + (":cyc" if cyc else "")
            rec.case(
                "pretty.pretty_repr",
                [DROP_SUFFIX, ARRAY_LITERAL, heap, root, enc_opt(ml), enc_opt(ms), table, w, ind, enc_bool(ea)],
                enc_str(out),
                shape=shape,
                sample=sample,
            )
            # ---- direct evaluation 1: the reference printer (statement level)
            lines = L.ref_lines(tree, cell_len, w, ind, ea)
            ok, at = L.ref_matches(out, lines, ind)
            finding = None
            if not ok:
                finding = classify(out, lines, ind)
            rec.check(
                ok,
                "pretty_repr:layout",
                inp,
                f"output differs from the statement-level reference at line {at}: got {out!r}, expected {L.ref_text(lines, ind)!r}",
                finding=finding,
            )
            # ---- direct evaluation 2: evaluates back to an equal value of the same type
            if ml is None and ms is None and can_eval:
                try:
                    back = eval(out, dict(L.EVAL_NS))  # noqa: S307 - the statement of the property
                    okb = L.same(back, v)
                    why = f"eval(output) = {_short(back)} of type {type(back).__name__}, not the value"
                except Exception as e:  # noqa: BLE001
                    okb = False
                    why = f"eval(output) raised {type(e).__name__}: {e}"
                rec.check(okb, "pretty_repr:eval", inp, why + f"; output {out!r}", finding=finding if not ok else (classify_literal(out)))
            # ---- direct evaluation 3: repr() on one line whenever it fits (basic containers)
            if basic and ml is None and ms is None:
                r = repr(v)
                if not ea and cell_len(r) <= w:
                    rec.check(out == r, "pretty_repr:repr_when_fits", inp, f"repr() fits in {w} cells but output is {out!r}")
                elif L.is_container(v) and len(v) > 0:
                    rec.check("\n" in out, "pretty_repr:expand_when_too_wide", inp, f"repr() needs {cell_len(r)} cells (expand_all={ea}) but output is one line {out!r}", finding=classify_literal(out))
            # ---- direct evaluation 4: indentation
            ols = out.split("\n")
            lead = [_leading(s) for s in ols]
            okI = lead[0] == 0 and all(s.strip(" ") != "" for s in ols)
            if ind > 0:
                okI = okI and all(x % ind == 0 for x in lead) and all(b - a <= ind for a, b in zip(lead, lead[1:]))
            else:
                okI = okI and all(x == 0 for x in lead)
            okI = okI and lead[-1] == 0
            rec.check(okI, "pretty_repr:indent", inp, f"indentation is not a consistent multiple of {ind}: {out!r}")
    # ---- traverse: correspondence on the heap + abbreviation counts on the real tree
    for (ml, ms) in trees:
        heap, root, table = heaps[ms]
        try:
            node = traverse(v, max_length=ml, max_string=ms)
        except RecursionError:
            rec.check(False, "traverse", dict(value=_short(v), max_length=ml, max_string=ms), "did not terminate (RecursionError)")
            continue
        rec.case("pretty.traverse", [ARRAY_LITERAL, heap, root, enc_opt(ml), enc_opt(ms), table], L.enc_node(node), shape=("ml" if ml is not None else "") + ("ms" if ms is not None else "") + ("cyc" if cyc else ""))
        inp = dict(value=_short(v), max_length=ml, max_string=ms)
        if L.is_container(v) and ml is not None and len(v) > 0:
            n = len(v)
            kids = node.children or []
            want = min(n, ml) + (1 if n > ml else 0)
            okA = len(kids) == want and (n <= ml or kids[-1].value_repr == f"... +{n - ml}") and all(not k.value_repr.startswith("... +") for k in kids[: min(n, ml)])
            rec.check(okA, "traverse:max_length", inp, f"{n} items, max_length={ml}: {len(kids)} children, last {kids[-1].value_repr if kids else None!r}")
        if isinstance(v, (str, bytes)) or (type(v) in (list, tuple) and v and isinstance(v[0], (str, bytes))):
            s = v if isinstance(v, (str, bytes)) else v[0]
            got = node.value_repr if isinstance(v, (str, bytes)) else node.children[0].value_repr if (ml is None or ml > 0) else None
            if got is not None and ms is not None:
                want = repr(s[:ms]) + f"+{len(s) - ms}" if len(s) > ms else repr(s)
                rec.check(got == want, "traverse:max_string", inp, f"string of {len(s)} chars, max_string={ms}: {got!r}, expected {want!r}")
        # the same tree rendered through Node.render directly (pretty_repr accepts a Node)
        ind = rng.choice(INDENTS)
        ea = rng.random() < 0.2
        crit = set()
        L.ref_lines(trees[(ml, ms)], cell_len, 0, ind, True, crit)
        for w in choose_widths(rng, crit, maxw, 1):
            rec.case("pretty.render", [DROP_SUFFIX, L.enc_node(node), w, ind, enc_bool(ea)], enc_str(pretty_repr(node, max_width=w, indent_size=ind, expand_all=ea)), shape="from-traverse")


def _depth(t):
    if t.text is not None or not t.kids:
        return 0
    return 1 + max(_depth(c) for _, c in t.kids)


def classify_literal(out):
    return "pretty-empty-array-literal" if ARRAY_LITERAL_TEXT in out else None


def classify(out, lines, ind):
    """narrow classifiers for the two known failure shapes; anything else is unclassified (None)."""
    if ARRAY_LITERAL_TEXT in out:
        return "pretty-empty-array-literal"
    real = out.split("\n")
    if len(real) != len(lines):
        return None
    dropped = 0
    for r, (d, c, opt) in zip(real, lines):
        want = " " * (d * ind) + c
        if r == want or (opt and r == want + ","):
            continue
        if want.endswith(",") and r == want[:-1] and c[:1] in ")]}":
            dropped += 1  # a closing line lost the comma its parent asked for
            continue
        return None
    return "pretty-expand-drops-suffix" if dropped else None


# ------------------------------------------------------------------ synthetic nodes and lines
TOKS = ["", "1", "'a'", "あ", "'x y'", "[", "{", "(", "]", "})", "k", "...", "́", "long_token_" * 3]


def rand_node(rng, depth, wellformed):
    from rich.pretty import Node

    r = rng.random()
    key = rng.choice(["", "", "'k'", "あ", "1"])
    last = rng.random() < 0.5
    if depth <= 0 or r < 0.35:
        n = Node(key_repr=key, value_repr=rng.choice(TOKS[1:] if wellformed else TOKS), last=last)
        if not wellformed:
            n.is_tuple = rng.random() < 0.3
            if rng.random() < 0.15:
                n.children = []
                n.empty = rng.choice(["", "[]", "set()"])
        return n
    k = rng.choice([0, 1, 1, 2, 2, 3])
    kids = [rand_node(rng, depth - 1, wellformed) for _ in range(k)]
    if wellformed:
        for i, c in enumerate(kids):
            c.last = i == k - 1
    ob, cb, em = rng.choice([("[", "]", "[]"), ("(", ")", "()"), ("{", "}", "{}"), ("deque([", "])", "deque()"), ("", "", ""), ("あ(", ")", "e")])
    n = Node(key_repr=key, open_brace=ob, close_brace=cb, empty=em, last=last, is_tuple=(ob == "(" or (not wellformed and rng.random() < 0.2)), children=kids)
    if not wellformed and rng.random() < 0.15:
        n.value_repr = rng.choice(TOKS)
    return n


def synth(rec, n_cases, tier_quick):
    import lib_pretty as L
    from rich.pretty import _Line, pretty_repr

    cell_len = L.table_cell_len
    rng = rec.rng
    for i in range(n_cases):
        wf = rng.random() < 0.5
        node = rand_node(rng, rng.choice([1, 2, 2, 3]), wf)
        en = L.enc_node(node)
        toks = list(node.iter_tokens())
        rec.case("pretty.tokens", [en], enc_str_list(toks), shape="wf" if wf else "raw")
        rec.case("pretty.str", [en], enc_str(str(node)))
        rec.check("".join(toks) == str(node), "Node.__str__", en, "str is not the concatenation of the tokens")
        total = sum(cell_len(t) for t in toks)
        start = rng.randint(0, 12)
        for mx in {start + total - 1, start + total, start + total + 1, rng.randint(0, 40)}:
            if mx < 0:
                continue
            got = node.check_length(start, mx)
            rec.check(got == (start + total <= mx) or not toks, "Node.check_length", (en, start, mx), f"check_length({start},{mx}) is {got} for a node of {total} cells")
            rec.case("pretty.check_length", [en, start, mx], enc_bool(got), shape="fit" if got else "nofit")
        # lines
        line = _Line(
            is_root=rng.random() < 0.3,
            node=node if rng.random() < 0.85 else None,
            text=rng.choice(["", "", "x", "あ: ["]),
            suffix=rng.choice(["", ",", ",", "あ"]),
            whitespace=rng.choice(["", " ", "    ", "        ", " あ"]),
            expanded=rng.random() < 0.1,
        )
        el = L.enc_line(line)
        base = len(line.whitespace) + cell_len(line.text) + cell_len(line.suffix) + total
        for mx in {base - 1, base, base + 1}:
            if mx < 0:
                continue
            try:
                chk = enc_bool(line.check_length(mx))
            except AssertionError:
                chk = "err:AssertionError"
            rec.case("pretty.line", [el, mx], f"{enc_bool(line.expandable)};{chk};{enc_str(str(line))}", shape="node" if line.node is not None else "text")
        ind = rng.choice([0, 1, 2, 4])
        try:
            ex = list(line.expand(ind))
            ans = "/".join(L.enc_line(x) for x in ex)
            # direct: opening line, one line per child at +indent, closing line
            kids = line.node.children
            okE = (
                len(ex) == len(kids) + 2
                and all(x.node is c for x, c in zip(ex[1:-1], kids))
                and all(x.whitespace == line.whitespace + " " * ind for x in ex[1:-1])
                and ex[0].whitespace == line.whitespace == ex[-1].whitespace
                and ex[0].node is None
                and ex[-1].node is None
                and ex[-1].text == line.node.close_brace
            )
            rec.check(okE, "_Line.expand", el, "expansion is not open / one line per child at +indent / close")
        except AssertionError:
            ans = "err:AssertionError"
        rec.case("pretty.expand", [DROP_SUFFIX, el, ind], ans, shape="err" if ans.startswith("err") else "ok")
        # render of arbitrary trees
        ea = rng.random() < 0.2
        full = cell_len(str(node))
        for w in {max(full - 1, 0), full, rng.randint(0, 30)}:
            out = pretty_repr(node, max_width=w, indent_size=ind, expand_all=ea)
            rec.case("pretty.render", [DROP_SUFFIX, en, w, ind, enc_bool(ea)], enc_str(out), shape=("wf" if wf else "raw") + (":multi" if "\n" in out else ":one"))
            if wf:
                expandable = bool(node.children)
                rec.check(("\n" in out) == (expandable and (ea or full > w)), "Node.render:one_line_iff_fits", (en, w, ea), f"node of {full} cells at width {w}: {out!r}")


def glue(rec, n_cases):
    """option plumbing around pretty_repr: Pretty.__rich_console__, pprint."""
    import io

    import lib_pretty as L
    from rich.console import Console
    from rich.pretty import Pretty, pprint, pretty_repr

    rng = rec.rng
    for _ in range(n_cases):
        v = L.rand_value(rng, 3, top=True)
        width = rng.randint(5, 70)
        margin = rng.choice([0, 0, 3, 12])
        ind = rng.choice(INDENTS)
        ml = rng.choice(MAX_LENGTHS)
        ms = rng.choice(MAX_STRINGS)
        ea = rng.random() < 0.3
        console = Console(file=io.StringIO(), width=width, color_system=None, force_terminal=False, legacy_windows=False)
        p = Pretty(v, indent_size=ind, max_length=ml, max_string=ms, expand_all=ea, margin=margin)
        parts = list(p.__rich_console__(console, console.options))
        want = pretty_repr(v, max_width=width - margin, indent_size=ind, max_length=ml, max_string=ms, expand_all=ea)
        inp = dict(value=_short(v), width=width, margin=margin, indent_size=ind, max_length=ml, max_string=ms, expand_all=ea)
        rec.check(parts and parts[-1].plain == want, "Pretty.__rich_console__", inp, "Pretty does not pass its options to pretty_repr")
        if rng.random() < 0.3:
            console = Console(file=io.StringIO(), width=200, color_system=None, force_terminal=False, legacy_windows=False)
            pprint(v, console=console, indent_guides=False, max_length=ml, max_string=ms, expand_all=ea)
            got = console.file.getvalue()
            want = pretty_repr(v, max_width=200, max_length=ml, max_string=ms, expand_all=ea)
            if all(cell_ok(l) for l in want.split("\n")):
                rec.check(got == want + "\n", "pprint", inp, f"pprint wrote {got!r}, pretty_repr gives {want!r}")


def cell_ok(line):
    from lib_pretty import table_cell_len as cell_len

    return cell_len(line) <= 200 and "\t" not in line


# ------------------------------------------------------------------ worker entry
def work(task):
    kind, seed, quick, arg = task
    import lib_pretty as L

    rec = Rec(seed)
    if kind == "exh":
        k, of = arg
        for i, v in enumerate(L.exhaustive_values()):
            if i % of == k:
                eval_value(rec, v, quick, 2 if quick else 4, "exh")
    elif kind == "boundary":
        k, of = arg
        for i, (v, cls) in enumerate(L.boundary_values()):
            if i % of == k:
                rec.note("boundary:" + cls)
                eval_value(rec, v, quick, 1 if quick else 2, "boundary", sweep=True)
        for _ in range(20 if quick else 200):  # mixed strings of boundary characters, as items and keys
            s1, s2, s3 = (L.rand_boundary_string(rec.rng) for _ in range(3))
            v = rec.rng.choice([[s1, s2, s3], {s1: s2, s3: [s1]}, (s1, (s2,)), {"k": {s1, s2}}])
            eval_value(rec, v, quick, 1, "boundary-mix", sweep=True)
    elif kind == "rand":
        n, depth = arg
        for _ in range(n):
            d = rec.rng.randint(1, depth)
            eval_value(rec, L.rand_value(rec.rng, d, top=True), quick, 3 if quick else 4, "rand")
    elif kind == "cyc":
        for _ in range(arg):
            eval_value(rec, L.rand_cyclic(rec.rng), quick, 3, "cyc")
    elif kind == "fixed":
        for v in fixed_values():
            eval_value(rec, v, quick, 6, "fixed")
    elif kind == "synth":
        synth(rec, arg, quick)
    elif kind == "glue":
        glue(rec, arg)
    return rec.result()


def fixed_values():
    """hand-picked structural combinations (the fragile ones named in the statement)."""
    from array import array
    from collections import Counter, defaultdict, deque

    import lib_pretty as L

    long = {None: "a", "wide あい": "new\nline"}
    vals = [
        (defaultdict(None, long),),
        ([1, 2],),
        ((1, 2),),
        (("a" * 20, "b" * 20),),
        ({"k": [1, 2, 3]},),
        [([1, 2],)],
        {"k": ([1, 2],)},
        ((([1, 2],),),),
        (deque([1, 2, 3]),),
        (Counter("abracadabra"),),
        (array("i", [1, 2, 3]),),
        ({1, 2, 3},),
        (frozenset([1, 2, 3]),),
        array("i"),
        array("d"),
        array("u"),
        [array("i"), array("b")],
        (array("i"),),
        {"a": array("d")},
        (),
        ((),),
        [()],
        [[]],
        {"k": {}},
        set(),
        frozenset(),
        deque(),
        Counter(),
        defaultdict(None),
        defaultdict(L.FACTORY),
        defaultdict(int),
        [set(), frozenset(), deque(), Counter(), defaultdict(None), {}, [], ()],
        (1,),
        ((1,),),
        [(1,)],
        [(1,), 2],
        [2, (1,)],
        {"t": (1,)},
        L.make_environ({"A": "1", "BB": "xyz"}),
        L.make_environ({}),
        [L.make_environ({"A": "x" * 30})],
        "plain string",
        b"bytes",
        12,
        None,
        1.5,
        ["あ" * 10, "い" * 10],
        {"あ" * 5: ["い" * 5]},
        deque([1, 2], maxlen=5),
    ]
    return vals


def run(ctx):
    quick = ctx.quick
    rng = ctx.rng
    ctx.assumptions += [
        "repr() of leaves (numbers, None, str/bytes incl. quoting and escapes) is Python's and enters the model as opaque token strings (str/bytes: the characters are in the model, repr of the printed prefix is supplied per case)",
        "eval() semantics (layout whitespace inside brackets, trailing commas) is Python's; checked per case by evaluating the real output",
        "container identity = id(); leaves have no identity in the model (they are never in _CONTAINERS)",
        "max_width, indent_size, max_length, max_string are naturals in the model; negative values answer `unmodelled`",
        "the width function is rich.cells.cell_len over the generated CELL_WIDTHS table (property C13)",
    ]
    P = 14
    tasks = [("fixed", rng.getrandbits(32), quick, None)]
    tasks += [("exh", rng.getrandbits(32), quick, (k, P)) for k in range(P)]
    tasks += [("boundary", rng.getrandbits(32), quick, (k, P)) for k in range(P)]
    tasks += [("rand", rng.getrandbits(32), quick, (150, 4 if quick else 6)) for _ in range(40 if quick else 560)]
    tasks += [("cyc", rng.getrandbits(32), quick, 100) for _ in range(3 if quick else 50)]
    tasks += [("synth", rng.getrandbits(32), quick, 450) for _ in range(8 if quick else 120)]
    tasks += [("glue", rng.getrandbits(32), quick, 150) for _ in range(1 if quick else 16)]
    with multiprocessing.get_context("fork").Pool(16) as pool:
        # ordered, lazily consumed: the verdict does not depend on worker timing
        for (kind, _, _, _), (cases, fails, passes, notes) in zip(tasks, pool.imap(work, tasks, chunksize=1)):
            for fn, args, ans, shape, sample in cases:
                ctx.case(fn, args, ans, shape=shape, sample=sample)
            for site, n in passes.items():
                ctx.note("prop:" + site, n)
            for site, inp, what, finding in fails:
                ctx.check(False, site, inp, what, finding=finding)
            for k, n in notes.items():
                ctx.note(k, n)
    ctx.flush()
    ctx.rule = (
        "bounded-exhaustive: every container kind x 0..3 children over %r, each wrapped in every kind and in one-element "
        "tuples (depth <= 3); seeded random typed values to depth %d over list/tuple/dict/set/frozenset/deque/Counter/"
        "defaultdict/array/str/bytes/int/float/bool/None; cyclic and shared structures; hand-picked fragile shapes; "
        "for EVERY row of CELL_WIDTHS (read at run time) the first / last / interior code points and the neighbours just "
        "outside, as string items and dict keys, swept over every width within +-2 of each fit threshold; "
        "each x option sets (indent_size, expand_all, max_length, max_string) x the widths at which some line's fit "
        "decision flips (+-1) and random widths up to %d; synthetic well-formed and ill-formed Node/_Line objects. "
        "distinct = distinct canonical requests" % ([1, "a", "あ", None], 4 if quick else 6, 60 if quick else 200)
    )


def replay(ctx, case):
    """re-run one recorded failing input on the real code (layout/eval sites record the call's arguments)."""
    print("site:", case.get("site"))
    print("input:", case.get("input"))
    print("what:", case.get("what"))
    inp = case.get("input")
    if isinstance(inp, dict) and "max_width" in inp and "value" in inp:
        import lib_pretty as L
        from rich.pretty import pretty_repr

        try:
            v = eval(inp["value"], dict(L.EVAL_NS))  # noqa: S307 - the recorded repr of the value
        except Exception as e:  # noqa: BLE001
            print("value cannot be rebuilt from its repr:", e)
            return False
        kw = dict(max_width=inp["max_width"], indent_size=inp["indent_size"], max_length=inp["max_length"], max_string=inp["max_string"], expand_all=inp["expand_all"])
        out = pretty_repr(v, **kw)
        tree = L.ref_tree(v, inp["max_length"], inp["max_string"])
        lines = L.ref_lines(tree, L.table_cell_len, inp["max_width"], inp["indent_size"], inp["expand_all"])
        ok, _ = L.ref_matches(out, lines, inp["indent_size"])
        if ok and inp["max_length"] is None and inp["max_string"] is None and L.evaluable(v):
            try:
                ok = L.same(eval(out, dict(L.EVAL_NS)), v)  # noqa: S307
            except Exception:  # noqa: BLE001
                ok = False
        print("pretty_repr now gives:", repr(out))
        return ok
    print("re-run `./check C16` to re-evaluate (the generators are seeded: VERIF_SEED=%s)" % case.get("seed"))
    return False


MANIFEST = {
    "text": "Lean 4 theorems (Props/C16.lean; arbitrary width function, no bound on tree size, depth, width or indent) about an "
    "executable model of rich/pretty.py (Node.iter_tokens/check_length/__str__, _Line.expandable/check_length/expand/__str__, "
    "the Node.render loop, traverse over a heap of objects with identities, pretty_repr): the render loop terminates within "
    "weight(node)+2 steps and equals a structural specification (open / one item per line at +indent / close, recursively); "
    "layout_only: erasing indentation, line breaks and the blank after kept separators from the rendered lines gives exactly "
    "the one-line form, so no comma/brace/key/leaf is lost or added (proved for the repaired variant, which /repo contains now; machine-checked "
    "counter-example for rich 9.10.0 as found, before fix 376cec1: F24); one line iff leaf/empty or (not expand_all and the one-line form fits); every kept "
    "container line fits max_width; expand_all leaves no container on one line; indentation is a whole multiple of indent_size "
    "with braces aligned and contents strictly deeper; traverse is total on every well-formed heap including cyclic ones, emits "
    "`...` exactly for containers on the current path, produces well-formed trees, and max_length/max_string abbreviations "
    "show min(N,max) items/characters and report exactly N-max; F12 (empty array literal, repaired by fix e5d1b9a) as a machine-checked witness. "
    "Tie: ~250k (quick; evidence/C16.json: 254k compared) / millions (thorough) generated cases per run compare model and rich.pretty character for character "
    "(traverse on a heap description of the real object graph, Node.render, pretty_repr, and the Node/_Line methods on "
    "synthetic also ill-formed objects); on every case the real output is eval()-ed and compared for deep typed equality, "
    "compared with a statement-level reference printer up to the legal trailing comma, with repr() when it fits, and for "
    "indentation regularity, at the widths where a fit decision flips (+-1).",
    "note": "PARTIAL by nature: 'evaluates back' rests on Python's eval() and repr() of leaves, which are runtime and enter the "
    "model as opaque token strings (str/bytes: characters are modelled, repr of the printed prefix is supplied per case); this "
    "part is validated per generated case, not proved. Trusted: Lean kernel; axioms propext/Classical.choice/Quot.sound; the "
    "correspondence harness (heap/Node encoders, reference printer, deep equality); widths/indent/max_length/max_string are "
    "naturals (negative values answer `unmodelled`); identities = id() of containers; the width function is the generated "
    "CELL_WIDTHS table (C13). Not modelled: Pretty.__rich_measure__, install(), highlighting/indent guides (only that "
    "Pretty.__rich_console__ and pprint pass their options to pretty_repr is checked). On rich 9.10.0 as found the check printed "
    "VIOLATION for two genuine defects (F24, F12); both are repaired in /repo (fixes 376cec1, e5d1b9a = pending_fixes/C16-*.diff) and the two "
    "CODE VARIANT FLAGS hold the repaired value 0.",
    "design_ref": "DESIGN.md section 7, C16; section 8 F12, F24",
}
