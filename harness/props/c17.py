"""C17 — Syntax and tracebacks show the source line for line under the right numbers.

Correspondence: Lean model (Model/Syntax.lean; word-wrapped and segment-cropped rows: Model/SyntaxWrap.lean) vs
rich.syntax.Syntax rendered through a real Console (`console.render(Syntax(...), options)`), `Syntax.highlight` (characters
and token style ids), `_numbers_column_width`, `__rich_measure__`, the Text helpers the code path goes through, the Syntax
that `Traceback._render_stack` builds for a frame, the codes its per-call file cache hands out, and `_render_syntax_error`.  The real Pygments
token stream is an INPUT of the model; the lexer contract is evaluated per case.

Direct evaluation (3d): the executable statements of the theorems in Props/C17.lean on rich's own output,
with an oracle written from the property statement (split the source on newlines, expand tabs per line,
number from start_line, clip the range) that shares nothing with the Lean model.
"""
import dataclasses

import lib_syntax_measure
import textwrap
import io
import itertools
import linecache
import os
import re
import shutil
import sys

from core import enc_bool, enc_opt, enc_str, enc_str_list

PROPERTY = "C17"

# CODE VARIANT FLAGS  (value = what /repo does now: all three defects are repaired; 1 = rich 9.10.0 as found; see Model/Syntax.lean)
# (the environment overrides exist only to run against another checkout: VERIF_REPO=<worktree> VERIF_C17_STRIPNL=1 VERIF_C17_SKIP_RAISES=1 VERIF_C17_RANGE_POP=1)
try:  # the variant flags of the Text / Wrap models (C05/C02), whose `Text.wrap` model folds the word-wrapped lines here
    from props.c02 import FLAGS as WRAP_FLAGS
except Exception:  # pragma: no cover
    WRAP_FLAGS = "00000000"
STRIPNL = int(os.environ.get("VERIF_C17_STRIPNL", "0"))          # 1: get_lexer_by_name(name) keeps Pygments' stripnl=True; 0: repaired (stripnl=False; fix 92fb879)
RANGE_POP = int(os.environ.get("VERIF_C17_RANGE_POP", "0"))      # 1: `text.split("\n")` / guides `.split("\n")`: a blank line that ends the range is lost, an empty selection with guides shows a row; 0: repaired (fix bc6c38f)
SKIP_RAISES = int(os.environ.get("VERIF_C17_SKIP_RAISES", "0"))  # 1: bare next(tokens) in tokens_to_spans -> RuntimeError past the end; 0: repaired (break; fix 1d638e8)
MEASURE_SHORT = int(os.environ.get("VERIF_C17_MEASURE_SHORT", "0"))  # 1: __rich_measure__ with line numbers + code_width reports a maximum one cell short; 0: repaired (fix 51eccb0)

GUESS_RAISES = int(os.environ.get("VERIF_C17_GUESS_RAISES", "0"))  # fixed in 52ad8fd, /repo is at 0 now.  1: Traceback._guess_lexer lets ClassNotFound escape: a readable file whose name no Pygments lexer claims (no / unknown extension) gets "no lexer for filename …" instead of its source (rich 9.10.0 as found); 0: repaired, what /repo does now (pending_fixes/C17-traceback-unknown-extension-shows-no-source.diff: fall back to the lexer "text")

GUIDE = "│"
CTL = {8, 11, 12, 13}
LEXERS = ["python", "json", "html", "text", "no-such-lexer"]
THEMES = ["monokai", "ansi_dark", "ansi_light", "default", "no-such-theme"]
TRANSPARENT_THEMES = {"ansi_dark", "ansi_light"}


# --------------------------------------------------------------------------------------------- real rich
def lexer_for(name):
    from pygments.lexers import get_lexer_by_name
    from pygments.util import ClassNotFound

    try:
        return get_lexer_by_name(name) if STRIPNL else get_lexer_by_name(name, stripnl=False)
    except ClassNotFound:
        return None


_TOK_CACHE = {}


def tokens_for(name, src):
    """Token texts the lexer returns for `src` (None when the lexer does not exist)."""
    key = (name, src)
    if key not in _TOK_CACHE:
        lx = lexer_for(name)
        _TOK_CACHE[key] = None if lx is None else [v for _, v in lx.get_tokens(src)]
        if len(_TOK_CACHE) > 200000:
            _TOK_CACHE.clear()
    return _TOK_CACHE[key]


_TYPED_CACHE = {}


def typed_tokens_for(name, src):
    """(token type, text) pairs the lexer returns for `src` (None when the lexer does not exist)."""
    key = (name, src)
    if key not in _TYPED_CACHE:
        lx = lexer_for(name)
        _TYPED_CACHE[key] = None if lx is None else list(lx.get_tokens(src))
        if len(_TYPED_CACHE) > 50000:
            _TYPED_CACHE.clear()
    return _TYPED_CACHE[key]


def pyg_pre(src, stripnl):
    """Pygments Lexer._preprocess_lexer_input for str input with the options rich leaves at their defaults
    (written from the Pygments documentation: BOM, newline normalisation, stripnl, ensurenl)."""
    if src.startswith("\ufeff"):
        src = src[1:]
    src = src.replace("\r\n", "\n").replace("\r", "\n")
    if stripnl:
        src = src.strip("\n")
    if not src.endswith("\n"):
        src += "\n"
    return src


class Case:
    """One Syntax + console configuration."""

    __slots__ = ("code", "lexer", "theme", "bg", "line_numbers", "start_line", "line_range", "highlight", "code_width",
                 "tab_size", "word_wrap", "indent_guides", "width", "no_wrap", "legacy", "ascii", "color_system", "dedent")

    def __init__(self, **kw):
        d = dict(code="", lexer="python", theme="ansi_dark", bg=None, line_numbers=True, start_line=1, line_range=None,
                 highlight=(), code_width=None, tab_size=4, word_wrap=False, indent_guides=False, width=60, no_wrap=False,
                 legacy=False, ascii=False, color_system=None, dedent=False)
        d.update(kw)
        for k, v in d.items():
            setattr(self, k, v)

    def as_dict(self):
        return {k: getattr(self, k) for k in self.__slots__}

    def __repr__(self):
        return "Case(%s)" % ", ".join(f"{k}={getattr(self, k)!r}" for k in self.__slots__)

    def syntax(self):
        from rich.syntax import Syntax

        return Syntax(self.code, self.lexer, theme=self.theme, line_numbers=self.line_numbers, start_line=self.start_line,
                      line_range=self.line_range, highlight_lines=set(self.highlight), code_width=self.code_width,
                      tab_size=self.tab_size, word_wrap=self.word_wrap, background_color=self.bg,
                      indent_guides=self.indent_guides, dedent=self.dedent)

    @property
    def shown(self):
        """The text that is shown: textwrap.dedent(code) when dedent is on (standard library, taken as given)."""
        return textwrap.dedent(self.code) if self.dedent else self.code

    @property
    def pad(self):
        """not transparent_background, from the documented meaning of the themes (independent of rich's code)."""
        if self.bg is not None:
            return self.bg != "default"  # Style(bgcolor="default") is a transparent background
        return self.theme not in TRANSPARENT_THEMES


def render_rows(syntax, case):
    """console.render(syntax, options) -> ('ok', rows) | ('err', ExceptionClassName, message)."""
    from rich.console import Console

    console = Console(file=io.StringIO(), width=case.width, color_system=case.color_system, force_terminal=False, legacy_windows=False)
    options = dataclasses.replace(console.options, no_wrap=case.no_wrap, legacy_windows=case.legacy,
                                  encoding="ascii" if case.ascii else "utf-8")
    try:
        segs = list(console.render(syntax, options))
    except Exception as e:  # the error branch is part of the statement
        return ("err", type(e).__name__, str(e))
    text = "".join(s.text for s in segs if not s.is_control)
    if text == "":
        return ("ok", [])
    rows = text.split("\n")
    if rows[-1] != "":
        return ("ok", rows + ["<<no final newline>>"])
    return ("ok", rows[:-1])


def enc_result(res):
    if res[0] == "ok":
        return "ok:" + enc_str_list(res[1])
    return "err:" + (res[1] if res[1] in ("RuntimeError", "ZeroDivisionError") else "Other:" + res[1])


def enc_range(r):
    return "-" if r is None else f"{r[0]},{r[1]}"


def opts_fields(c):
    return [enc_bool(c.line_numbers), c.start_line, enc_range(c.line_range), " ".join(str(h) for h in sorted(set(c.highlight))),
            enc_opt(c.code_width), c.tab_size, enc_bool(c.word_wrap), enc_bool(c.indent_guides), c.width, enc_bool(c.no_wrap),
            enc_bool(c.legacy), enc_bool(c.ascii), enc_bool(c.pad), ("=" + enc_str(c.shown)) if c.dedent else "-"]


def representable(s):
    return not any(0xD800 <= ord(ch) <= 0xDFFF for ch in s)


# --------------------------------------------------------------------------------------------- the oracle
def cell_len(s):
    from rich.cells import cell_len as cl  # C13's subject; used here as a measuring device only

    return cl(s)


def is_plain_source(code):
    """Sources on which the statement is evaluated literally: no control characters that Text strips
    (BS, VT, FF, CR) and no byte-order mark (Pygments removes it)."""
    return not any(ord(ch) in CTL for ch in code) and not code.startswith("\ufeff")


def source_lines(code, tab_size):
    """The statement's 'source lines, tabs expanded'."""
    return [l.expandtabs(tab_size) for l in code.split("\n")]


def blank(line):
    return line.strip(" ") == ""


def unguide(body, line):
    """Undo indent guides: inside the leading spaces of the source line a guide character may stand for a space."""
    k = len(line) - len(line.lstrip(" "))
    return body[:k].replace(GUIDE, " ") + body[k:]


def body_matches(bodies, line, w, pad, guides, word_wrap, no_crop):
    """Do the display rows `bodies` (first row + continuation rows) show `line`?  Returns None or a reason."""
    if guides and blank(line):
        ok = all(set(b) <= {" ", GUIDE} for b in bodies)
        return None if ok else "a blank line shows characters other than spaces and indent guides"
    if guides:
        bodies = [unguide(bodies[0], line)] + list(bodies[1:])
    clen = cell_len(line)
    if no_crop:
        return None if bodies == [line] else "line changed although cropping and padding are off"
    if clen <= w and (len(line) <= w or not word_wrap):
        want = line + (" " * (w - clen) if pad else "")
        if len(bodies) != 1:
            return "a line that fits is shown on %d rows" % len(bodies)
        if bodies[0] == want:
            return None
        if len(line) > w and bodies[0].rstrip() == line.rstrip():
            return None  # Text.rstrip_end compares characters with cells: only trailing blanks can go
        return "a line that fits is not shown exactly (followed by padding only)"
    if word_wrap == "either":  # word_wrap=True under options.no_wrap=True: rich crops or folds depending on how the line Text was made
        a = body_matches(bodies, line, w, pad, False, False, no_crop)
        return None if a is None else body_matches(bodies, line, w, pad, False, True, no_crop)
    if not word_wrap:
        if len(bodies) != 1:
            return "a cropped line is shown on %d rows" % len(bodies)
        b = bodies[0]
        if cell_len(b) > w:
            return "a cropped line is wider than the code column"
        # a prefix of the line, possibly followed by one space replacing half a wide character
        if line.startswith(b) or (b.endswith(" ") and line.startswith(b[:-1])):
            return None
        if any(cell_len(ch) == 0 for ch in line):
            return None if line.startswith(b.rstrip(" ")) else "cropped line is not a prefix of the source line"
        return "cropped line is not a prefix of the source line"
    # folded by word wrap: nothing but blanks may be lost, order kept
    got = "".join("".join(b.split()) for b in bodies)
    want = "".join(line.split())
    if guides:
        # guide characters stand where the source has leading blanks (absent from `want`): they can only be a prefix of `got`
        k = len(line) - len(line.lstrip(" "))
        extra = got[: len(got) - len(want)] if len(got) >= len(want) else None
        ok = extra is not None and got.endswith(want) and set(extra) <= {GUIDE} and len(extra) <= k
        return None if ok else "word wrap lost or changed non-blank characters"
    return None if got == want else "word wrap lost or changed non-blank characters"


ROW_RE = re.compile(r"^(❱ |> |  )( *)(\d+) (.*)$", re.S)
ROW_RE_STRIPPED = re.compile(r"^(❱ |> |  )( *)(\d+)(?: (.*))?$", re.S)  # rows read back from a panel lose trailing blanks


def parse_numbered(rows, gutter_len=None, row_re=None):
    """rows -> list of [num, marked, [bodies...]], gutter widths seen; continuation rows have a blank gutter."""
    out = []
    widths = set()
    for r in rows:
        m = (row_re or ROW_RE).match(r)
        if m and (gutter_len is None or len(m.group(1) + m.group(2) + m.group(3)) + 1 == gutter_len or not out):
            widths.add(len(m.group(1) + m.group(2) + m.group(3)) + 1)
            out.append([int(m.group(3)), m.group(1) != "  ", [m.group(4) or ""]])
            if gutter_len is None:
                gutter_len = len(m.group(1) + m.group(2) + m.group(3)) + 1
        elif out and r[:gutter_len].strip(" ") == "":
            out[-1][2].append(r[gutter_len:])
        else:
            return None, widths
    return out, widths


class Why(str):
    """A failure reason that carries the slug of a narrowly recognised shape."""
    slug = None


def why_slug(text, slug):
    w = Why(text)
    w.slug = slug
    return w


def expected_selection(P, start_line, line_range):
    """[(number, line)] the statement asks for: all lines, or the range clipped to the lines that exist."""
    numbered = [(start_line + i, l) for i, l in enumerate(P)]
    if line_range is None:
        return numbered
    a, b = line_range
    return [(no, l) for idx, (no, l) in enumerate(numbered, 1) if max(a, 1) <= idx <= b]


def eval_numbered(rows, P, c, w):
    """The numbered statement on rendered rows.  Returns None or a reason."""
    parsed, widths = parse_numbered(rows)
    if parsed is None:
        return "a row is neither '<marker><number> <code>' nor a continuation row"
    if len(widths) > 1:
        return "line-number gutter has different widths %s (gutter not wide enough for every number)" % sorted(widths)
    want = expected_selection(P, c.start_line, c.line_range)
    guides = c.indent_guides and not c.ascii
    if guides and not want and len(parsed) == 1 and all(set(b) <= {" "} for b in parsed[0][2]):
        # `Text("\n").join([]).with_indent_guides().split("\n") == [""]`: a row under a number no source line has
        return why_slug("an empty selection is shown as one blank row numbered %d" % parsed[0][0], "syntax-guides-empty-selection-shows-row")
    if len(parsed) > len(want):
        return "%d numbered rows shown, the source/range has only %d" % (len(parsed), len(want))
    no_crop = c.no_wrap and not c.word_wrap
    for (num, marked, bodies), (wnum, wline) in zip(parsed, want):
        if num != wnum:
            return "row shows number %d where line %d is due" % (num, wnum)
        why = body_matches(bodies, wline, w, c.pad, guides, ("either" if c.no_wrap else True) if c.word_wrap else False, no_crop)
        if why:
            return "under number %d: %s (shown %r, source line %r)" % (num, why, bodies, wline)
        if marked != (num in c.highlight):
            return "number %d %s the highlight marker" % (num, "carries" if marked else "lacks")
    missing = want[len(parsed):]
    if any(not blank(l) for _, l in missing):
        return "line %d (%r) of the selection is not shown" % (missing[0][0], [l for _, l in missing if not blank(l)][0])
    if missing:
        # blank lines may only be missing "at the very end": nothing but blank lines may follow the last shown line in the SOURCE
        first_missing = missing[0][0] - c.start_line  # 0-based index into P
        if any(not blank(l) for l in P[first_missing:]):
            return why_slug("blank line %d ends the selected range but not the source, and is not shown (%d of %d selected lines shown)"
                            % (missing[0][0], len(parsed), len(want)), "syntax-range-drops-trailing-blank-line")
    return None


def gutter_exact(rows, c):
    """The gutter character by character (statement of gutter_shows_pointer_and_number / folded_rows_have_blank_gutter):
    a numbered row starts with the pointer iff its number is highlighted (two blanks otherwise), then the number right-justified
    in `numbers_column_width - 2`, then one blank; every other row starts with `numbers_column_width + 1` blanks; numbers advance
    by one per numbered row however many continuation rows lie between."""
    ncw = len(str(c.start_line + c.code.count("\n"))) + 2
    pointer = "> " if c.legacy else "❱ "
    prev = None
    for r in rows:
        m = ROW_RE.match(r)
        if m and len(m.group(1) + m.group(2) + m.group(3)) + 1 == ncw + 1:
            num = int(m.group(3))
            want = (pointer if num in c.highlight else "  ") + str(num).rjust(ncw - 2) + " "
            if r[: ncw + 1] != want:
                return "the gutter of row %r is %r, expected %r" % (r, r[: ncw + 1], want)
            if prev is not None and num != prev + 1:
                return "row number %d follows %d" % (num, prev)
            prev = num
        elif prev is not None and r[: ncw + 1] == " " * (ncw + 1):
            continue
        else:
            return "row %r has neither a numbered gutter of %d characters nor a blank one" % (r, ncw + 1)
    return None


def eval_plain(rows, P, c, w):
    """Without line numbers: the rows are the source lines in order from the first (a range only cuts the end)."""
    if c.word_wrap and any(cell_len(l) > w or len(l) > w for l in P):
        # folded lines: rows and lines are no longer one to one; nothing but blanks may be lost, order kept
        got = "".join("".join(r.split()) for r in rows)
        streams = ["".join("".join(l.split()) for l in P[:k]) for k in range(len(P) + 1)]
        if got not in (streams if c.line_range else streams[-1:]):
            return "word wrap lost or changed non-blank characters (shown %r)" % (rows,)
        return None
    if len(rows) > len(P):
        return "%d rows shown, the source has only %d lines" % (len(rows), len(P))
    for r, l in zip(rows, P):
        why = body_matches([r], l, w, c.pad, False, False, False)
        if why:
            return "%s (shown %r, source line %r)" % (why, r, l)
    missing = P[len(rows):]
    if c.line_range is None:
        if any(not blank(l) for l in missing):
            return "source line %r is not shown" % [l for l in missing if not blank(l)][0]
    return None


def code_width_of(c):
    ncw = len(str(c.start_line + c.code.count("\n"))) + 2 if c.line_numbers else 0
    return (c.width - ncw - 1) if c.code_width is None else c.code_width


def evaluate(ctx, c, res, toks):
    """Direct evaluation of the statement on one rendered case."""
    site = "Syntax.__rich_console__"
    if not is_plain_source(c.shown):
        ctx.note("direct:skipped-control-chars-or-bom")
        return
    if c.tab_size == 0 and c.indent_guides:
        ctx.note("direct:skipped-tab_size-0-with-guides")
        return
    w = code_width_of(c)
    if w < 1:
        ctx.note("direct:skipped-code-width<1")
        return
    if c.line_range is not None and c.line_range[1] < 0:
        ctx.note("direct:skipped-negative-range-end")  # Python slice semantics, outside the statement
        return
    if c.word_wrap and w < 2:
        ctx.note("direct:skipped-word-wrap-width<2")  # a wide character cannot be folded into one cell (C02 starts at width 2)
        return
    P = source_lines(c.shown, c.tab_size)
    found = toks is not None

    def stripped_variant():
        # what the statement would say about the same source without its leading / trailing newlines
        core = c.shown.expandtabs(c.tab_size).replace("\r\n", "\n").replace("\r", "\n").strip("\n")
        return core.split("\n")

    if res[0] == "err":
        finding = None
        if res[1] == "RuntimeError" and "StopIteration" in res[2] and found and c.line_range:
            a = c.line_range[0]
            have = "".join(toks).count("\n")
            if a - 1 > have:
                # the skip loop ran past the text: because the range starts beyond the source,
                # or because stripnl removed leading/trailing blank lines the range counts on
                have_unstripped = pyg_pre(c.shown.expandtabs(c.tab_size), False).count("\n")
                finding = ("syntax-range-start-beyond-end-raises" if a - 1 > have_unstripped else "syntax-stripnl-drops-blank-lines") if (STRIPNL or SKIP_RAISES) else None
        ctx.check(False, site, c.as_dict(), "rendering raised %s: %s" % (res[1], res[2]), finding=finding)
        return
    rows = res[1]
    why = eval_numbered(rows, P, c, w) if c.line_numbers else eval_plain(rows, P, c, w)
    if why is None and c.line_numbers:
        why = gutter_exact(rows, c)
    finding = None
    if why and STRIPNL and found and c.shown.expandtabs(c.tab_size).replace("\r\n", "\n").replace("\r", "\n").startswith("\n"):
        P2 = stripped_variant()
        why2 = eval_numbered(rows, P2, c, w) if c.line_numbers else eval_plain(rows, P2, c, w)
        if why2 is None:
            finding = "syntax-stripnl-drops-blank-lines"
    if why and finding is None and RANGE_POP and c.line_numbers and isinstance(why, Why):
        finding = why.slug  # narrow: set only by the two shapes of the range defect (see eval_numbered)
    ctx.check(why is None, site, c.as_dict(), str(why) if why else "", finding=finding)


# --------------------------------------------------------------------------------------------- generators
ALPHA = ["a", " ", "\n", "\t", "あ"]

PY_LINES = ["x = 1", "def f(a):", "    return a + 1", "\tif x:", "\t\tpass", "# comment あい", 'print("héllo")', "class A:",
            "    def m(self):", "        raise ValueError('boom')", "  ", "", "    ", "y = [1,\t2]", "s = '''", "'''",
            "long_name = " + "+".join(["value"] * 14), "z = 'x\u0300y'", "    # 注释 wide ｗｉｄｅ", "\t", "if True: pass  # t\tab",
            "  │ x = 1", "│", "    │", "│   y", "        │   z = '│'"]
JSON_LINES = ["{", '  "a": [1, 2, 3],', '  "あ": null,', "}", "", '\t"k": "v"', "[", "]", '  "long": "' + "x" * 70 + '"']
HTML_LINES = ["<html>", "  <body class='a'>", "\t<p>text あ</p>", "  </body>", "</html>", "", "<!-- c -->", "  <br/>   "]
TEXT_LINES = ["plain text", "", "  indented", "\ttabbed", "あいう", "trailing   ", "a" * 50, "\u0300\u0300", "x\u200by", "  │ tree", "│   │"]
POOLS = {"python": PY_LINES, "json": JSON_LINES, "html": HTML_LINES, "text": TEXT_LINES, "no-such-lexer": PY_LINES + TEXT_LINES}


def all_strings(alpha, maxlen):
    for n in range(maxlen + 1):
        for t in itertools.product(alpha, repeat=n):
            yield "".join(t)


# Python's str.isspace() beyond the ASCII blank/tab/newline family: none of these is indentation for rich
# (`with_indent_guides` matches `^( *)`), so none may ever be overdrawn by a guide or turned into an ASCII space
EXOTIC_WS = ["\u00a0", "\u1680", "\u2000", "\u2001", "\u2002", "\u2003", "\u2004", "\u2005", "\u2006", "\u2007", "\u2008", "\u2009",
             "\u200a", "\u2028", "\u2029", "\u202f", "\u205f", "\u3000", "\x1c", "\x1d", "\x1e", "\x1f", "\x85"]


def ws_line(rng):
    """A line that STARTS with whitespace other than ASCII blanks (mixed with blanks and tabs); sometimes nothing else follows."""
    n = rng.choice([1, 1, 2, 3, 4, 6, 8])
    prefix = "".join(rng.choice(EXOTIC_WS + EXOTIC_WS + [" ", " ", "\t"]) for _ in range(n))
    if not any(ch in EXOTIC_WS for ch in prefix):
        prefix = rng.choice(["", " ", "  ", "    "]) + rng.choice(EXOTIC_WS) + prefix
    return prefix + rng.choice(["", "", "x = 1", "text", "# c", "あ", "<p>", '"k": 1'])


def rand_source(rng, lexer):
    pool = POOLS[lexer]
    n = rng.choice([0, 1, 1, 2, 3, 4, 5, 7, 9, 10, 11, 12, 20])
    lines = [rng.choice(pool) for _ in range(n)]
    if lines and rng.random() < 0.3:
        for _ in range(rng.choice([1, 1, 2, 4])):
            lines[rng.randrange(len(lines))] = ws_line(rng)
    lead = rng.choice([0, 0, 0, 1, 1, 2, 3, 5])
    trail = rng.choice([0, 1, 1, 1, 2, 3])
    nl = "\r\n" if rng.random() < 0.04 else "\n"
    if lines and rng.random() < 0.15:  # a common margin (what `dedent` removes), blank lines left as they are or made of blanks
        margin = rng.choice(["  ", "    ", "\t", " "])
        lines = [(margin + l) if l.strip() else rng.choice([l, margin, ""]) for l in lines]
    code = "\n" * lead + nl.join(lines) + "\n" * trail
    r = rng.random()
    if r < 0.03:
        code = code.replace("\n", "\r", 1)
    elif r < 0.05:
        code = "\ufeff" + code
    elif r < 0.08 and code:
        i = rng.randrange(len(code))
        code = code[:i] + rng.choice(["\x08", "\x0b", "\x0c", "\x07"]) + code[i:]
    elif r < 0.10:  # a last line made of nothing but characters Text strips (Text.split pops a last piece that is empty AFTER stripping)
        code = code.rstrip("\n") + "\n" + rng.choice(["\x08", "\x0b", "\x0c", "\x08\x0c"]) + rng.choice(["", "\n"])
    return code


def rand_range(rng, nlines):
    n = max(nlines, 1)
    k = rng.random()
    if k < 0.35:
        return None
    if k < 0.55:  # inside
        a = rng.randint(1, n)
        return (a, rng.randint(a, n))
    if k < 0.65:  # straddling the start
        return (rng.randint(-3, 1), rng.randint(1, n))
    if k < 0.78:  # straddling the end
        return (rng.randint(1, n), n + rng.randint(1, 4))
    if k < 0.86:  # starting just past the end
        return (n + 1, n + rng.randint(1, 3))
    if k < 0.92:  # beyond
        return (n + rng.randint(2, 5), n + rng.randint(5, 8))
    if k < 0.96:  # empty / inverted
        a = rng.randint(1, n)
        return (a, rng.randint(0, a))
    return (rng.randint(-2, n), rng.randint(-3, 0))  # Python's negative slice end


def rand_case(rng, code, lexer):
    nlines = code.count("\n") + 1
    line_numbers = rng.random() < 0.8
    start_line = rng.choice([1, 1, 1, 0, 2, 5, 8, 9, 10, 90, 95, 98, 99, 100, 995, 999, 12345])
    rngc = rand_range(rng, nlines)
    hl = tuple(sorted({start_line + rng.randint(-1, nlines + 1) for _ in range(rng.choice([0, 0, 1, 2, 3]))} - {-1}))
    hl = tuple(h for h in hl if h >= 0)
    cwid = rng.choice([None, None, None, 1, 2, 5, 8, 12, 20, 40, 88, 120])
    width = rng.choice([80, 80, 60, 40, 30, 20, 12, 10, 8, 6, 5, 120])
    theme = rng.choice(THEMES)
    return Case(code=code, lexer=lexer, theme=theme, bg=rng.choice([None, None, None, "red", "default"]), line_numbers=line_numbers,
                start_line=start_line, line_range=rngc, highlight=hl, code_width=cwid,
                tab_size=rng.choice([4, 4, 4, 1, 2, 3, 8, 0]), word_wrap=rng.random() < 0.25, indent_guides=rng.random() < 0.35,
                width=width, no_wrap=rng.random() < 0.1, legacy=rng.random() < 0.1, ascii=rng.random() < 0.1,
                color_system=rng.choice([None, None, "truecolor", "standard"]), dedent=rng.random() < 0.15)


# --------------------------------------------------------------------------------------------- one case through both sides
HISTORY = []  # (case, result) of earlier renders in this process, for the history-independence pass


def run_case(ctx, c, shape):
    if not representable(c.code):
        ctx.note("skipped:surrogate")
        return
    src = c.shown.expandtabs(c.tab_size)
    toks = tokens_for(c.lexer, src)
    found = toks is not None
    if found:
        contract = "".join(toks) == pyg_pre(src, bool(STRIPNL))
        ctx.note("lexer-contract:" + ("holds" if contract else "BROKEN"))
        ctx.check(contract, "lexer-contract", {"lexer": c.lexer, "code": src},
                  "concatenated Pygments tokens differ from the preprocessed input (stripnl=%d)" % STRIPNL)
        ctx.case("syn_contract", [enc_str(c.shown), c.tab_size, STRIPNL, enc_str_list(toks)], enc_bool(contract))
    res = render_rows(c.syntax(), c)
    if shape in ("random", "gutter") and len(HISTORY) < (420 if ctx.quick else 2600) and (shape == "gutter" or len(HISTORY) < (300 if ctx.quick else 2400)):
        HISTORY.append((c, res))
    ctx.note("result:" + (res[0] if res[0] == "ok" else res[1]))
    ctx.note(f"lexer:{c.lexer}")
    ctx.note("numbers:%s range:%s guides:%s wrap:%s" % (int(c.line_numbers), "y" if c.line_range else "n", int(c.indent_guides), int(c.word_wrap)))
    ctx.case("syn_render", [enc_str(c.code), enc_bool(found), enc_str_list(toks or []), SKIP_RAISES, RANGE_POP, WRAP_FLAGS] + opts_fields(c), enc_result(res),
             shape=shape, sample=repr(c))
    evaluate(ctx, c, res, toks)
    if (shape in ("exhaustive", "exhaustive-guides", "zero-width-crop") and c.line_range is not None and ctx.rng.random() < 0.3) \
            or (shape in ("random", "gutter", "traceback-frame", "from_path") and ctx.rng.random() < 0.2):
        render_again(ctx, c, res)
    if shape in ("random", "gutter", "exhaustive") and ctx.rng.random() < 0.25:
        end_to_end(ctx, c, res)
    if shape in ("random", "gutter", "exhaustive", "exotic-leading-whitespace") and ctx.rng.random() < 0.35:
        styles(ctx, c)


def styles(ctx, c):
    """Token styles.  (a) correspondence: `Syntax.highlight(code, range)` as a stream of (character, style id) against the
    model fed the real (token text, style id) pairs; (b) direct evaluation on the rendered segments: every code character of
    a shown line carries base + the style of the token it came from (+ the background override), padding carries the
    background style — the oracle is built from the lexer's tokens and the theme, not from the model."""
    from rich.console import Console
    from rich.style import Style

    syn = c.syntax()
    src = c.shown.expandtabs(c.tab_size)
    typed = typed_tokens_for(c.lexer, src)
    found = typed is not None
    theme = syn._theme
    ids = {}

    def sid(st):
        return ids.setdefault(st, len(ids))

    tok_styles = [theme.get_style_for_token(tt) for tt, _ in (typed or [])]
    tok_ids = [sid(st) for st in tok_styles]
    # ---- (a) Syntax.highlight
    try:
        text = syn.highlight(src, c.line_range)
        plain = text.plain
        arr = [0] * len(plain)
        clash = False
        for sp in text.spans:
            if isinstance(sp.style, Style):
                for i in range(max(sp.start, 0), min(sp.end, len(plain))):
                    clash = clash or arr[i] != 0
                    arr[i] = sid(sp.style) + 1
        ctx.check(not clash, "Syntax.highlight(styles)", c.as_dict(), "two token spans cover the same character")
        got = "ok:" + enc_str(plain) + "|" + " ".join(map(str, arr))
    except RuntimeError:
        got = "err:RuntimeError"
    if representable(src):
        ctx.case("syn_highlight_styles", [enc_str(src), enc_bool(found), enc_str_list([v for _, v in (typed or [])]), " ".join(map(str, tok_ids)),
                                          enc_range(c.line_range), SKIP_RAISES], got, shape="found%d-range%s" % (found, "y" if c.line_range else "n"),
                 sample="highlight styles " + repr(c))
    # ---- (b) the rendered segments
    w = code_width_of(c)
    if (not is_plain_source(c.shown) or not c.line_numbers or (c.indent_guides and not c.ascii) or w < 1 or STRIPNL
            or (c.line_range is not None and c.line_range[1] < 0)):
        ctx.note("styles:direct-skipped")
        return
    console = Console(file=io.StringIO(), width=c.width, color_system=c.color_system, force_terminal=False, legacy_windows=False)
    options = dataclasses.replace(console.options, no_wrap=c.no_wrap, legacy_windows=c.legacy, encoding="ascii" if c.ascii else "utf-8")
    try:
        segs = list(console.render(syn, options))
    except Exception:
        return
    rows, cur = [], []
    for sg in segs:
        if sg.is_control:
            continue
        for ch in sg.text:
            if ch == "\n":
                rows.append(cur)
                cur = []
            else:
                cur.append((ch, sg.style))
    null = Style.null()
    base = syn._get_base_style()
    bg = Style.parse("on " + c.bg) if (c.bg is not None and found) else None
    pad_style = null if base.transparent_background else base
    # per-line token styles of the source (the lexer's text = the source, plus a final newline)
    per_line, line = [], []
    for st, (_tt, v) in zip(tok_styles, typed or []):
        for ch in v:
            if ch == "\n":
                per_line.append(line)
                line = []
            else:
                line.append(st)
    per_line.append(line)
    P = source_lines(c.shown, c.tab_size)
    for cells in rows:
        rtext = "".join(ch for ch, _ in cells)
        m = ROW_RE.match(rtext)
        if not m:
            continue
        num = int(m.group(3))
        idx = num - c.start_line
        glen = len(m.group(1) + m.group(2) + m.group(3)) + 1
        if not (0 <= idx < len(P)) or cell_len(P[idx]) > w or len(P[idx]) > w:
            continue
        line = P[idx]
        body = cells[glen:]
        if "".join(ch for ch, _ in body[: len(line)]) != line:
            continue  # the characters are the other checks' business
        for j, (ch, st) in enumerate(body):
            if j < len(line):
                parts = [base] + ([per_line[idx][j]] if found and idx < len(per_line) and j < len(per_line[idx]) else []) + ([bg] if bg else [])
                want = Style.combine(parts)
            else:
                want = pad_style
            if (st or null) != (want or null):
                ctx.check(False, "Syntax(rendered styles)", c.as_dict(),
                          "row numbered %d, column %d (%r): style %r, the token/background asks for %r" % (num, j, ch, str(st), str(want)))
                return
    ctx.check(True, "Syntax(rendered styles)", None, "")


def render_again(ctx, c, res):
    """Rendering is pure: ONE Syntax object, attributes untouched, rendered three times (and its text highlighted twice)
    must give the same rows every time, the rows a fresh object gives.  Anything the object remembers between renders
    and then changes in place (a cached Text that `remove_suffix` keeps cropping, a cached width, lexer state) shows here."""
    syn = c.syntax()
    outs = [render_rows(syn, c) for _ in range(3)]
    ctx.check(all(o == res for o in outs), "Syntax(same object rendered again)", c.as_dict(),
              "renders 1..3 of one unchanged Syntax object: %r — a fresh object gives %r"
              % ([o[1] if o[0] == "ok" else o for o in outs], res[1] if res[0] == "ok" else res))
    try:
        src = c.shown.expandtabs(c.tab_size)
        a = syn.highlight(src, c.line_range).plain
        b = syn.highlight(src, c.line_range).plain
        ctx.check(a == b, "Syntax(same object rendered again)", c.as_dict(), "highlight() called twice on one object returns %r then %r" % (a, b))
    except RuntimeError:
        pass


def crop_cells(row, width):
    """What cropping a row to `width` cells leaves (rich.cells.set_cell_size is C13's subject; used as a device)."""
    from rich.cells import set_cell_size

    return row if cell_len(row) <= width else set_cell_size(row, width)


def end_to_end(ctx, c, res):
    """(a) `Console.print(syntax)` — everything below the print-time crop — writes the rows `console.render` yields, each
    cropped to the console width; (b) `__rich_measure__` agrees with the model, and the C09 clause 'rendering at the reported
    maximum fits' is observed (it is not part of C17's statement: counted, not judged)."""
    from rich.console import Console

    syn = c.syntax()
    console = Console(file=io.StringIO(), width=c.width, color_system=c.color_system, force_terminal=False, legacy_windows=False)
    try:
        m = syn.__rich_measure__(console, c.width)
        ctx.case("syn_measure", [enc_str(c.code), enc_bool(c.line_numbers), c.start_line, enc_opt(c.code_width), c.width, MEASURE_SHORT],
                 "%d,%d" % (m.minimum, m.maximum), shape="numbers%d-cw%s" % (c.line_numbers, "y" if c.code_width is not None else "n"))
        if res[0] == "ok" and m.maximum >= 1 and not c.no_wrap:
            c2 = Case(**{**c.as_dict(), "width": m.maximum})
            r2 = render_rows(c2.syntax(), c2)
            if r2[0] == "ok":
                over = any(cell_len(r) > m.maximum for r in r2[1])
                ctx.note("measure(C09 clause, observed):render-at-maximum-%s%s" % ("OVERFLOWS" if over else "fits",
                         "-numbers+code_width" if (c.line_numbers and c.code_width is not None) else ""))
    except Exception as e:
        ctx.check(False, "Syntax.__rich_measure__", c.as_dict(), "measure raised %s: %s" % (type(e).__name__, e))
    if c.legacy or c.ascii or res[0] != "ok":
        return
    rows = res[1]
    if any(cell_len(r) > c.width and any(cell_len(ch) == 0 for ch in r) for r in rows):
        ctx.note("print:skipped-zero-width-at-crop")
        return
    try:
        console.print(syn, no_wrap=True if c.no_wrap else None)
    except Exception as e:
        ctx.check(False, "Console.print(Syntax)", c.as_dict(), "print raised %s: %s although render did not" % (type(e).__name__, e))
        return
    out = ANSI_RE.sub("", console.file.getvalue())
    got = out.split("\n")
    got = got[:-1] if got and got[-1] == "" else got
    want = [crop_cells(r, c.width) for r in rows]
    ctx.check(got == want, "Console.print(Syntax)", c.as_dict(),
              "printed rows differ from the rendered rows cropped to the console width: printed %r, expected %r" % (got[:6], want[:6]))


def helper_correspondence(ctx, rng):
    """The small functions one by one (this is where an off-by-one mutant of a helper shows first)."""
    from rich.syntax import Syntax
    from rich.text import Text
    from pygments.lexers import TextLexer

    strings = list(all_strings(["a", "\n", "\t", " "], 5 if ctx.quick else 6))
    for s in strings:
        for ts in (0, 1, 2, 4):
            ctx.case("syn_expandtabs", [enc_str(s), ts], enc_str(s.expandtabs(ts)), shape=f"ts{ts}")
    for s in all_strings(["a", "\n", "\r", "\ufeff"], 5):
        for stripnl in (0, 1):
            lx = TextLexer(stripnl=bool(stripnl))
            got = lx._preprocess_lexer_input(s) if hasattr(lx, "_preprocess_lexer_input") else "".join(v for _, v in lx.get_tokens(s))
            ctx.check(got == pyg_pre(s, bool(stripnl)), "pygments-preprocess", (s, stripnl), "Pygments preprocessing differs from its documented steps")
            ctx.case("syn_pygpre", [enc_str(s), stripnl], enc_str(got), shape=f"stripnl{stripnl}")
    for n in list(range(0, 1200)) + [rng.randrange(10 ** k) for k in range(1, 18) for _ in range(5)] + [10 ** k + d for k in range(1, 18) for d in (-1, 0, 1)]:
        ctx.case("syn_natstr", [n], enc_str(str(n)))
    for s in all_strings(["a", "\n"], 6):
        for start in (0, 1, 7, 8, 9, 10, 97, 98, 99, 100):
            for ln in (0, 1):
                ctx.case("syn_ncw", [enc_str(s), ln, start], Syntax(s, "python", line_numbers=bool(ln), start_line=start)._numbers_column_width)
    for s in all_strings(["a", "\n", " "], 6):
        for ab in (0, 1):
            got = [l.plain for l in Text(s).split("\n", allow_blank=bool(ab))]
            ctx.case("syn_textsplit", [enc_str(s), ab], enc_str_list(got), shape=f"allow_blank{ab}")
        t = Text(s)
        t.remove_suffix("\n")
        ctx.case("syn_remove_suffix", [enc_str(s)], enc_str(t.plain))
    # with_indent_guides on line lists
    lines_alpha = ["", " ", "  ", "a", " a", "  a", "   a", "    a", "     a b", "  │",
                   "\u00a0a", "  \u3000a", "\u2003", " \u2003 ", "\u00a0\u00a0\u00a0\u00a0a", "\x1f a", "\u2028", "  \u205f  a"]
    combos = list(itertools.product(lines_alpha, repeat=2)) + [tuple(rng.choice(lines_alpha) for _ in range(rng.randint(1, 6))) for _ in range(400 if ctx.quick else 4000)]
    for ls in [()] + combos:
        for ts in (0, 1, 2, 4):
            # both compositions syntax.py has used around with_indent_guides (they are Text-level facts, whatever /repo contains)
            try:
                got = "ok:" + enc_str_list([l.plain for l in Text("\n").join([Text(l) for l in ls]).with_indent_guides(ts).split("\n")])
            except ZeroDivisionError:
                got = "err:ZeroDivisionError"
            ctx.case("syn_guides", [ts, enc_str_list(list(ls)), 1], got, shape=f"ts{ts}-pop")
            try:
                got = "ok:" + enc_str_list([l.plain for l in (Text("\n").join([Text(l) for l in ls]) + "\n").with_indent_guides(ts).split("\n", allow_blank=True)] if ls else [])
            except ZeroDivisionError:
                got = "err:ZeroDivisionError"
            ctx.case("syn_guides", [ts, enc_str_list(list(ls)), 0], got, shape=f"ts{ts}-keep")
    # Python slicing lines[lo:hi]
    for n in range(0, 6):
        ls = [str(i) for i in range(n)]
        for lo in range(0, 7):
            for hi in range(-7, 8):
                ctx.case("syn_slice", [enc_str_list(ls), lo, hi], enc_str_list(ls[lo:hi]))
    # Syntax.highlight itself (plain text), all ranges
    for code in all_strings(["a", "\n"], 5) if ctx.quick else all_strings(["a", "\n", "b"], 6):
        for lexer in ("python", "text", "no-such-lexer"):
            toks = tokens_for(lexer, code)
            n = code.count("\n") + 1
            for r in [None] + [(a, b) for a in range(-1, n + 4) for b in range(-1, n + 3)]:
                try:
                    got = "ok:" + enc_str(Syntax(code, lexer).highlight(code, r).plain)
                except RuntimeError:
                    got = "err:RuntimeError"
                ctx.case("syn_highlight", [enc_str(code), enc_bool(toks is not None), enc_str_list(toks or []), enc_range(r), SKIP_RAISES], got,
                         shape=lexer + (":ranged" if r else ":whole"))
    ctx.flush()


def fit_correspondence(ctx, rng):
    """How one line is fitted into the code column, in both branches that crop (numbered: adjust_line_length,
    un-numbered: Text.wrap(no_wrap) -> truncate)."""
    alpha = ["a", " ", "あ", "b"]
    for s in all_strings(alpha, 4 if ctx.quick else 5):
        for w in range(1, 7):
            for pad_theme in ("ansi_dark", "monokai"):
                for ln in (True, False):
                    width = w + (4 if ln else 1)
                    c = Case(code=s, lexer="no-such-lexer", theme=pad_theme, line_numbers=ln, width=width)
                    res = render_rows(c.syntax(), c)
                    ctx.case("syn_render", [enc_str(c.code), "0", enc_str_list([]), SKIP_RAISES, RANGE_POP, WRAP_FLAGS] + opts_fields(c), enc_result(res),
                             shape="fit", sample=repr(c))
                    evaluate(ctx, c, res, None)
    ctx.flush()


def syntax_cases(ctx, rng):
    # (1) bounded-exhaustive sources x the option axes that interact with blank lines and ranges
    maxlen = 4 if ctx.quick else 5
    srcs = list(all_strings(ALPHA, maxlen))
    for s in srcs:
        n = s.count("\n") + 1
        ranges = [None, (1, n), (2, n + 1), (n, n), (n + 1, n + 2), (n + 2, n + 3), (0, 1), (1, max(n - 1, 1)), (2, 2), (1, 2)]
        for lexer in ("python", "no-such-lexer"):
            for r in ranges:
                c = Case(code=s, lexer=lexer, line_range=r, start_line=rng.choice([1, 1, 9, 99]), highlight=(rng.randint(1, 3),),
                         theme=rng.choice(["ansi_dark", "monokai"]), tab_size=rng.choice([4, 2]), width=rng.choice([30, 10, 7]))
                run_case(ctx, c, "exhaustive")
        c = Case(code=s, lexer=rng.choice(["text", "json", "html"]), line_numbers=False, line_range=rng.choice([None, (1, 1), (2, 3)]),
                 theme=rng.choice(["ansi_dark", "monokai"]), width=rng.choice([30, 8]))
        run_case(ctx, c, "exhaustive-plain")
        for r in (None, (1, n), (1, max(n - 1, 1)), (2, 3), (n + 2, n + 4)):
            c = Case(code=s, lexer="python", indent_guides=True, tab_size=rng.choice([1, 2, 4]), line_range=r, width=30)
            run_case(ctx, c, "exhaustive-guides")
    ctx.flush()
    # (1b) every non-ASCII / control member of str.isspace() at the start of a line, alone and mixed with blanks and tabs,
    #      followed by text or by nothing, between ordinarily indented lines — with indent guides on and off
    for wsc in EXOTIC_WS:
        for prefix in (wsc, " " + wsc, wsc + " ", "  " + wsc + "  ", wsc * 4, "\t" + wsc, "    " + wsc, wsc + "    "):
            for body in ("x", ""):
                code = "def f():\n" + prefix + body + "\n    y = 1\n" + wsc * 2 + "\n  z\n" + prefix + body
                for lexer in ("python", "no-such-lexer", "text"):
                    for guides in ((True, False) if lexer != "text" else (True,)):
                        c = Case(code=code, lexer=lexer, indent_guides=guides, tab_size=rng.choice([4, 4, 2, 1]), theme=rng.choice(["ansi_dark", "monokai"]),
                                 line_numbers=True, line_range=rng.choice([None, None, (2, 5), (1, 6)]), highlight=(2,), width=rng.choice([40, 60]),
                                 word_wrap=rng.random() < 0.15)
                        run_case(ctx, c, "exotic-leading-whitespace")
    ctx.flush()
    # (1c) cropping THROUGH zero-width characters (Segment.adjust_line_length crops the segment at the edge, not the line):
    #      every string <= 3 over {a, combining grave, wide, blank} after an indent, widths 1..4, lexers that cut the line
    #      into different segments, indent guides on and off
    for t in all_strings(["a", "\u0300", "あ", " ", "="], 3):
        for wdt in (1, 2, 3, 4):
            for lexer in ("python", "text", "no-such-lexer"):
                for guides in (False, True):
                    c = Case(code="  " + t + "\n" + t + "x\u0300\u0300y", lexer=lexer, code_width=wdt, indent_guides=guides, tab_size=2,
                             theme=rng.choice(["ansi_dark", "monokai"]), width=40, highlight=(1,))
                    run_case(ctx, c, "zero-width-crop")
    ctx.flush()
    # (2) structured random
    n_rand = 2000 if ctx.quick else 60000
    for i in range(n_rand):
        lexer = LEXERS[i % len(LEXERS)]
        code = rand_source(rng, lexer)
        run_case(ctx, rand_case(rng, code, lexer), "random")
    ctx.flush()
    # (3) gutter: many lines, start_line near powers of ten
    for nl in [8, 9, 10, 11, 99, 100, 101]:
        for start in [0, 1, 2, 89, 90, 91, 899, 900, 901]:
            for lexer in ("python", "no-such-lexer"):
                code = "\n".join("v%d = %d" % (i, i) for i in range(nl)) + rng.choice(["", "\n"])
                r = rng.choice([None, None, (nl - 3, nl + 2), (1, 3)])
                run_case(ctx, Case(code=code, lexer=lexer, start_line=start, line_range=r, width=40, highlight=(start + nl - 1,)), "gutter")
    ctx.flush()
    # (4) every Pygments theme (thorough tier) — themes must never change a character
    if not ctx.quick:
        from pygments.styles import get_all_styles

        for theme in sorted(get_all_styles()):
            for lexer in LEXERS:
                code = rand_source(rng, lexer)
                c = rand_case(rng, code, lexer)
                c.theme = theme
                run_case(ctx, c, "all-themes")
        ctx.flush()


# --------------------------------------------------------------------------------------------- history independence of Syntax
def history_cases(ctx, rng):
    """Everything rendered earlier in this process is rendered again, in another order, interleaving lexers, themes and
    options: (a) through a fresh Syntax, (b) through ONE long-lived Syntax object whose public attributes are
    reassigned.  A render may depend on its own inputs only — any module-, class- or instance-level memory
    (lexer objects, theme/style caches, cached widths or highlighted text) that is keyed too coarsely shows up here."""
    from rich.syntax import Syntax

    order = list(HISTORY)
    rng.shuffle(order)
    reused = Syntax("", "python")
    for c, res in order:
        again = render_rows(c.syntax(), c)
        ctx.check(again == res, "Syntax(history of renders)", c.as_dict(),
                  "the same Syntax rendered later in the process gives different rows: first %r, now %r" % (res, again))
        reused.code = c.code
        reused.lexer_name = c.lexer
        reused.line_numbers = c.line_numbers
        reused.start_line = c.start_line
        reused.line_range = c.line_range
        reused.highlight_lines = set(c.highlight)
        reused.code_width = c.code_width
        reused.tab_size = c.tab_size
        reused.word_wrap = c.word_wrap
        reused.background_color = c.bg
        reused.indent_guides = c.indent_guides
        reused.dedent = c.dedent
        reused._theme = Syntax.get_theme(c.theme)
        again2 = render_rows(reused, c)
        ctx.check(again2 == res, "Syntax(reused object)", c.as_dict(),
                  "a Syntax object whose attributes were reassigned renders differently from a new one: new %r, reused %r" % (res, again2))
    del HISTORY[:]


# --------------------------------------------------------------------------------------------- Syntax.from_path (glue)
TB_ROOT = "/tmp/C17"


def from_path_cases(ctx, rng):
    """`Syntax.from_path` reads the file, picks a lexer from the extension and forwards every option."""
    from rich.syntax import Syntax

    root = os.path.join(TB_ROOT, "fp_%d_%d" % (os.getpid(), ctx.seed))
    shutil.rmtree(root, ignore_errors=True)
    os.makedirs(root)
    try:
        exts = [("python", ".py"), ("json", ".json"), ("html", ".html"), ("text", ".txt"), ("no-such-lexer", ".zzz-unknown"), ("python", "")]
        for i in range(60 if ctx.quick else 600):
            pool, ext = exts[i % len(exts)]
            code = rand_source(rng, pool).replace("\r", "")  # universal newlines would rewrite them while reading
            path = os.path.join(root, "f%d%s" % (i, ext))
            with open(path, "w", encoding="utf-8", newline="") as f:
                f.write(code)
            c = rand_case(rng, code, pool)
            try:
                syn = Syntax.from_path(path, theme=c.theme, line_numbers=c.line_numbers, line_range=c.line_range, start_line=c.start_line,
                                       highlight_lines=set(c.highlight), code_width=c.code_width, tab_size=c.tab_size,
                                       word_wrap=c.word_wrap, background_color=c.bg, indent_guides=c.indent_guides, dedent=c.dedent)
            except Exception as e:
                ctx.check(False, "Syntax.from_path", {"path_ext": ext, "code": code}, "from_path raised %s: %s" % (type(e).__name__, e))
                continue
            got = dict(code=syn.code, line_numbers=syn.line_numbers, line_range=syn.line_range, start_line=syn.start_line,
                       highlight=tuple(sorted(syn.highlight_lines)), code_width=syn.code_width, tab_size=syn.tab_size, word_wrap=syn.word_wrap,
                       indent_guides=syn.indent_guides, bg=syn.background_color, dedent=syn.dedent)
            want = dict(code=code, line_numbers=c.line_numbers, line_range=c.line_range, start_line=c.start_line, highlight=tuple(sorted(set(c.highlight))),
                        code_width=c.code_width, tab_size=c.tab_size, word_wrap=c.word_wrap, indent_guides=c.indent_guides, bg=c.bg, dedent=c.dedent)
            ctx.check(got == want, "Syntax.from_path", {"path_ext": ext, "case": c.as_dict()},
                      "from_path does not forward the file content / options unchanged: %r" % {k: (got[k], want[k]) for k in got if got[k] != want[k]})
            ctx.note("from_path:lexer=%s" % syn.lexer_name)
            # render what from_path built, judge it against the FILE's lines
            c.lexer = syn.lexer_name
            c.code = syn.code
            src = c.shown.expandtabs(c.tab_size)
            toks = tokens_for(c.lexer, src)
            res = render_rows(syn, c)
            if representable(c.code):
                ctx.case("syn_render", [enc_str(c.code), enc_bool(toks is not None), enc_str_list(toks or []), SKIP_RAISES, RANGE_POP, WRAP_FLAGS] + opts_fields(c), enc_result(res),
                         shape="from_path", sample=repr(c))
            c2 = Case(**{**c.as_dict(), "code": code})
            evaluate(ctx, c2, res, toks)
    finally:
        shutil.rmtree(root, ignore_errors=True)
        try:
            os.rmdir(TB_ROOT)
        except OSError:
            pass
    ctx.flush()


# --------------------------------------------------------------------------------------------- tracebacks


def gen_module(rng):
    """Source of a module that raises at a known place; returns (source, expected innermost line number)."""
    lead = rng.choice([0, 0, 1, 2, 3, 4, 5, 8, 12])
    nl_after = rng.choice(["\n", "\n", "", "\n\n\n"])
    ind = rng.choice(["    ", "\t", "  "])
    filler = ["a = 1", "b = 'あいう'  # wide", "", "c = [1, 2,\t3]", "# comment", "d = " + " + ".join(["1"] * 50), "  ".rstrip(), "e = {'k': 'v'}"]
    pre = [rng.choice(filler) for _ in range(rng.choice([0, 0, 1, 2, 5, 9, 15] * 4 + [98, 120, 400]))]  # now and then a long file (gutter of 3-4 digits)
    if rng.random() < 0.4:  # context lines starting with non-ASCII whitespace: legal inside a string literal
        k = rng.randrange(len(pre) + 1)
        ws = [w for w in EXOTIC_WS if w not in ("\x1c", "\x1d", "\x1e", "\x1f", "\x85", "\u2028", "\u2029")]
        pre[k:k] = ['t = """', rng.choice(ws) + rng.choice(ws) + " indented", rng.choice(ws) * 3, "  " + rng.choice(ws) + "x", '"""']
    shape = rng.choice(["flat", "func", "nested", "method", "short"])
    if shape == "short":
        body = ["raise ValueError('short')"]
        pre = [] if rng.random() < 0.6 else pre
    elif shape == "flat":
        body = ["raise ValueError('flat %d' % a)" if pre and pre[0].startswith("a") else "raise ValueError('flat')"]
    elif shape == "func":
        body = ["def f(n):", ind + "x = n", "", ind + "raise KeyError(x)", ind + "return x", "", "f(3)"]
    elif shape == "nested":
        body = ["def outer():", ind + "def inner():", ind * 2 + "y = 1 / 0", ind * 2 + "return y", ind + "return inner()", "", "", "outer()"]
    else:
        body = ["class K:", ind + "def m(self, v):", ind * 2 + "if v:", ind * 3 + "raise RuntimeError('あ' * 3)", ind * 2 + "return v", "", "K().m(1)"]
    post = [rng.choice(filler) for _ in range(rng.choice([0, 0, 1, 3, 6]))]
    src = "\n" * lead + "\n".join(pre + body + post) + nl_after
    return src, lead, shape


from lib_c17_exec import compile_only, run_module, run_pair, throw  # noqa: E402  (their frames appear in every rendered traceback)


def try_read(path):
    try:
        return read_now(path)
    except OSError:
        return None


ANSI_RE = re.compile(r"\x1b\[[0-9;]*m")
BORDER_RE = re.compile(r"^│ (.*) │$", re.S)
HEADER_RE = re.compile(r"^(/.*?):(\d+) in (\S+)\s*$")


def gen_pair(rng):
    """Two sources for a traceback that crosses files: `lib` defines helper() which raises, `main` calls it
    (optionally re-raising a chained exception).  Shapes vary in leading blank lines, failing line and length."""
    filler = ["a = 1", "b = 'あいう'  # wide", "", "c = [1, 2,\t3]", "# comment", "e = {'k': 'v'}", "d = " + " + ".join(["1"] * 40)]
    ind = rng.choice(["    ", "\t", "  "])

    def block(n):
        return [rng.choice(filler) for _ in range(n)]

    lib = ["\n" * rng.choice([0, 0, 1, 2, 3, 5, 9]).__mul__(1)] if False else []
    lib_lead = rng.choice([0, 0, 1, 2, 3, 5, 9])
    lib_body = block(rng.choice([0, 1, 3, 7])) + ["def helper(v):"] + [ind + "w = v + %d" % i for i in range(rng.choice([0, 1, 2, 4]))] + \
        [ind + rng.choice(["raise KeyError(v)", "raise ValueError('lib %d' % v)", "return 1 // (v - v)"]), ind + "return v"] + block(rng.choice([0, 0, 2, 5]))
    main_lead = rng.choice([0, 0, 1, 2, 4, 6, 10])
    call = rng.choice(["flat", "func", "chained", "implicit", "implicit-elsewhere", "suppressed", "chained"])
    if call == "flat":
        main_body = block(rng.choice([0, 1, 2, 6])) + ["helper(%d)" % rng.randint(1, 9)] + block(rng.choice([0, 1, 3]))
    elif call == "func":
        main_body = block(rng.choice([0, 2, 5])) + ["def go():", ind + "x = 1", ind + "return helper(x)", "", "go()"] + block(rng.choice([0, 2]))
    elif call == "chained":
        main_body = block(rng.choice([0, 1, 4])) + ["try:", ind + "helper(2)", "except Exception as err:", ind + "raise RuntimeError('outer') from err"] + block(rng.choice([0, 2]))
    elif call == "implicit":  # no `from`: __context__ only; the two exceptions are raised in different files
        main_body = block(rng.choice([0, 1, 4])) + ["try:", ind + "helper(2)", "except Exception:"] + [ind + "z = %d" % i for i in range(rng.choice([0, 1, 3]))] + \
            [ind + "raise RuntimeError('while handling')"] + block(rng.choice([0, 2]))
    elif call == "implicit-elsewhere":  # the handler fails inside another function, three levels of implicit chaining
        main_body = block(rng.choice([0, 2])) + ["def cleanup():", ind + "return {}['missing']", "", "try:", ind + "try:", ind * 2 + "helper(3)", ind + "except Exception:",
                                                 ind * 2 + "cleanup()", "except Exception:", ind + "raise TypeError('third')"] + block(rng.choice([0, 1]))
    else:  # `from None`: the context is suppressed, one exception only
        main_body = block(rng.choice([0, 1, 4])) + ["try:", ind + "helper(2)", "except Exception:", ind + "raise RuntimeError('alone') from None"] + block(rng.choice([0, 2]))
    end = rng.choice(["\n", "\n", "", "\n\n"])
    return "\n" * lib_lead + "\n".join(lib_body) + end, "\n" * main_lead + "\n".join(main_body) + rng.choice(["\n", ""]), call


def read_now(path):
    """The file as it is at this moment (the reference is never taken from a cache)."""
    with open(path, "rt", encoding="utf-8", errors="replace") as f:
        return f.read()


def traceback_cases(ctx, rng):
    import importlib

    import rich.traceback as rtb
    from rich.console import Console

    recorded = []
    RealSyntax = rtb.Syntax

    class RecordingSyntax(RealSyntax):
        def __init__(self, *a, **k):
            super().__init__(*a, **k)
            recorded.append((self, a, k))

    root = os.path.join(TB_ROOT, "tb_%d_%d" % (os.getpid(), ctx.seed))
    shutil.rmtree(root, ignore_errors=True)
    os.makedirs(root)
    rtb.Syntax = RecordingSyntax

    def render_and_check(info, src, path, generated, site, label, show_locals=False):
        """Render one traceback, compare it with the files as they are NOW.  `generated` = paths written by this harness."""
        extra = rng.choice([3, 3, 0, 1, 2, 5, 10])
        ww = rng.random() < 0.2
        ig = rng.random() < 0.7
        width = rng.choice([100, 100, 120, 140])
        theme = rng.choice([None, None, "monokai", "ansi_light", "default"])  # interleaved: theme/style caches must not leak characters
        ctx.note(f"tb:extra={extra}")
        del recorded[:]
        tb = rtb.Traceback.from_exception(*info, width=width, extra_lines=extra, word_wrap=ww, indent_guides=ig, theme=theme, show_locals=show_locals)
        ctx.note(f"tb:show_locals={int(show_locals)}")
        console = Console(file=io.StringIO(), width=200, color_system=rng.choice([None, None, "truecolor"]), force_terminal=False, legacy_windows=False)
        stacks = list(reversed(tb.trace.stacks))  # the order they are rendered in
        frames = [fr for st in stacks for fr in st.frames]
        inp = {"label": label, "source": src, "path": path, "extra_lines": extra, "word_wrap": ww, "indent_guides": ig, "width": width, "theme": theme,
               "frames": [(fr.filename, fr.lineno) for fr in frames], "show_locals": show_locals,
               "files_now": {g: try_read(g) for g in generated}}
        # the reference must be fresh: nothing below may come from a cache filled by an earlier render
        linecache.clearcache()
        importlib.invalidate_caches()
        try:
            console.print(tb)
            out = ANSI_RE.sub("", console.file.getvalue())
            err = None
        except Exception as e:
            out, err = "", e
        # ---- correspondence: the Syntax built for each frame (code, options), and its rendering
        readable = [fr for fr in frames if not fr.filename.startswith("<") and try_read(fr.filename) is not None]
        if err is None and len(recorded) == len(readable):
            k = 0
            for st in stacks:
                ids, codes = [], []
                for fr in st.frames:
                    if fr.filename.startswith("<") or try_read(fr.filename) is None:
                        continue
                    syn = recorded[k][0]
                    k += 1
                    now = read_now(fr.filename)
                    ctx.check(syn.code == now, "Traceback._render_stack.read_code", inp,
                              "the Syntax for frame %s:%d was built from text that is not the file's content now "
                              "(first difference at char %d)" % (fr.filename, fr.lineno, next((i for i, (x, y) in enumerate(zip(syn.code, now)) if x != y), min(len(syn.code), len(now)))),
                              finding=None)
                    if fr.filename in generated:
                        ids.append(generated.index(fr.filename))
                        codes.append(syn.code)
                if ids and all(representable(c) for c in codes) and all(try_read(g) is not None for g in generated):
                    ctx.case("tb_codes", [enc_str_list([read_now(g) for g in generated]), " ".join(map(str, ids))], enc_str_list(codes),
                             shape="files%d-frames%d" % (len(generated), min(len(ids), 4)), sample=f"read_code {label}")
        for syn, a, k_ in recorded:
            lineno = min(syn.highlight_lines) if syn.highlight_lines else 0
            got = "%s;%s;%s;%s;%s;%s;%s;%s" % (enc_bool(syn.line_numbers), syn.start_line, enc_range(syn.line_range),
                                               " ".join(str(h) for h in sorted(syn.highlight_lines)), enc_opt(syn.code_width),
                                               syn.tab_size, enc_bool(syn.word_wrap), enc_bool(syn.indent_guides))
            ctx.case("tb_opts", [lineno, extra, enc_bool(ww), enc_bool(ig)], got, shape="frame")
            ctx.check(syn.dedent is False and isinstance(syn.lexer_name, str), "Traceback._render_stack", inp, "frame Syntax built with dedent / without a lexer name")
            if len(syn.code) < 4000 and representable(syn.code):
                c = Case(code=syn.code, lexer=syn.lexer_name, theme="ansi_dark", line_numbers=syn.line_numbers, start_line=syn.start_line,
                         line_range=syn.line_range, highlight=tuple(sorted(syn.highlight_lines)), code_width=syn.code_width,
                         tab_size=syn.tab_size, word_wrap=syn.word_wrap, indent_guides=syn.indent_guides, width=96)
                run_case(ctx, c, "traceback-frame")
        # ---- direct evaluation on the printed traceback
        finding = None
        if err is not None:
            if STRIPNL and isinstance(err, RuntimeError) and "StopIteration" in str(err) and (src.startswith("\n") or src.endswith("\n\n")):
                finding = "traceback-stripnl-shifts-failing-line"
            ctx.check(False, site, inp, "printing the traceback raised %s: %s" % (type(err).__name__, err), finding=finding)
            return
        why, finding = eval_traceback(out, frames, extra, ww, ig, src, path)
        ctx.check(why is None, site, inp, why or "", finding=finding)
        if not show_locals:
            why = eval_chain(out, info[1])
            ctx.note("tb:chain-length=%d" % len(exception_chain(info[1])))
            ctx.check(why is None, "Traceback(exception chain)", inp, why or "")

    def edge_round(i):
        """Frames whose file changed under the traceback: gone, emptied, too short for the frame's line; locals shown."""
        kind = rng.choice(["locals", "locals", "gone", "short", "empty", "locals-pair", "gone-lib", "short-lib"])
        ctx.note("tb-edge:" + kind)
        if kind in ("locals", "gone", "short", "empty"):
            src, lead, shape = gen_module(rng)
            path = os.path.join(root, "edge_%d.py" % (i % 3))
            with open(path, "w", encoding="utf-8", newline="") as f:
                f.write(src)
            info = run_module(path, src)
            gen = [path]
        else:
            lib_src, src, call = gen_pair(rng)
            path, lib_path = os.path.join(root, "edge_main.py"), os.path.join(root, "edge_lib.py")
            for pth, text in ((lib_path, lib_src), (path, src)):
                with open(pth, "w", encoding="utf-8", newline="") as f:
                    f.write(text)
            info = run_pair(lib_path, lib_src, path, src)
            gen = [path, lib_path]
        if info is None:
            raise RuntimeError("generated module did not raise")
        victim = gen[-1]
        if kind.startswith("gone"):
            os.remove(victim)
        elif kind.startswith("short"):
            keep = read_now(victim).split("\n")
            with open(victim, "w", encoding="utf-8", newline="") as f:
                f.write("\n".join(keep[: rng.choice([0, 1, 1, 2, 3])]) + rng.choice(["", "\n"]))
        elif kind == "empty":
            open(victim, "w").close()
        render_and_check(info, src, path, gen, "Traceback(edge cases)", "edge %s round %d" % (kind, i), show_locals=kind.startswith("locals") or rng.random() < 0.2)

    try:
        # ---- (1) independent modules, fresh path each
        n_mod = 60 if ctx.quick else 2000
        for i in range(n_mod):
            src, lead, shape = gen_module(rng)
            path = os.path.join(root, "m%d.py" % i)
            with open(path, "w", encoding="utf-8", newline="") as f:
                f.write(src)
            info = run_module(path, src)
            if info is None:
                raise RuntimeError("generated module did not raise")
            ctx.note(f"tb:shape={shape}")
            ctx.note(f"tb:leading-blank={min(lead, 6)}")
            render_and_check(info, src, path, [path], "Traceback.__rich_console__", "fresh-path")
        # ---- (1b) the same kind of module under a file name no Pygments lexer claims (a script without extension, an unknown
        #           extension) and under other known extensions: the file is readable, its failing line must be shown
        for i, ext in enumerate(["", ".zzq", ".txt", ".pyx", ".unknownext", ".json", "", ".sh"] * (1 if ctx.quick else 20)):
            src, lead, shape = gen_module(rng)
            path = os.path.join(root, "script%d%s" % (i, ext))
            with open(path, "w", encoding="utf-8", newline="") as f:
                f.write(src)
            info = run_module(path, src)
            if info is None:
                raise RuntimeError("generated module did not raise")
            ctx.note("tb:extension=" + (ext or "none"))
            render_and_check(info, src, path, [path], "Traceback.__rich_console__", "odd-extension " + (ext or "none"))
        # ---- (2) histories in ONE process over the SAME paths whose contents change between renders:
        #          what is shown must depend only on the files as they are when the traceback is rendered
        main_path = os.path.join(root, "reused_main.py")
        lib_path = os.path.join(root, "reused_lib.py")
        single_path = os.path.join(root, "reused_single.py")
        n_rounds = 35 if ctx.quick else 500
        for i in range(n_rounds):
            if rng.random() < 0.35:
                src, lead, shape = gen_module(rng)
                with open(single_path, "w", encoding="utf-8", newline="") as f:
                    f.write(src)
                info = run_module(single_path, src)
                ctx.note("tb-history:single")
                render_and_check(info, src, single_path, [single_path], "Traceback(history of renders)", "reused-path round %d" % i)
                continue
            lib_src, main_src, call = gen_pair(rng)
            if rng.random() < 0.25 and i:  # change only one of the two files this round
                lib_src = read_now(lib_path) if os.path.exists(lib_path) and "def helper" in read_now(lib_path) else lib_src
            with open(lib_path, "w", encoding="utf-8", newline="") as f:
                f.write(lib_src)
            with open(main_path, "w", encoding="utf-8", newline="") as f:
                f.write(main_src)
            info = run_pair(lib_path, lib_src, main_path, main_src)
            if info is None:
                raise RuntimeError("generated module pair did not raise")
            ctx.note("tb-history:pair-" + call)
            render_and_check(info, main_src, main_path, [main_path, lib_path], "Traceback(history of renders)", "reused-paths round %d" % i)
        # ---- (3) frames whose file is gone / shorter than the frame's line number / empty; show_locals
        for i in range(40 if ctx.quick else 500):
            edge_round(i)
        # ---- (4) SyntaxError stacks: the offending line and the offset marker
        syntax_error_cases(ctx, rng, root, rtb)
    finally:
        rtb.Syntax = RealSyntax
        shutil.rmtree(root, ignore_errors=True)
        try:
            os.rmdir(TB_ROOT)
        except OSError:
            pass
    ctx.flush()


def exception_chain(exc):
    """The exceptions a traceback shows, OLDEST first, each with the (filename, lineno) frames of ITS OWN __traceback__ and
    how the next (newer) one is linked to it — walked here from the exception objects, not taken from rich's Trace."""
    import traceback as pytb

    chain = []
    seen = set()
    link = None
    while exc is not None and id(exc) not in seen:
        seen.add(id(exc))
        frames = [(os.path.abspath(f.f_code.co_filename) if not f.f_code.co_filename.startswith("<") else f.f_code.co_filename, ln)
                  for f, ln in pytb.walk_tb(exc.__traceback__)]
        chain.append((type(exc).__name__, frames, link))
        if exc.__cause__ is not None and exc.__cause__.__traceback__ is not None:
            exc, link = exc.__cause__, "cause"
        elif exc.__context__ is not None and exc.__context__.__traceback__ is not None and not exc.__suppress_context__:
            exc, link = exc.__context__, "context"
        else:
            exc = None
    chain.reverse()
    # after reversing, entry k's `link` says how entry k (older) hangs under entry k-1... re-express per older entry
    out = []
    for k, (name, frames, _l) in enumerate(chain):
        nxt = chain[k][2]  # link recorded when we stepped from the newer exception TO this one
        out.append((name, frames, nxt))
    return out


def eval_chain(out, exc):
    """Under each exception's panel: exactly the frames of that exception's own traceback, then `Type: message`, and between
    two panels the sentence that matches how the newer exception is linked to the older one."""
    want = exception_chain(exc)
    panels, cur, tails = [], None, []
    for r in out.split("\n"):
        if r.startswith("╭"):
            cur = []
        elif r.startswith("╰") and cur is not None:
            panels.append(cur)
            tails.append([])
            cur = None
        elif cur is not None:
            m = BORDER_RE.match(r)
            if m:
                h = HEADER_RE.match(m.group(1).rstrip(" "))
                if h:
                    cur.append((h.group(1), int(h.group(2))))
        elif panels and r.strip():
            tails[-1].append(r.strip())
    got = [(p, t) for p, t in zip(panels, tails)]
    if len(got) != len(want):
        return "%d exception panels shown, the chain has %d exceptions (%r)" % (len(got), len(want), [w[0] for w in want])
    for k, ((frames_shown, tail), (name, frames, link)) in enumerate(zip(got, want)):
        frames = [f for f in frames if not f[0].startswith("<")]
        if frames_shown != frames:
            return "under exception %d (%s) the frames %r are shown; its own traceback has %r" % (k + 1, name, frames_shown, frames)
        if not tail or not tail[0].startswith(name + ":"):
            return "after the panel of exception %d the line %r is shown, expected '%s: …'" % (k + 1, tail[:1], name)
        if k + 1 < len(want):
            phrase = "direct cause" if link == "cause" else "During handling"
            if not any(phrase in t for t in tail[1:]):
                return "between exception %d and %d the text %r does not say %r" % (k + 1, k + 2, tail[1:], phrase)
    return None


def strip_locals(srows):
    """Remove the `locals` panel of a frame (below the excerpt, or to its right when Columns finds room)."""
    for i, r in enumerate(srows):
        if "╭" in r and " locals " in r:
            col = cell_len(r[: r.index("╭")])
            if col == 0:
                return srows[:i]
            out = list(srows[:i])
            for r2 in srows[i:]:
                acc, k = 0, 0
                while k < len(r2) and acc < col:
                    acc += cell_len(r2[k])
                    k += 1
                cut = r2[:k].rstrip(" ")
                if cut:
                    out.append(cut)
            return out
    return srows


def syntax_error_cases(ctx, rng, root, rtb):
    """A SyntaxError stack has no frame in the offending file; rich shows `filename:lineno`, the offending line and a
    marker under the reported offset.  Checked: that line is the file's line `lineno` (right-stripped), the marker stands
    under character `offset` of it (Python's offset, 1-based), whatever the leading blank lines."""
    from rich.console import Console

    bad = ["b = (1 +", "   c = 2", "d = 1 +* 2", "e = 'あいう' +* 'x'", "f(\t1,, 2)", "if True print(1)", "x = [1, 2", "class :", "g = 1 $ 2"]
    for i in range(30 if ctx.quick else 300):
        lead = rng.choice([0, 0, 1, 2, 5, 9])
        pre = [rng.choice(["a = 1", "", "# c", "z = 'あ'"]) for _ in range(rng.choice([0, 1, 3, 8]))]
        line = rng.choice(bad)
        src = "\n" * lead + "\n".join(pre + [line] + ["k = 3"] * rng.choice([0, 1, 4])) + rng.choice(["\n", ""])
        path = os.path.join(root, "se_%d.py" % (i % 2))
        with open(path, "w", encoding="utf-8", newline="") as f:
            f.write(src)
        info = compile_only(path, src)
        if info is None:
            continue
        exc = info[1]
        tb = rtb.Traceback.from_exception(*info, width=rng.choice([100, 140]), extra_lines=rng.choice([0, 3]))
        console = Console(file=io.StringIO(), width=200, color_system=None, force_terminal=False, legacy_windows=False)
        inp = {"source": src, "path": path, "lineno": exc.lineno, "offset": exc.offset, "text": exc.text}
        try:
            console.print(tb)
        except Exception as e:
            ctx.check(False, "Traceback(syntax error)", inp, "printing the traceback raised %s: %s" % (type(e).__name__, e))
            continue
        rows = [m.group(1).rstrip(" ") for m in (BORDER_RE.match(r) for r in ANSI_RE.sub("", console.file.getvalue()).split("\n")) if m]
        ctx.note("tb:syntax-error")
        file_line = read_now(path).split("\n")[exc.lineno - 1] if exc.lineno and exc.lineno <= len(read_now(path).split("\n")) else None
        head = " %s:%d" % (path, exc.lineno or 0)
        why = None
        if head not in rows:
            why = "no `filename:lineno` row %r" % head
        else:
            k = rows.index(head)
            shown = rows[k + 1] if k + 1 < len(rows) else ""
            marker = rows[k + 2] if k + 2 < len(rows) else ""
            text = (exc.text or "").rstrip()
            off = min((exc.offset or 0) - 1, len(text))
            if "\t" in text or any(cell_len(ch) != 1 for ch in text[: max(off, 0)]):
                ctx.note("tb:syntax-error-marker-column-differs-from-cell-column")  # tabs are expanded / wide characters take two cells: the marker counts characters
            if file_line is not None and exc.text is not None and exc.text.rstrip("\n") == file_line and shown != file_line.rstrip().expandtabs(8):
                why = "the offending line is shown as %r, line %d of the file (tabs expanded) is %r" % (shown, exc.lineno, file_line.expandtabs(8))
            elif shown != text.expandtabs(8):
                why = "the offending line is shown as %r, the exception carries %r" % (shown, text)
            elif marker != " " * max(off, 0) + "▲":
                why = "the offset marker row is %r, offset %r of %r asks for column %d" % (marker, exc.offset, text, off)
            ctx.case("tb_syntax_error", [enc_str(text), (exc.offset or 0)], enc_str_list([shown, marker]), shape="lead%d" % min(lead, 3),
                     sample="syntax error %r offset %r" % (text, exc.offset))
        ctx.check(why is None, "Traceback(syntax error)", inp, why or "")
    ctx.flush()


def eval_traceback(out, frames, extra, ww, ig, src, path):
    """Every frame of a readable file: exactly one marked row, under the frame's line number, showing that line."""
    rows = []
    for r in out.split("\n"):
        m = BORDER_RE.match(r)
        if m:
            rows.append(m.group(1).rstrip(" "))
    # split into blocks at frame headers
    blocks = []
    for r in rows:
        m = HEADER_RE.match(r) or ANY_HEADER_RE.match(r)
        if m:
            blocks.append([m.group(1), int(m.group(2)), m.group(3), []])
        elif blocks and r != "":
            blocks[-1][3].append(r)
    blocks = [b for b in blocks if not b[0].startswith("<")]  # frames without a file: header only (and locals), outside the statement
    want = [(fr.filename, fr.lineno) for fr in frames if not fr.filename.startswith("<")]
    if [(b[0], b[1]) for b in blocks] != want:
        return "frame headers %r differ from the traceback's frames %r" % ([(b[0], b[1]) for b in blocks], want), None
    for filename, lineno, _name, srows in blocks:
        srows = strip_locals(srows)
        linecache.checkcache(filename)
        lines = linecache.getlines(filename)
        try:
            now = read_now(filename).split("\n")
            if now and now[-1] == "":
                now.pop()
            now = [l + "\n" for l in now]
        except OSError:
            # unreadable file: out of the statement's scope, but nothing may be presented as its source
            if any(ROW_RE_STRIPPED.match(r) for r in srows):
                return "frame %s:%d has no readable file, yet numbered source rows are shown: %r" % (filename, lineno, srows[:3]), None
            continue
        if [l.rstrip("\n") for l in lines] != [l.rstrip("\n") for l in now]:
            lines = now  # linecache did not notice a rewrite (same size and time stamp): the file itself is the reference
        if lines and lineno <= len(lines) and srows and not any(ROW_RE_STRIPPED.match(r) for r in srows) and any("no lexer for filename" in r for r in srows):
            # the file is readable, the frame's line exists, and rich shows an error row instead of the excerpt
            return ("frame %s:%d: the file is readable and has %d lines, but %r is shown instead of its source line"
                    % (filename, lineno, len(lines), srows[:2]), "traceback-unknown-extension-shows-no-source" if GUESS_RAISES else None)
        if not lines or lineno > len(lines):
            # the frame's line does not exist (any more): no row may be marked, and what is shown must be the file
            parsed, _w = parse_numbered(srows, row_re=ROW_RE_STRIPPED) if srows else ([], None)
            if parsed is None:
                return "the excerpt of %s:%d (file shorter than the frame's line) has a malformed row" % (filename, lineno), None
            P0 = [l.rstrip("\n").expandtabs(4) for l in lines] or [""]  # an empty file is shown as one empty line (as Syntax("") is)
            for num, _m, bodies in parsed:
                if num > len(P0):
                    # with indent guides an empty selection is shown as one blank row (the range defect's second face);
                    # under extra_lines=0 that row even carries the failing-line marker
                    slug = "traceback-empty-selection-shows-row" if RANGE_POP and ig and len(parsed) == 1 and all(set(b) <= {" "} for b in bodies) else None
                    return "a row (marked: %s) is shown under number %d, the file has only %d lines" % (_m, num, len(P0)), slug
            if any(p[1] and not (p[0] == lineno <= len(P0)) for p in parsed):
                return "a row is marked as failing line %d but the file has only %d lines" % (lineno, len(lines)), None
            for num, _m, bodies in parsed:
                b0 = unguide(bodies[0], P0[num - 1]) if ig else bodies[0]
                if cell_len(P0[num - 1]) <= 88 and not (ig and blank(P0[num - 1])) and b0.rstrip(" ") != P0[num - 1].rstrip(" "):
                    return "context row %d shows %r, the file has %r" % (num, bodies, P0[num - 1]), None
            continue
        P = [l.rstrip("\n").expandtabs(4) for l in lines]
        c = Case(code="".join(lines), line_numbers=True, start_line=1, line_range=(lineno - extra, lineno + extra), highlight=(lineno,),
                 code_width=88, tab_size=4, word_wrap=ww, indent_guides=ig, theme="ansi_dark")
        parsed, _w = parse_numbered(srows, row_re=ROW_RE_STRIPPED)
        marked = [p for p in (parsed or []) if p[1]]
        why = None
        if parsed is None:
            why = "the code excerpt of %s:%d has a row that is neither numbered nor a continuation" % (filename, lineno)
        elif len(marked) != 1:
            why = "%d rows carry the failing-line marker for frame %s:%d" % (len(marked), filename, lineno)
        elif marked[0][0] != lineno:
            why = "the marker is on number %d, the frame is at line %d" % (marked[0][0], lineno)
        else:
            # rows were right-stripped with the panel; compare with padding off
            c2 = Case(**{**c.as_dict(), "theme": "ansi_dark"})
            bodies = marked[0][2]
            want_line = P[lineno - 1]
            shown = [unguide(bodies[0], want_line)] + bodies[1:] if ig else bodies
            if cell_len(want_line) <= 88:
                ok = len(shown) == 1 and shown[0].rstrip(" ") == want_line.rstrip(" ")
            elif not ww:
                ok = len(shown) == 1 and want_line.startswith(shown[0].rstrip(" ")) and cell_len(shown[0]) >= 86
            else:
                ok = "".join("".join(b.split()) for b in shown) == "".join(want_line.split())
            if not ok:
                why = "the marked row under number %d shows %r, line %d of the file is %r" % (lineno, bodies, lineno, want_line)
            else:
                why = eval_numbered_stripped(parsed, P, c2)
        if why:
            finding = None
            text = "".join(lines)
            if STRIPNL and filename == path and (text.startswith("\n")):
                finding = "traceback-stripnl-shifts-failing-line"
            if finding is None and RANGE_POP and isinstance(why, Why):
                finding = why.slug
            return str(why), finding
    return None, None


def eval_numbered_stripped(parsed, P, c):
    """The context rows of a frame (right-stripped by the panel parse): numbers consecutive from the clipped range
    start, each row showing its own line."""
    want = expected_selection(P, 1, c.line_range)
    if len(parsed) > len(want):
        return "%d numbered rows shown, the range has only %d lines" % (len(parsed), len(want))
    guides = c.indent_guides
    for (num, _marked, bodies), (wnum, wline) in zip(parsed, want):
        if num != wnum:
            return "context row shows number %d where line %d is due" % (num, wnum)
        if guides and blank(wline):
            if not all(set(b) <= {" ", GUIDE} for b in bodies):
                return "blank context line %d shows text" % num
            continue
        b0 = unguide(bodies[0], wline) if guides else bodies[0]
        if cell_len(wline) <= 88 and not (len(bodies) == 1 and b0.rstrip(" ") == wline.rstrip(" ")):
            return "context row %d shows %r, the file has %r" % (num, bodies, wline)
    missing = want[len(parsed):]
    if any(not blank(l) for _, l in missing):
        return "a non-blank line of the range is not shown"
    if missing and any(not blank(l) for l in P[missing[0][0] - 1:]):
        return why_slug("blank line %d ends the excerpt but not the file, and is not shown" % missing[0][0], "traceback-range-drops-trailing-blank-line")
    return None


# --------------------------------------------------------------------------------------------- exception chains, stacks (deepening 4)
CHAIN_NAMES = ["ErrA", "ErrB", "ErrC", "ErrD", "ErrFalsy", "SyntaxError"]
ANY_HEADER_RE = re.compile(r"^(/\S*|<[^>]*>):(\d+) in (\S+)\s*$")
EXC_LINE_RE = re.compile(r"^(\w+): ")


def _chain_classes():
    classes = {n: type(n, (Exception,), {}) for n in CHAIN_NAMES[:4]}
    classes["ErrFalsy"] = type("ErrFalsy", (Exception,), {"__len__": lambda self: 0})  # bool(exc) is False
    classes["SyntaxError"] = SyntaxError
    return classes


def _thrower_sources():
    """Three small modules whose `go(exc, depth)` raises `exc` through depth + 1 frames, at different line numbers."""
    out = []
    for lead, pad in ((0, 0), (2, 1), (5, 3)):
        out.append("\n" * lead + "def go(exc, depth):\n" + "    # filler\n" * pad + "    if depth:\n        return go(exc, depth - 1)\n" + "\n" * pad + "    raise exc\n")
    return out


def enc_exc_tree(e, name_of, file_id, depth=0):
    """The exception object as `Traceback.extract` can see it, in the driver's prefix form."""
    import traceback as pytb

    if e is None:
        return "-"
    if depth > 8:
        raise RuntimeError("exception chain too deep for the encoder")
    frames = ";".join("%d,%d" % (file_id(f.f_code.co_filename), ln) for f, ln in pytb.walk_tb(e.__traceback__)) or "."
    return "N %d %d %d %d %d %s %s %s" % (name_of(e), int(bool(e)), int(e.__traceback__ is not None), int(bool(e.__suppress_context__)),
                                          int(isinstance(e, SyntaxError)), frames,
                                          enc_exc_tree(e.__cause__, name_of, file_id, depth + 1), enc_exc_tree(e.__context__, name_of, file_id, depth + 1))


def stdlib_chain(e):
    """OLDEST first [(exception, how the NEXT NEWER one is linked to it)], by the standard library's own rule
    (traceback.TracebackException: __cause__ when it is not None, else __context__ unless __suppress_context__);
    also whether every designated exception is truthy and was raised (has a traceback)."""
    chain, usable, link, seen = [], True, None, set()
    while e is not None and id(e) not in seen:
        seen.add(id(e))
        chain.append((e, link))
        if e.__cause__ is not None:
            e, link = e.__cause__, "cause"
        elif e.__context__ is not None and not e.__suppress_context__:
            e, link = e.__context__, "context"
        else:
            break
        if not e or e.__traceback__ is None:
            usable = False
    chain.reverse()
    return chain, usable


def parse_items(out, file_id):
    """The printed traceback as the list of things `Traceback.__rich_console__` yields (driver's encoding)."""
    items, cur, kind = [], None, None
    for r in out.split("\n"):
        if r.startswith("╭"):
            kind = "P" if "Traceback" in r and "most recent call last" in r else "S"
            cur = []
        elif r.startswith("╰") and cur is not None:
            items.append("P " + ";".join("%d,%d" % f for f in cur) if kind == "P" else "S")
            cur = None
        elif cur is not None:
            m = BORDER_RE.match(r)
            h = ANY_HEADER_RE.match(m.group(1).rstrip(" ")) if m else None
            if h and kind == "P":
                cur.append((file_id(h.group(1)), int(h.group(2))))
        elif "direct cause of the following exception" in r:
            items.append("L 1")
        elif "During handling of the above exception" in r:
            items.append("L 0")
        else:
            m = EXC_LINE_RE.match(r)
            if m and m.group(1) in CHAIN_NAMES:
                items.append("E %d %d" % (CHAIN_NAMES.index(m.group(1)), int(bool(items) and items[-1] == "S")))
    return items


def chain_cases(ctx, rng):
    """`Traceback.extract` and the order / link sentences of `Traceback.__rich_console__` on exception objects built here:
    every link configuration two levels deep (cause x context x suppress, each linked exception raised / never raised /
    falsy), then seeded random trees up to five levels with mixed links, shared objects, SyntaxErrors, unraised roots."""
    import rich.traceback as rtb
    from rich.console import Console

    root = os.path.join(TB_ROOT, "chain_%d_%d" % (os.getpid(), ctx.seed))
    shutil.rmtree(root, ignore_errors=True)
    os.makedirs(root)
    classes = _chain_classes()
    paths, gos = [], []
    for i, src in enumerate(_thrower_sources()):
        pth = os.path.join(root, "thrower%d.py" % i)
        with open(pth, "w", encoding="utf-8") as f:
            f.write(src)
        ns = {}
        exec(compile(src, pth, "exec"), ns)
        paths.append(pth)
        gos.append(ns["go"])
    exec_path = os.path.abspath(sys.modules[throw.__module__].__file__)
    files = paths + [exec_path]

    def file_id(name):
        name = os.path.abspath(name) if not name.startswith("<") else name
        if name not in files:
            files.append(name)
        return files.index(name)

    def name_of(e):
        return CHAIN_NAMES.index(type(e).__name__)

    counter = [0]

    def make(kind):
        """kind: 'raised' | 'unraised' | 'falsy' | 'syntax' -> a new exception object"""
        counter[0] += 1
        if kind == "falsy":
            e = classes["ErrFalsy"]("falsy %d" % counter[0])
        elif kind == "syntax":
            e = SyntaxError("bad thing %d" % counter[0], (paths[0], 1, 2, "def go(exc, depth):\n"))
        else:
            e = classes[rng.choice(CHAIN_NAMES[:4])]("msg %d" % counter[0])
        if kind != "unraised":
            e = throw(gos[counter[0] % 3], e, counter[0] % 3)
        return e

    def link(e, cause, context, suppress):
        if cause is not None:
            e.__cause__ = cause
        e.__context__ = context
        e.__suppress_context__ = suppress
        return e

    def judge(e, label, render):
        inp = {"label": label, "tree": enc_exc_tree(e, name_of, file_id)}
        ctx.note("chain:" + label.split(" ")[0])
        try:
            trace = rtb.Traceback.extract(type(e), e, e.__traceback__)
        except BaseException as err:
            ctx.check(False, "Traceback.extract", inp, "extract raised %s: %s" % (type(err).__name__, err))
            return
        got = "|".join("%d:%d:%d:%s" % (CHAIN_NAMES.index(st.exc_type) if st.exc_type in CHAIN_NAMES else 99, int(st.is_cause), int(st.syntax_error is not None),
                                         ";".join("%d,%d" % (file_id(fr.filename), fr.lineno) for fr in st.frames)) for st in trace.stacks)
        ctx.case("tb_extract", [inp["tree"]], got, shape="stacks%d" % min(len(trace.stacks), 5), sample="extract " + label)
        # direct evaluation, oracle = the standard library's chaining rule and walk_tb on the exception objects themselves
        import traceback as pytb
        chain, usable = stdlib_chain(e)
        ctx.note("chain:length=%d" % len(chain))
        if not usable:
            ctx.note("chain:skipped-designated-exception-never-raised-or-falsy")  # rich leaves those out; outside AllUsable
        else:
            shown = list(reversed(trace.stacks))
            why = None
            if [st.exc_type for st in shown] != [type(x).__name__ for x, _ in chain]:
                why = "stacks (oldest first) are %r, the chain is %r" % ([st.exc_type for st in shown], [type(x).__name__ for x, _ in chain])
            else:
                for k, (st, (x, lk)) in enumerate(zip(shown, chain)):
                    own = [(os.path.abspath(f.f_code.co_filename), ln) for f, ln in pytb.walk_tb(x.__traceback__)]
                    if [(fr.filename, fr.lineno) for fr in st.frames] != own:
                        why = "stack %d (%s) holds frames %r, the exception's own traceback has %r" % (k, st.exc_type, [(fr.filename, fr.lineno) for fr in st.frames], own)
                        break
                    if k + 1 < len(chain) and st.is_cause != (lk == "cause"):
                        why = "stack %d (%s) has is_cause=%r, the next newer exception reaches it through __%s__" % (k, st.exc_type, st.is_cause, lk)
                        break
            ctx.check(why is None, "Traceback.extract", inp, why or "")
        if not render:
            return
        console = Console(file=io.StringIO(), width=160, color_system=None, force_terminal=False, legacy_windows=False)
        try:
            console.print(rtb.Traceback(trace, width=150, extra_lines=rng.choice([0, 1, 3])))
            out = ANSI_RE.sub("", console.file.getvalue())
        except BaseException as err:
            ctx.check(False, "Traceback(exception chain order)", inp, "printing raised %s: %s" % (type(err).__name__, err))
            return
        items = parse_items(out, file_id)
        ctx.case("tb_items", [inp["tree"]], "|".join(items), shape="items%d" % min(len(items), 9), sample="printed " + label)
        if usable:
            want = []
            for k, (x, lk) in enumerate(chain):
                own = [(file_id(f.f_code.co_filename), ln) for f, ln in pytb.walk_tb(x.__traceback__)]
                if own:
                    want.append("P " + ";".join("%d,%d" % f for f in own))
                syn = isinstance(x, SyntaxError)
                if syn:
                    want.append("S")
                want.append("E %d %d" % (name_of(x), int(syn)))
                if k + 1 < len(chain):
                    want.append("L %d" % int(lk == "cause"))
            ctx.check(items == want, "Traceback(exception chain order)", inp,
                      "" if items == want else "printed %r, the chain (oldest first, own frames, matching sentence) is %r" % (items, want))

    try:
        # ---- bounded-exhaustive: root config x config of the exception the walk goes to
        kinds = [None, "raised", "unraised", "falsy"]
        configs = [(ck, xk, sp, same) for ck in kinds for xk in kinds for sp in (False, True) for same in (False, True)
                   if not (same and (ck is None or ck != xk))]
        n = 0
        for c1 in configs:
            for c2 in (configs if not ctx.quick else configs[:: 3] + [configs[-1]]):
                def build(cfg, child_cfg):
                    ck, xk, sp, same = cfg
                    cause = make(ck) if ck else None
                    context = cause if same else (make(xk) if xk else None)
                    for child in {id(x): x for x in (cause, context) if x is not None}.values():
                        if child_cfg is not None:
                            k2, x2, s2, same2 = child_cfg
                            c2_ = make(k2) if k2 else None
                            x2_ = c2_ if same2 else (make(x2) if x2 else None)
                            link(child, c2_, x2_, s2)
                    return link(make("raised"), cause, context, sp)
                e = build(c1, c2)
                n += 1
                judge(e, "exhaustive %r/%r" % (c1, c2), render=(n % (18 if ctx.quick else 2) == 0))
        ctx.note("chain:exhaustive-roots", n)
        # ---- seeded random trees
        def rand_tree(depth):
            kind = rng.choice(["raised"] * 6 + ["syntax", "falsy", "unraised"])
            e = make(kind)
            if depth <= 0:
                return e
            r = rng.random()
            cause = rand_tree(depth - 1) if r < 0.45 else None
            context = cause if (cause is not None and rng.random() < 0.5) else (rand_tree(depth - 1) if rng.random() < 0.6 else None)
            return link(e, cause, context, rng.random() < (0.7 if cause is not None else 0.25))
        for i in range(90 if ctx.quick else 3000):
            e = rand_tree(rng.choice([1, 2, 3, 3, 4]))
            if rng.random() < 0.1:
                e.__traceback__ = None  # a root that was never raised: Traceback.extract(type, value, None)
            judge(e, "random %d" % i, render=(i % 3 == 0 or not ctx.quick))
        ctx.flush()
    finally:
        shutil.rmtree(root, ignore_errors=True)
        try:
            os.rmdir(TB_ROOT)
        except OSError:
            pass


STACK_FILE_NAMES = ["a.py", "b.py", "script", "tool.zzq", "notes.txt", "data.json", "mod.pyx", "Makefile", "run.sh", "x.unknownext", "<string>", "<frozen importlib>", "gone.py", "gone"]


def stack_cases(ctx, rng):
    """`Traceback._render_stack` on stacks built with the public dataclasses (Trace / Stack / Frame): file names with `.py`,
    with other known extensions, without extension, with an extension no lexer claims, `<…>` names, files that do not exist;
    the same file several times in one stack.  Correspondence `tb_stack` (what is yielded per frame), and the traceback clause
    on the printed panel: every frame of a readable file shows its line, marked."""
    import rich.traceback as rtb
    from pygments.lexers import find_lexer_class_for_filename
    from rich.console import Console

    root = os.path.join(TB_ROOT, "stack_%d_%d" % (os.getpid(), ctx.seed))
    shutil.rmtree(root, ignore_errors=True)
    os.makedirs(root)
    recorded = []
    RealSyntax = rtb.Syntax

    class RecordingSyntax(RealSyntax):
        def __init__(self, *a, **k):
            super().__init__(*a, **k)
            recorded.append(self)

    rtb.Syntax = RecordingSyntax
    try:
        n_rounds = 40 if ctx.quick else 1500
        for i in range(n_rounds):
            # the file system of this round
            names = rng.sample(STACK_FILE_NAMES, rng.choice([1, 2, 3, 4, 6]))
            if i < len(STACK_FILE_NAMES):
                names = [STACK_FILE_NAMES[i]] + [x for x in names if x != STACK_FILE_NAMES[i]]  # every name leads a stack once
            full, contents = [], []
            for nm in names:
                if nm.startswith("<"):
                    full.append(nm)
                    contents.append(None)
                    continue
                pth = os.path.join(root, nm)
                full.append(pth)
                if nm.startswith("gone"):
                    if os.path.exists(pth):
                        os.remove(pth)
                    contents.append(None)
                    continue
                lines = ["\n" * 0 + rng.choice(["x = %d" % k, "    y = f(%d)" % k, "def g%d():" % k, "\tz = 'あ'", "# c %d" % k, "v = [1, 2, %d]" % k]) for k in range(rng.choice([1, 2, 5, 12]))]
                text = "\n" * rng.choice([0, 0, 1, 3]) + "\n".join(lines) + rng.choice(["\n", ""])
                with open(pth, "w", encoding="utf-8", newline="") as f:
                    f.write(text)
                contents.append(text)
            frames = []
            for _ in range(rng.choice([1, 2, 3, 5])):
                k = 0 if not frames and i < len(STACK_FILE_NAMES) else rng.randrange(len(names))
                if contents[k] is None:
                    ln = rng.randint(1, 9)
                else:
                    src_lines = contents[k].split("\n")
                    cand = [j + 1 for j, l in enumerate(src_lines) if l.strip()]
                    ln = rng.choice(cand)
                frames.append(rtb.Frame(filename=full[k], lineno=ln, name="fn%d" % len(frames)))
            extra = rng.choice([0, 1, 3, 3])
            ig = rng.random() < 0.5
            stack = rtb.Stack(exc_type="ErrA", exc_value="boom", frames=frames)
            tb = rtb.Traceback(rtb.Trace(stacks=[stack]), width=150, extra_lines=extra, indent_guides=ig)
            console = Console(file=io.StringIO(), width=160, color_system=None, force_terminal=False, legacy_windows=False)
            inp = {"files": dict(zip(full, contents)), "frames": [(fr.filename, fr.lineno) for fr in frames], "extra_lines": extra, "indent_guides": ig}
            del recorded[:]
            linecache.clearcache()
            try:
                console.print(tb)
                out = ANSI_RE.sub("", console.file.getvalue())
            except BaseException as err:
                ctx.check(False, "Traceback._render_stack(frames)", inp, "printing raised %s: %s" % (type(err).__name__, err))
                continue
            for nm in names:
                ctx.note("stack:file=" + (nm if nm.startswith("<") else os.path.splitext(nm)[1] or "no-extension"))
            # ---- what was yielded, read back from the panel
            rows = [m.group(1).rstrip(" ") for m in (BORDER_RE.match(r) for r in out.split("\n")) if m]
            items, k, syn_k = [], 0, 0
            while k < len(rows):
                r = rows[k]
                h = ANY_HEADER_RE.match(r)
                if h and h.group(1) in full:
                    items.append("H %d %s" % (full.index(h.group(1)), h.group(2)))
                    k += 1
                elif r == "":
                    nxt = rows[k + 1] if k + 1 < len(rows) else None
                    if nxt is not None and nxt != "" and not ROW_RE_STRIPPED.match(nxt) and not (ANY_HEADER_RE.match(nxt) and ANY_HEADER_RE.match(nxt).group(1) in full):
                        items.append("E")  # "\n{error}": a blank row and the message (which may wrap)
                        k += 1
                        while k < len(rows) and rows[k] != "" and not ROW_RE_STRIPPED.match(rows[k]) and not (ANY_HEADER_RE.match(rows[k]) and ANY_HEADER_RE.match(rows[k]).group(1) in full):
                            k += 1
                    else:
                        items.append("B")
                        k += 1
                elif ROW_RE_STRIPPED.match(r):
                    syn = recorded[syn_k] if syn_k < len(recorded) else None
                    syn_k += 1
                    if syn is None:
                        items.append("X ? ? ?")
                    else:
                        items.append("X %d %d %s" % (min(syn.highlight_lines) if syn.highlight_lines else 0, int(syn.lexer_name != "text"), enc_str(syn.code)))
                    while k < len(rows) and rows[k] != "" and not (ANY_HEADER_RE.match(rows[k]) and ANY_HEADER_RE.match(rows[k]).group(1) in full):
                        k += 1
                else:
                    items.append("?" + r[:20])
                    k += 1
            known = []
            for nm in names:
                ext = os.path.splitext(nm)[-1]
                known.append(int(bool(rtb.Traceback.LEXERS.get(ext)) or find_lexer_class_for_filename(nm) is not None))
            if all(c is None or representable(c) for c in contents):
                ctx.case("tb_stack", [GUESS_RAISES, " ".join(str(int(nm.startswith("<"))) for nm in names), " ".join(map(str, known)),
                                      " ".join(str(int(c is not None)) for c in contents), enc_str_list([c or "" for c in contents]),
                                      ";".join("%d,%d" % (full.index(fr.filename), fr.lineno) for fr in frames)],
                         "|".join(items), shape="frames%d" % len(frames), sample="_render_stack %r" % [(os.path.basename(fr.filename), fr.lineno) for fr in frames])
            # ---- the traceback clause on the printed panel (files read at this moment)
            why, finding = eval_traceback(out, frames, extra, False, ig, "", "")
            ctx.check(why is None, "Traceback._render_stack(frames)", inp, why or "", finding=finding)
            # every frame, special or not, has its header, in call order
            heads = [(h.group(1), int(h.group(2))) for h in (ANY_HEADER_RE.match(r) for r in rows) if h and h.group(1) in full]
            ctx.check(heads == [(fr.filename, fr.lineno) for fr in frames], "Traceback._render_stack(frames)", inp,
                      "frame headers %r, the stack's frames are %r" % (heads, [(fr.filename, fr.lineno) for fr in frames]))
        ctx.flush()
    finally:
        rtb.Syntax = RealSyntax
        shutil.rmtree(root, ignore_errors=True)
        try:
            os.rmdir(TB_ROOT)
        except OSError:
            pass


# --------------------------------------------------------------------------------------------- entry
def run(ctx):
    rng = ctx.rng
    ctx.assumptions += [
        "the Pygments lexer is a parameter of the model; contract: concatenated token texts = Pygments' documented preprocessing "
        "(BOM removal, \\r\\n and \\r -> \\n, stripnl, ensurenl) of the tab-expanded code; evaluated on every case",
        "styles/themes never change characters: the row model has no styles (token style ids are modelled up to Syntax.highlight, see the last item); `pad` (= background not transparent) is computed from the theme name",
        "cell widths come from C13's model (generated table); word-wrapped lines are folded by C02/C05's Text.wrap model (imported read-only, "
        "its variant flags taken from props.c02); `unmodelled` is left only for a line cropped through a zero-width character whose spans "
        "were shifted by control-character stripping, or at code_width < 0",
        "the statement is evaluated on shown texts without BS/VT/FF/CR and without a byte-order mark; tab_size >= 1 when indent guides are on; "
        "start_line >= 0; textwrap.dedent is taken as given (its result is handed to the model)",
        "styles are opaque ids in the model (up to Syntax.highlight); on rendered segments they are judged against Style.combine of the base "
        "style, the theme's style of the token the character came from and the background override",
    ]
    helper_correspondence(ctx, rng)
    fit_correspondence(ctx, rng)
    syntax_cases(ctx, rng)
    from_path_cases(ctx, rng)
    lib_syntax_measure.run(ctx, 0.4 if ctx.quick else 4.0)  # C09's clause for Syntax + the correspondence of __rich_measure__ with measureV
    history_cases(ctx, rng)
    traceback_cases(ctx, rng)
    chain_cases(ctx, rng)
    stack_cases(ctx, rng)
    ctx.rule = (
        "helpers: every string <= 5/6 over small alphabets (expandtabs, preprocessing, split, remove_suffix, highlight x all ranges, "
        "indent guides on line lists, slices); rendering: every source <= %d over %r x {python, unknown lexer} x 10 range shapes "
        "(none, whole, shifted, last line, just past the end, beyond, straddling the start, all but the last line, (2,2), (1,2)) + un-numbered + indent-guide variants; "
        "seeded random sources from per-lexer line pools (leading/trailing/interior blank lines, tabs, wide and zero-width characters, "
        "CRLF, BOM, control characters, no final newline, empty) x 5 lexers x line_numbers x start_line (digit boundaries) x 8 range shapes x "
        "highlight_lines x word_wrap x code_width x tab_size x indent_guides x themes x background x widths x no_wrap/legacy/ascii; gutter series; "
        "generated raising modules (5 shapes x leading blank lines x extra_lines x word_wrap x indent_guides x themes) through Traceback, first on "
        "fresh paths, then as a HISTORY in one process over the same 3 paths rewritten between renders (single module / main+lib pair / chained "
        "exception; different leading blank lines, failing line, length), every render compared with the files read at that moment; "
        "every random Syntax case re-rendered later in shuffled order, fresh and through one reused Syntax object; "
        "10 range shapes incl. ranges ENDING on interior blank lines; every non-ASCII/control whitespace at a line start; zero-width characters at "
        "the crop edge x widths 1..4 x lexers x guides; dedent; Console.print and __rich_measure__ on a quarter of the cases, token styles on a third; "
        "tracebacks with show_locals, files gone/emptied/shortened under the traceback, chained exceptions, SyntaxError stacks; "
        "distinct = distinct canonical requests" % (4 if ctx.quick else 5, ALPHA)
    )


def replay(ctx, case):
    """Re-run one recorded failing input on the real code."""
    inp = case.get("input")
    site = case.get("site")
    print("site:", site)
    print("what:", case.get("what"))
    if site == "Syntax.__rich_console__" and isinstance(inp, dict):
        inp = dict(inp)
        if inp.get("line_range") is not None:
            inp["line_range"] = tuple(inp["line_range"])
        inp["highlight"] = tuple(inp.get("highlight") or ())
        c = Case(**inp)
        toks = tokens_for(c.lexer, c.shown.expandtabs(c.tab_size))
        res = render_rows(c.syntax(), c)
        print("rendered:", res)
        evaluate(ctx, c, res, toks)
        return not ctx.failures
    print("input:", inp)
    print("re-run `./check C17` to re-evaluate (the generators are seeded: VERIF_SEED=%s)" % case.get("seed"))
    return False


MANIFEST = {
    "text": "Lean 4 theorems (Props/C17.lean; no bound on source length, number of lines, widths, ranges, token streams or histories) about an "
    "executable model of Syntax.highlight / Syntax.__rich_console__ / __rich_measure__ / Text.remove_suffix+split / with_indent_guides, of the "
    "options and the per-call file cache of Traceback._render_stack and of _render_syntax_error, for an ARBITRARY lexer meeting the contract "
    "`tokens concatenate to Pygments' preprocessing of the code`: highlighting_keeps_characters; highlight_styles_follow_tokens (every character "
    "carries the style id of the token it came from, lines before a range start unstyled); range_selects_clipped (with a range the rows are "
    "EXACTLY source lines a..b clipped to the lines that exist, blank lines that end the range included, numbered from start_line+max(0,a-1)); "
    "lines_are_source_lines (numbered, without a range: all source lines, at most ONE empty line at the very end of the source missing) / "
    "plain_lines_are_source_lines (un-numbered, without a range: exactly the source lines); rows_are_numbered_selection; numbers_are_line_numbers; gutter_wide_enough; fitted_line_is_line; "
    "measure_maximum_sound / measure_maximum_sound_auto / measure_maximum_fits_without_numbers / measure_minimum_le_maximum (the C09 clause "
    "for Syntax, repaired variant of __rich_measure__: rows take at most the reported maximum, exactly it on a padded background; re-exported "
    "in Props/C09.lean) + old_measure_maximum_one_short_with_numbers (as found: one cell short with line numbers and an explicit code_width); guides_only_overdraw_indent (as many lines out as in); "
    "traceback_marks_failing_line (exactly one marked row, numbered lineno, showing line lineno, for every extra_lines / leading blank lines / "
    "file length / indent guides); render_history_independent + stack_cache_transparent (what a traceback shows depends only on the files as "
    "they are when it is rendered); render_pure / render_pure_rows (any number of renders of ONE Syntax object answer what a fresh one "
    "answers; witness cached_text_would_decay: a Text remembered on the instance and cropped in place loses a range-ending blank line from "
    "the second render on); deepening round 4 (Model/SyntaxTrace.lean, any number of exceptions / frames / rows): chain_is_shown_oldest_first (Traceback.extract + __rich_console__ "
    "on every finite exception tree whose designated older exceptions were raised: the chain by Python's own rule — __cause__, else __context__ unless "
    "__suppress_context__ — oldest first, each exception with its own frames, 'direct cause' exactly between an exception and its __cause__, 'during "
    "handling' for __context__), render_stack_frame_by_frame (_render_stack = per-frame contribution read straight from the file system: cache "
    "transparent, unreadable files not remembered, call order, blank separators), readable_frame_shows_marked_line (REPAIRED variant of "
    "_guess_lexer: every frame of a readable file, whatever its name, gets header + Syntax(file content now, range lineno±extra, highlight {lineno}) "
    "whose single marked row is numbered lineno and shows line lineno) + witness old_unknown_extension_shows_no_source (AS FOUND = /repo now); "
    "gutter_shows_pointer_and_number (gutter character by character: pointer iff highlighted, right-justified number, blank; numbers_column_width+1 long), "
    "folded_rows_have_blank_gutter / wordwrap_rows_numbered_once (word wrap: numbered gutter on the first row of a logical line, blank gutter on "
    "continuation rows, number advancing once per logical line; the second one on the render path renderW). Proved for the repaired variant; `old_*` witnesses (decide) for the defects. Tie: every run renders "
    "~37k real Syntax objects in the quick tier (5 lexers incl. unknown, every option axis incl. dedent, bounded-exhaustive sources <=4 over "
    "{a,space,newline,tab,wide} x 10 range shapes, every non-ASCII/control whitespace at line starts, zero-width characters at the crop edge) "
    "through a real Console and compares ALL rows character for character with the model fed the real Pygments token stream — word-wrapped "
    "lines folded row by row through C02's Text.wrap model, cropped lines segment by segment; token style ids of Syntax.highlight compared per "
    "character; helper functions compared exhaustively on small alphabets; Syntax.from_path; Console.print end to end; __rich_measure__; "
    "generated raising modules through Traceback (fresh paths; histories over rewritten paths; files gone / emptied / too short; show_locals; "
    "chained exceptions; SyntaxError stacks) checked against the files read at that moment; every case re-rendered later in shuffled order and "
    "through one reused Syntax object, and the SAME unchanged object rendered three times (ranges ending on blank lines included); under every "
    "exception header of a chained traceback exactly the frames of that exception's own __traceback__ (chain walked from the exception "
    "objects: explicit, implicit, three-level, suppressed) and the matching link sentence; NEW: tb_extract / tb_items (exception objects built in the harness: every "
    "link configuration two levels deep — cause x context in {none, raised, never raised, falsy} x suppress x same object, 532 roots — + ~90 random "
    "trees to five levels incl. SyntaxErrors and unraised roots; stacks compared with the model, ~60 printed and parsed back into panels / lines / link "
    "sentences; oracle = the standard library's chaining rule + walk_tb on the objects), tb_stack (60 stacks built from the public Trace/Stack/Frame "
    "dataclasses over file names with .py / other known / no / unknown extension, <…> names, missing files, repeated files), 8 raising modules at "
    "extension-less / odd-extension paths, and the gutter compared character by character on every numbered render; plus direct evaluation of the statement (characters AND styles) on rich's own output.",
    "note": "Round-4 finding traceback-unknown-extension-shows-no-source, FIXED in 52ad8fd (flag GUESS_RAISES = 0 = /repo now; "
    "pending_fixes/C17-traceback-unknown-extension-shows-no-source.diff is applied): Traceback._guess_lexer let Pygments' "
    "ClassNotFound escape, so a frame in a READABLE file whose name no lexer claims (script without extension, unknown extension) shows 'no lexer for "
    "filename … found' instead of its source line. Not claimed about the chain: an exception that was never raised (no __traceback__) or is falsy is "
    "left out by rich where Python's own traceback shows it (hypothesis AllUsable; ~430 generated trees counted, not judged); exception graphs are "
    "finite trees; names/messages/locals are not modelled. PARTIAL where stated: (1) the Pygments lexer and textwrap.dedent are parameters (contract checked per case, not proved); (2) theorems "
    "assume a clean shown text (no BS/VT/FF/CR, no BOM), range end >= 0, tab_size >= 1 with indent guides, start_line >= 0, and room to write a "
    "row under word wrap; (3) the folding of word-wrapped lines is C02's model/theorems (used here row by row, not re-proved); the 5-15 of "
    "~100k requests still answered `unmodelled` are lines cropped through a zero-width character whose spans were shifted by control-character "
    "stripping, or code_width < 0 with such a line; (4) rendered styles are checked by direct evaluation (token styles from the real lexer and "
    "theme), the model carries them only up to Syntax.highlight; (5) the one empty string a final newline leaves behind, and without a range one "
    "empty last line of the source, may be missing — the statement's 'blank lines at the very end aside'; (6) not part of C17's statement, "
    "judged by C09 (harness/lib_syntax_measure.py, slug syntax-measure-one-short), only counted here: __rich_measure__ reports a maximum one cell too small with line numbers + code_width (variant flag MEASURE_SHORT); observed only: the SyntaxError offset marker counts "
    "characters, not cells (tabs / wide characters shift it). Trusted: Lean kernel; propext/Classical.choice/Quot.sound; the harness; C13's "
    "cell-width model; C02/C05's Text.wrap model. Three genuine defects found, all fixed in /repo: stripnl=True drops leading blank lines "
    "(fix 92fb879), the bare next() past the end raises (fix 1d638e8), and a blank line that ends a line_range is lost / an empty selection under "
    "indent guides shows a (possibly marked) row (fix bc6c38f). Variant flags, all at the repaired value: STRIPNL = 0, SKIP_RAISES = 0, "
    "RANGE_POP = 0, and GUESS_RAISES = 0 (fixed in 52ad8fd, see the start of this note) (1 = rich 9.10.0 as found; the Text/Wrap model flags are taken from props.c02). Of the first three no finding is open: with "
    "those flags at 0 the check prints no KNOWN-FINDING line (the slugs syntax-stripnl-drops-blank-lines, syntax-range-start-beyond-end-raises, "
    "syntax-range-drops-trailing-blank-line, syntax-guides-empty-selection-shows-row and their traceback-* forms are attached only when a flag is 1).",
    "design_ref": "DESIGN.md section 7 (C17) and section 8 (F13)",
}
