"""C03 — the ANSI stream written means exactly what the styled segments say.

Correspondence: Lean model (Model/AnsiRender = Style._make_ansi_codes with its `_ansi` cache, Style.render,
Segment.remove_color, Console._render_buffer; Model/AnsiTerm = independent character-level tokenizer and SGR / OSC 8
interpreter) vs real rich,
on *histories*: several consoles with different colour systems / NO_COLOR / terminal flags writing segment lists
that share `Style` objects (the cache is state), interleaved with `copy()` / `update_link()` (which carry the
cache over) and direct `Style.render` calls.  Four views of every history are compared:
  c03_chars     characters written (link ids masked)                       model == real output
  c03_toks      tokens (term.py tokenizer on the real output)              model == tokenize(real)
  c03_cells     interpreter run                                            Lean interp(model) == Python interp(real)
  c03_expected  the specification `expectedCells`                          Lean spec == Python oracle
and two views that need no history:
  c03_tokenize  the Lean tokenizer (the one `tokenize_reads_back` is about) on every clean real stream and on
                synthetic SGR / OSC 8 streams                              Lean tokenize == term.py tokenize
  c03_interp    the two interpreters on arbitrary token streams            Lean interp == lib_c03.Interp
Direct evaluation (3d): the executable statement of the theorems on rich's own output — Python interp(tokenize(real))
== Python oracle's expected cells, terminal left in its default state, no ESC when colour is disabled, no colour
parameter under NO_COLOR, nothing of a control segment on a non-terminal.
"""
import contextlib
import io
import itertools
import os

import lib_c03 as A
import term
from core import enc_bool, enc_str

PROPERTY = "C03"

# CODE VARIANT FLAGS — the variant of the code the model is compared with (RVariant in Model/AnsiRender.lean,
# Cfg in Model/Color.lean).  Values match /repo as it is now: all three defects are repaired (1 = rich 9.10.0 as found).
# (For checking another checkout:  VERIF_REPO=<worktree> VERIF_C03_FLAGS=<3 digits> ./check C03  overrides them for one run.)
ANSI_CACHE_UNKEYED = 0    # 1: Style._make_ansi_codes returns self._ansi whatever colour system it was computed for (F7). 0: repaired (fix c9ec5a8).
STYLED_CONTROL_KEPT = 0   # 1: _render_buffer writes a *styled* control segment to a non-terminal (F27). 0: repaired (fix 23674a1).
STD_VIA_PALETTE = 0       # C18's flag: 0 = downgrade(STANDARD) keeps indices < 16 (fix 2cec9e1 is in /repo)

if os.environ.get("VERIF_C03_FLAGS"):
    _f = os.environ["VERIF_C03_FLAGS"].strip()
    assert len(_f) == 3 and set(_f) <= {"0", "1"}, "VERIF_C03_FLAGS must be three 0/1 digits"
    ANSI_CACHE_UNKEYED, STYLED_CONTROL_KEPT, STD_VIA_PALETTE = (int(c) for c in _f)
FLAGS = "%d%d%d" % (ANSI_CACHE_UNKEYED, STYLED_CONTROL_KEPT, STD_VIA_PALETTE)

SLUG_STALE = "ansi-codes-cached-for-another-colour-system"
SLUG_CTL = "styled-control-segment-written-to-non-terminal"

CS_NAMES = {0: None, 1: "standard", 2: "256", 3: "truecolor", 4: "windows"}
ATTR_CODES = {1, 2, 3, 4, 5, 6, 7, 8, 9, 21, 51, 52, 53}
WIDTH = 400


def unwrap(f):
    return getattr(f, "__wrapped__", f)


class SegsRenderable:
    """a renderable that yields exactly the given segments"""

    def __init__(self, segs):
        self.segs = segs

    def __rich_console__(self, console, options):
        yield from self.segs


class Tee:
    """passes the rendering of `inner` through unchanged and remembers the segments (the print model's input)"""

    def __init__(self, inner):
        self.inner = inner
        self.seen = []

    def __rich_console__(self, console, options):
        segs = list(console.render(self.inner, options))
        self.seen = [(sg.text, sg.style, bool(sg.is_control)) for sg in segs]
        yield from segs


class _Placeholder:
    """stands for a Style object allocated inside Segment.apply_style: it keeps the handles aligned with the model's heap"""

    def __bool__(self):
        return False


PLACEHOLDER = _Placeholder()
PLAIN_NONE = (0, ("d",), ("d",), None)


class TtyIO(io.StringIO):
    """a text file that says whether it is a terminal"""

    def __init__(self, tty):
        super().__init__()
        self._tty = tty

    def isatty(self):
        return self._tty


# how the colour system is named to `Console(color_system="auto")` through the environment (documented detection:
# COLORTERM=truecolor|24bit -> truecolor; TERM=<name>-256color -> 256; anything else on a terminal -> standard;
# TERM=dumb|unknown or not a terminal -> None)
AUTO_ENV = {
    3: [{"COLORTERM": "truecolor"}, {"COLORTERM": " 24BIT ", "TERM": "xterm"}, {"COLORTERM": "TrueColor", "TERM": "xterm-256color"}],
    2: [{"TERM": "xterm-256color"}, {"TERM": " SCREEN-256COLOR", "COLORTERM": "yes"}, {"TERM": "xterm-256color "}, {"TERM": "Tmux-256Color\t", "COLORTERM": "24"}],
    1: [{"TERM": "xterm"}, {"TERM": "xterm-16color"}, {}, {"TERM": "vt100", "COLORTERM": ""}, {"TERM": "rxvt-unicode-256color-x"}],
    0: [{"TERM": "dumb"}, {"TERM": "UNKNOWN", "COLORTERM": "truecolor"}],
}


class Consoles:
    """long-lived real Consoles, one per (configuration, construction route), shared between histories on purpose.
    route 0: every option given explicitly; route 1: the same configuration reached through the option handling
    of Console.__init__ — NO_COLOR from the environment, terminal-ness from file.isatty(), colour system "auto"."""

    def __init__(self):
        self.cache = {}

    def get(self, cfg, route=0):
        from rich.console import Console

        cs, nc, t, lw = cfg
        key = (cfg, route)
        c = self.cache.get(key)
        if c is None:
            if route == 0:
                c = Console(file=io.StringIO(), force_terminal=bool(t), color_system=CS_NAMES[cs], no_color=bool(nc), legacy_windows=bool(lw),
                            width=WIDTH, _environ={}, markup=False, emoji=False, highlight=False)
            else:
                env = {}
                color_system = CS_NAMES[cs]
                if t and cs in AUTO_ENV:
                    choices = AUTO_ENV[cs]
                    env.update(choices[(nc + 2 * lw + len(self.cache)) % len(choices)])
                    color_system = "auto"
                elif not t and cs == 0:
                    env.update({"COLORTERM": "truecolor", "TERM": "xterm-256color"})
                    color_system = "auto"
                if nc:
                    env["NO_COLOR"] = ""
                c = Console(file=TtyIO(bool(t)), force_terminal=None, color_system=color_system, no_color=None, legacy_windows=bool(lw),
                            width=WIDTH, _environ=env, markup=False, emoji=False, highlight=False)
            self.cache[key] = c
        c.file = io.StringIO() if route == 0 else TtyIO(bool(t))
        return c

    def drop(self, cfg, route=0):
        """after an exception a console may be left inside a buffer / capture context: never reuse it"""
        self.cache.pop((cfg, route), None)


class MutableConsole:
    """ONE real Console whose configuration inputs change between writes: the configuration in force for a write is
    the one the console has *at that moment* (target file and its isatty(), no_color, legacy_windows are re-read by
    rich on every write; only the colour system is fixed at construction).
    kind: "setter"  console.file = <new file> before each write
          "auto"    like setter, colour system detected once at construction (color_system="auto", environment + first target)
          "stdout"  Console(file=None) following sys.stdout, which is redirected (contextlib.redirect_stdout) per write
          "stderr"  Console(file=None, stderr=True) following a redirected sys.stderr"""

    def __init__(self, cs, kind, t0, serial=0):
        from rich.console import Console

        self.cs, self.kind = cs, kind
        kw = dict(force_terminal=None, legacy_windows=False, width=WIDTH, markup=False, emoji=False, highlight=False)
        if kind == "auto":
            assert cs != 4
            if cs == 0:
                t0, env = 0, {"TERM": "xterm-256color", "COLORTERM": "truecolor"}   # not a terminal at construction: colour off for good
            else:
                t0, env = 1, dict(AUTO_ENV[cs][serial % len(AUTO_ENV[cs])])
            self.con = Console(file=TtyIO(bool(t0)), color_system="auto", _environ=env, **kw)
        elif kind == "setter":
            self.con = Console(file=TtyIO(bool(t0)), color_system=CS_NAMES[cs], _environ={}, **kw)
        elif kind == "stdout":
            with contextlib.redirect_stdout(TtyIO(bool(t0))):
                self.con = Console(file=None, color_system=CS_NAMES[cs], _environ={}, **kw)
                self.con.is_terminal  # first use while the target is what it is now
        else:
            with contextlib.redirect_stderr(TtyIO(bool(t0))):
                self.con = Console(file=None, stderr=True, color_system=CS_NAMES[cs], _environ={}, **kw)
                self.con.is_terminal
        self.t0 = t0

    @contextlib.contextmanager
    def target(self, t, nc, lw):
        """point the console at a fresh file with isatty() == t and set the public switches"""
        f = TtyIO(bool(t))
        self.con.no_color = bool(nc)
        self.con.legacy_windows = bool(lw)
        if self.kind in ("setter", "auto"):
            self.con.file = f
            yield (self.cs, nc, t, lw)
        elif self.kind == "stdout":
            with contextlib.redirect_stdout(f):
                yield (self.cs, nc, t, lw)
        else:
            with contextlib.redirect_stderr(f):
                yield (self.cs, nc, t, lw)


# public calls that put one control segment into the buffer: (name, call, codes, needs a capable terminal)
API_CONTROLS = [
    ("bell()", lambda c: c.bell(), "\x07", False),
    ("clear()", lambda c: c.clear(), "\x1b[2J\x1b[H", False),
    ("clear(home=False)", lambda c: c.clear(home=False), "\x1b[2J", False),
    ("show_cursor(False)", lambda c: c.show_cursor(False), "\x1b[?25l", True),
    ("show_cursor(True)", lambda c: c.show_cursor(True), "\x1b[?25h", True),
    ("control('\\r\\x1b[1A\\x1b[2K')", lambda c: c.control("\r\x1b[1A\x1b[2K"), "\r\x1b[1A\x1b[2K", False),
]


def err_name(e):
    n = type(e).__name__
    return "err:" + n if n in ("AssertionError", "IndexError", "ValueError") else "err:Other:" + n


class History:
    """One history on real rich, mirrored as a request for the Lean driver."""

    def __init__(self, ctx, consoles, label):
        self.ctx = ctx
        self.consoles = consoles
        self.label = label
        self.objs = []          # handle -> real Style object
        self.first_cs = []      # handle -> colour system the object's codes were (probably) first computed for
        self.ops = []
        self.readable = []
        self.chars, self.toks, self.cells, self.expected = [], [], [], []
        self.pbuf = []          # per writing op: what print appended to _buffer (`-` for the other writing ops)
        self.has_print = False
        self.modelled = True
        self.tok_ok = True      # every written text so far was free of ESC: the token views are meaningful
        self.dead = False       # an exception ended the history

    # ---------------------------------------------------------------- objects
    def new(self, style, how="Style"):
        self.objs.append(style)
        self.first_cs.append(None)
        if not A.modelled_style(style):
            self.modelled = False
            self.ops.append("N@?")
        else:
            self.ops.append("N@" + A.enc_style(style))
        self.readable.append(f"s{len(self.objs) - 1}={how}:{style}")
        return len(self.objs) - 1

    def handle(self, style, how="Style"):
        for i, o in enumerate(self.objs):
            if o is style:
                return i
        return self.new(style, how)

    def copy(self, i):
        s = self.objs[i].copy()
        self.objs.append(s)
        self.first_cs.append(self.first_cs[i] if self.objs[i] else None)
        self.ops.append("C@%d" % i)
        self.readable.append(f"s{len(self.objs) - 1}=s{i}.copy()")
        return len(self.objs) - 1

    def add(self, i, j):
        """`objs[i] + objs[j]`: one of the operands when the other is null, otherwise a new object with an empty cache"""
        return self.handle(self.objs[i] + self.objs[j], f"s{i}+s{j}")

    def without_color(self, i):
        return self.handle(self.objs[i].without_color, f"s{i}.without_color")

    def update_link(self, i, link):
        s = self.objs[i].update_link(link)
        self.objs.append(s)
        self.first_cs.append(self.first_cs[i])
        self.ops.append("U@%d@%s" % (i, A.enc_optstr(link)))
        self.readable.append(f"s{len(self.objs) - 1}=s{i}.update_link({link!r})")
        return len(self.objs) - 1

    # ---------------------------------------------------------------- writing
    def _record(self, out, exp_cells, texts_clean):
        """append the four views of one writing op"""
        if isinstance(out, BaseException):
            e = err_name(out)
            for v in (self.chars, self.toks, self.cells, self.expected):
                v.append(e)
            self.dead = True
            return None
        self.chars.append("ok " + enc_str(A.mask_ids(out)))
        tokens = term.tokenize(out)
        canon = A.canon_tokens(tokens) if texts_clean else None
        if canon is None:
            self.tok_ok = False
            self.toks.append("?")
            self.cells.append("?")
        else:
            masked = [("L", "id=*", t[2]) if t[0] == "L" and t[1].startswith("id=") else t for t in canon]
            self.toks.append("ok " + A.enc_tokens(masked))
            # the Lean tokenizer (the one the character-level theorems are about) against term.py on the real characters
            self.ctx.case("c03_tokenize", [enc_str(out)], A.enc_tokens(canon), shape=self.label)
        it = A.Interp().feed(tokens)
        if canon is not None:
            self.cells.append("ok " + A.enc_cells(it.cells) + "!" + A.enc_look(it.state()))
        if exp_cells is None:
            self.expected.append("?")
            self.exp_ok = False
        else:
            self.expected.append("ok " + A.enc_cells(exp_cells))
        return it

    exp_ok = True

    def expected_cells(self, cfg, segs, stale=False, ctl=False, shown=False):
        """the oracle's expected cells of `_render_buffer(segs)`; `stale`: colours as for each object's first colour
        system; `ctl`: styled control segments count as visible (the two classifier variants).  None: ill-formed colour."""
        cs, nc, t, lw = cfg
        cells = []
        for text, h, control in segs:
            style = None if h is None else self.objs[h]
            if control and not t and not (ctl and style):
                continue
            use = cs
            if stale and h is not None and self.first_cs[h] not in (None, 0) and cs != 0 and not nc:
                use = self.first_cs[h]
            look = A.expected_look(style, use, nc, lw)
            if look is None:
                return None
            cells.extend((ch, look) for ch in (A.shown(text)[0] if shown else text))
        return cells

    def write(self, cfg, segs, mode, route=0, console=None, action=None, tag=""):
        """`segs` = [(text, handle|None, control)] written through the console of configuration `cfg`."""
        from rich.segment import Segment

        if self.dead:
            return
        ctx = self.ctx
        cs, nc, t, lw = cfg
        if console is None:
            console = self.consoles.get(cfg, route)
        real = [Segment(text, None if h is None else self.objs[h], bool(control)) for text, h, control in segs]
        rb = getattr(console, "_render_buffer", None)
        if mode == 0 and rb is None:
            mode = 1
        try:
            if action is not None:   # a public call whose buffer content is `segs`
                mode = 4
                action[1](console)
                out = console.file.getvalue()
            elif mode == 0:
                out = rb(real)
            elif mode == 1:
                console.print(SegsRenderable(real), crop=False)
                out = console.file.getvalue()
            elif mode == 2:
                with console.capture() as cap:
                    console.print(SegsRenderable(real), crop=False)
                out = cap.get()
                if console.file.getvalue() != "":
                    ctx.check(False, "capture", self.describe(), "captured output also reached the file")
            else:  # crop=True: the caller guarantees short, newline-free texts
                console.print(SegsRenderable(real))
                out = console.file.getvalue()
            if not isinstance(out, str):
                out = TypeError("output is %s" % type(out).__name__)
        except BaseException as e:  # noqa: BLE001 - an exception is an observation, not a harness error
            if isinstance(e, (KeyboardInterrupt, SystemExit)):
                raise
            out = e
            self.consoles.drop(cfg, route)
        ctx.note("mode%d" % mode)
        ctx.note("route%d" % route)
        self.pbuf.append("-")
        self.ops.append("R@%s@%s" % (A.enc_cfg(*cfg), A.enc_segs(segs)))
        self.readable.append("console%s(cs=%s,no_color=%d,terminal=%d,legacy=%d).%s" % (tag,
            CS_NAMES[cs], nc, t, lw, action[0] if action is not None else "write(%s)" % ", ".join(
            ("ctl" if c else "seg") + "(%r,%s)" % (tx, "None" if h is None else "s%d" % h) for tx, h, c in segs)))
        texts_clean = all(A.no_esc(tx) for tx, _, _ in segs)
        exp = self.expected_cells(cfg, segs)
        it = self._record(out, exp, texts_clean)
        site = "_render_buffer"
        if it is None:
            ill = exp is None
            ctx.check(ill, site, self.describe(), f"raised {type(out).__name__}: {out} on well-formed styles")
            ctx.note("raised" if ill else "raised-on-wellformed")
            return
        ctx.note("cs%d" % cs)
        ctx.note("segs%d" % min(len(segs), 5))
        # ---- direct evaluation of the property on the real output (escape sequences inside control texts are executed
        #      by the terminal, not shown: `shown` keeps the characters around them)
        if exp is not None:
            vis = exp if texts_clean else self.expected_cells(cfg, segs, shown=True)
            foreign = 0 if texts_clean else sum(A.shown(tx)[1] for tx, h, c in segs if (t or not c))
            ok = it.cells == vis and it.foreign == foreign
            finding = None
            if it.cells != vis:
                if it.cells == self.expected_cells(cfg, segs, stale=True, shown=True):
                    finding = SLUG_STALE
                elif it.cells == self.expected_cells(cfg, segs, ctl=True, shown=True):
                    finding = SLUG_CTL
                elif it.cells == self.expected_cells(cfg, segs, stale=True, ctl=True, shown=True):
                    finding = SLUG_STALE
            ctx.check(ok, site + ":stream_means_segments", self.describe(), "interpreting the output gives %s (%d other sequences), the segments say %s (%d) (output %r)" % (
                A.enc_cells(it.cells), it.foreign, A.enc_cells(vis), foreign, out), finding=finding)
            ctx.check(it.state() == A.PLAIN, site + ":no_leak", self.describe(), "the terminal is left in state %s after the write (output %r)" % (A.enc_look(it.state()), out))
        if cs == 0 and texts_clean:
            ctx.check("\x1b" not in out, site + ":colour_none_no_escape", self.describe(), "colour is disabled and the output contains ESC: %r" % out)
        if True:
            if nc:
                bad = [p for tk in term.tokenize(out) if tk[0] == "SGR" for p in tk[1] if p not in ATTR_CODES and p != 0]
                ctx.check(not bad, site + ":no_color_no_colour_params", self.describe(), "NO_COLOR and the output has SGR parameters %r: %r" % (bad, out))
        if not t:
            for text in sorted({tx for tx, _, c in segs if c and tx}):
                if any(text in tx for tx, _, c in segs if not c):
                    continue  # the same characters are also printed as ordinary text
                styled = any(c and tx == text and h is not None and bool(self.objs[h]) for tx, h, c in segs)
                ctx.check(text not in out, site + ":not_terminal_no_control", self.describe(),
                          "not a terminal and the control text %r is written: %r" % (text, out), finding=SLUG_CTL if styled else None)
        # ---- bookkeeping for the stale-cache classifier (mirrors when the code computes codes)
        if cs != 0 and not nc:
            for text, h, control in segs:
                if h is not None and text and self.objs[h] and self.first_cs[h] is None:
                    if STYLED_CONTROL_KEPT or t or not control:
                        self.first_cs[h] = cs

    def style_render(self, i, text, cs, lw):
        """`Style.render` called directly (public API); it fills the cache as well."""
        from rich.color import ColorSystem

        if self.dead:
            return
        ctx = self.ctx
        style = self.objs[i]
        try:
            out = style.render(text, color_system=None if cs == 0 else ColorSystem(cs), legacy_windows=bool(lw))
            if not isinstance(out, str):
                out = TypeError("output is %s" % type(out).__name__)
        except BaseException as e:  # noqa: BLE001
            if isinstance(e, (KeyboardInterrupt, SystemExit)):
                raise
            out = e
        self.pbuf.append("-")
        self.ops.append("S@%d@%d@%s@%s" % (i, cs, enc_bool(lw), enc_str(text)))
        self.readable.append("s%d.render(%r, color_system=%s, legacy_windows=%s)" % (i, text, CS_NAMES[cs], bool(lw)))
        look = A.expected_look(style, cs, False, lw)
        exp = None if look is None else [(ch, look) for ch in text]
        clean = A.no_esc(text)
        it = self._record(out, exp, clean)
        if it is None:
            ctx.check(exp is None, "Style.render", self.describe(), f"raised {type(out).__name__}: {out} on a well-formed style")
            return
        if exp is not None and clean:
            ok = it.cells == exp and it.foreign == 0
            finding = None
            if not ok and self.first_cs[i] not in (None, 0) and cs != 0:
                alt = A.expected_look(style, self.first_cs[i], False, lw)
                if alt is not None and it.cells == [(ch, alt) for ch in text]:
                    finding = SLUG_STALE
            ctx.check(ok, "Style.render:stream_means_segments", self.describe(), "interpreting %r gives %s, the style says %s" % (out, A.enc_cells(it.cells), A.enc_cells(exp)), finding=finding)
            ctx.check(it.state() == A.PLAIN, "Style.render:no_leak", self.describe(), "the terminal is left in state %s (output %r)" % (A.enc_look(it.state()), out))
        if cs != 0 and text and self.first_cs[i] is None:
            self.first_cs[i] = cs


    # ---------------------------------------------------------------- console.print as a modelled op (Model/AnsiPrint.lean)
    def print_call(self, console, cfg, width, csoft, renderable, style_h, crop, soft, what):
        """`console.print(renderable, style=objs[style_h], crop=crop, soft_wrap=soft)` on a real console of configuration
        `cfg`, width `width`, `soft_wrap=csoft`.  The segments `Console.render` yields for the renderable are observed by
        a pass-through wrapper (they are the model's input); everything after them is modelled: apply_style on the shared
        objects, the crop, `_buffer`, `_render_buffer`, the write.  Compared: the buffer (values), the characters, tokens,
        cells; evaluated: the statement on the real output with an oracle that knows neither Style.__add__ nor
        split_and_crop_lines."""
        from rich.style import Style

        if self.dead:
            return
        ctx = self.ctx
        cs, nc, t, lw = cfg
        tee = Tee(renderable)
        kw = {}
        if style_h is not None:
            kw["style"] = self.objs[style_h]
        if crop is not None:
            kw["crop"] = bool(crop)
        if soft is not None:
            kw["soft_wrap"] = bool(soft)
        buf = None
        try:
            with console:
                console.print(tee, **kw)
                buf = [(sg.text, sg.style, bool(sg.is_control)) for sg in console._buffer]
            out = console.file.getvalue()
            if not isinstance(out, str):
                out = TypeError("output is %s" % type(out).__name__)
        except BaseException as e:  # noqa: BLE001 - an exception is an observation
            if isinstance(e, (KeyboardInterrupt, SystemExit)):
                raise
            out = e
        rendered = tee.seen
        # the model's input: rendered segments over heap handles (objects not seen before get an `N@` op first)
        segs = []
        for text, st, control in rendered:
            segs.append((text, None if st is None else self.handle(st, "rendered"), control))
        if not self.modelled:
            self.dead = True
            return
        S = None if style_h is None else self.objs[style_h]
        self.ops.append("P@%s@%d@%d@%s@%d@%s@%s" % (A.enc_cfg(*cfg), width, int(bool(csoft)), "-" if style_h is None else style_h,
                                                   1 if crop is None else int(bool(crop)), "-" if soft is None else int(bool(soft)), A.enc_segs(segs)))
        self.readable.append("console(cs=%s,no_color=%d,terminal=%d,legacy=%d,width=%d,soft_wrap=%s).print(%s%s)" % (
            CS_NAMES[cs], nc, t, lw, width, bool(csoft), what, "".join(", %s=%s" % (k, "s%d" % style_h if k == "style" else v) for k, v in kw.items())))
        self.has_print = True
        # index alignment: apply_style allocates one object per non-control segment whose own style is truthy, when S is truthy
        if S is not None and bool(S):
            for text, st, control in rendered:
                if not control and st is not None and bool(st):
                    self.objs.append(PLACEHOLDER)
                    self.first_cs.append(None)
        ctx.note("print-kind:" + what.split("(")[0])
        ctx.note("print-crop" if ((1 if crop is None else crop) and not (csoft if soft is None else soft)) else "print-nocrop")
        # ---- oracle: combined style by the public attributes, crop by crop_spec (ASCII only)
        def combined(own, control):
            if S is None:
                return own
            if control:
                return None
            if own is None:
                return S
            kwargs = {a: (getattr(own, a) if getattr(own, a) is not None else getattr(S, a)) for a in A.ATTRS}
            return Style(color=own.color or S.color, bgcolor=own.bgcolor or S.bgcolor, link=own.link or S.link, **kwargs)

        vsegs = [(text, combined(st, control), control) for text, st, control in rendered]
        crops = (True if crop is None else bool(crop)) and not (bool(csoft) if soft is None else bool(soft))
        ascii_only = all(tx.isascii() for tx, _, _ in vsegs)
        texts_clean = all(A.no_esc(tx) for tx, _, _ in vsegs)
        spec = crop_spec(vsegs, width) if crops else vsegs
        exp = None
        if ascii_only or not crops:
            exp = []
            for text, st, control in spec:
                if control and not t:
                    continue
                look = A.expected_look(st, cs, nc, lw)
                if look is None:
                    exp = None
                    break
                exp.extend((ch, look) for ch in text)
        if buf is None or isinstance(out, BaseException):
            self.pbuf.append(err_name(out) if isinstance(out, BaseException) else "?")
        else:
            self.pbuf.append("ok %d#%s" % (len(buf), ";".join("%s,%s,%s" % (enc_str(tx), "1" if c else "0", "-" if st is None else A.enc_style(st)) for tx, st, c in buf)))
        # (wide characters through the crop: no independent oracle here, `exp` is None and the `c03_expected` view is
        #  dropped for this history; the other views still compare everything)
        it = self._record(out, exp, texts_clean)
        if it is None:
            ill = any(st is not None and A.expected_look(st, cs or 3, 0, lw) is None for _, st, _ in vsegs)
            ctx.check(ill, "print", self.describe(), f"raised {type(out).__name__}: {out} on well-formed styles")
            return
        if exp is not None and texts_clean:
            ok = it.cells == exp and it.foreign == 0
            ctx.check(ok, "print:print_means_segments", self.describe(), "interpreting the output gives %s, the printed segments say %s (output %r)" % (
                A.enc_cells(it.cells), A.enc_cells(exp), out))
            ctx.check(it.state() == A.PLAIN, "print:no_leak", self.describe(), "the terminal is left in state %s after print (output %r)" % (A.enc_look(it.state()), out))
            if buf is not None and ascii_only:
                # the buffer itself against the oracle: texts, control flags and looks of what print appended
                def look3(st):
                    return PLAIN_NONE if st is None or not st else A.expected_look(st, 3, 0, 0)

                got = [(tx, c, look3(st)) for tx, st, c in buf if tx or c]
                want = [(tx, c, look3(st)) for tx, st, c in spec if tx or c]
                if all(x[2] is not None for x in want):
                    ctx.check(got == want, "print:buffer", self.describe(), "print appended %r, the specification says %r" % (got, want))

    # ---------------------------------------------------------------- hand over to the model
    def describe(self):
        return "; ".join(self.readable)

    def finish(self):
        ctx = self.ctx
        ctx.note("histories")
        ctx.note("ops%d" % min(10 * (len(self.ops) // 10), 60))
        if not self.modelled:
            ctx.note("unmodelled-history")
            return
        ops = "~".join(self.ops)
        sample = self.describe()[:600]
        ctx.case("c03_chars", [FLAGS, ops], "~".join(self.chars), shape=self.label, sample=sample)
        if self.tok_ok:
            ctx.case("c03_toks", [FLAGS, ops], "~".join(self.toks), shape=self.label, sample=sample)
            ctx.case("c03_cells", [FLAGS, ops], "~".join(self.cells), shape=self.label, sample=sample)
        if self.exp_ok:
            ctx.case("c03_expected", [FLAGS, ops], "~".join(self.expected), shape=self.label, sample=sample)
        if self.has_print:
            ctx.case("c03_pbuf", [FLAGS, ops], "~".join(self.pbuf[: len(self.chars)]), shape=self.label, sample=sample)


# ==================================================================== generators
STD_NAMES = ["black", "red", "green", "yellow", "blue", "magenta", "cyan", "white", "bright_black", "bright_red", "bright_green",
             "bright_yellow", "bright_blue", "bright_magenta", "bright_cyan", "bright_white"]
RGB_POOL = [(0, 0, 0), (255, 255, 255), (255, 136, 0), (128, 128, 128), (55, 45, 45), (1, 2, 3), (95, 135, 175), (8, 8, 8), (238, 238, 238),
            (0, 0, 128), (192, 192, 192), (12, 12, 12), (197, 15, 31), (254, 0, 0), (127, 127, 127), (100, 90, 90)]
LINKS = [None, None, None, "http://example.org/a", "x", "", "a;b?c=d&e", "ünï", "file:///p q"]
TEXTS = ["x", "ab", "a b", "あ", "é", "😽", "a\nb", "\n", " ", "[0m", "1;2", "m", "]8;;", "\t", "\r", "tail\n", "0", ";"]
CTL_ESC = ["\x1b[2J", "\x1b[?25l", "\x1b[?25h", "\r\x1b[1A\x1b[2K", "\x1b[H", "\x07"]
CTL_PLAIN = ["\r", "\x07", "ctl", "\x08"]


def color_reps():
    """one colour per class the conversion code branches on (as rich Color objects), by kind"""
    from rich.color import Color, ColorType
    from rich.color_triplet import ColorTriplet

    reps = [None, Color.default()]
    reps += [Color.parse(n) for n in ("black", "white", "bright_black", "bright_white", "red")]
    reps += [Color.from_ansi(n) if hasattr(Color, "from_ansi") else Color.parse(f"color({n})") for n in (0, 7, 8, 15, 16, 100, 231, 232, 244, 255)]
    reps += [Color("e%d" % n, ColorType.EIGHT_BIT, number=n) for n in (0, 9, 15)]
    reps += [Color("w%d" % n, ColorType.WINDOWS, number=n) for n in (0, 7, 8, 15)]
    reps += [Color.from_triplet(ColorTriplet(*t)) for t in RGB_POOL[:9]]
    return reps


def rand_color(rng):
    from rich.color import Color, ColorType
    from rich.color_triplet import ColorTriplet

    k = rng.random()
    if k < 0.22:
        return None
    if k < 0.30:
        return Color.default()
    if k < 0.45:
        return Color.parse(rng.choice(STD_NAMES))
    if k < 0.62:
        n = rng.choice([0, 7, 8, 15, 16, 17, 231, 232, 255, rng.randint(0, 255), rng.randint(0, 255)])
        return Color.parse(f"color({n})") if rng.random() < 0.7 else Color(f"n{n}", ColorType.EIGHT_BIT, number=n)
    if k < 0.68:
        return Color("win", ColorType.WINDOWS, number=rng.randint(0, 15))
    t = rng.choice(RGB_POOL) if rng.random() < 0.4 else (rng.randint(0, 255), rng.randint(0, 255), rng.randint(0, 255))
    if rng.random() < 0.25:
        g = rng.randint(0, 255)
        t = (g, g, min(255, g + rng.choice([0, 0, 1, 5])))
    if rng.random() < 0.5:
        return Color.parse("#%02x%02x%02x" % t)
    return Color.from_triplet(ColorTriplet(*t))


def rand_kw(rng):
    """13 tri-state attributes"""
    mode = rng.random()
    if mode < 0.25:
        return {}
    p_set = 0.15 if mode < 0.7 else 0.7
    kw = {}
    for a in A.ATTRS:
        if rng.random() < p_set:
            kw[a] = rng.random() < 0.7
    return kw


def rand_style(rng):
    """a fresh Style from the full product, through one of the public construction routes"""
    from rich.style import Style

    route = rng.random()
    kw = rand_kw(rng)
    fg, bg = rand_color(rng), rand_color(rng)
    link = rng.choice(LINKS)
    if route < 0.45:
        return Style(color=fg, bgcolor=bg, link=link, **kw), "Style()"
    if route < 0.6:
        # through the text form (a fresh object: the lru_cache is bypassed here and exercised in the parse histories)
        base = Style(color=fg, bgcolor=bg, link=link if link and not any(ch.isspace() for ch in link) else None, **kw)
        try:
            return unwrap(Style.parse)(Style, str(base)), "parse"
        except BaseException:  # noqa: BLE001 - names such as "win" do not parse; C06 owns that
            return base, "Style()"
    if route < 0.75:
        a = Style(color=fg, link=link, **{k: v for k, v in kw.items() if A.ATTRS.index(k) % 2})
        b = Style(bgcolor=bg, **{k: v for k, v in kw.items() if not A.ATTRS.index(k) % 2})
        return a + b, "a+b"
    if route < 0.82:
        return Style.from_color(fg, bg), "from_color"
    if route < 0.88:
        return Style(color=fg, bgcolor=bg, link=link, **kw).without_color, "without_color"
    if route < 0.92:
        return Style(color=fg, bgcolor=bg, **kw).background_style, "background_style"
    if route < 0.96:
        return Style.chain(Style(color=fg, **kw), Style(bgcolor=bg), Style(link=link)), "chain"
    return Style.null() if rng.random() < 0.5 else Style(), "null"


def rand_cfg(rng, cs=None):
    return (rng.choice([0, 1, 2, 3, 3, 4]) if cs is None else cs, int(rng.random() < 0.2), int(rng.random() < 0.75), int(rng.random() < 0.2))


def rand_segs(rng, nobj, clean_only=False, maxn=4):
    segs = []
    for _ in range(rng.randint(0, maxn)):
        control = rng.random() < 0.2
        if control:
            text = rng.choice(CTL_PLAIN if clean_only or rng.random() < 0.5 else CTL_ESC)
        else:
            text = rng.choice(TEXTS) if rng.random() < 0.85 else ""
        h = rng.randrange(nobj) if nobj and rng.random() < 0.8 else None
        segs.append((text, h, control))
    return segs


def ill_formed(rng):
    from rich.color import Color, ColorType
    from rich.color_triplet import ColorTriplet

    return rng.choice([
        Color("bad", ColorType.STANDARD), Color("bad", ColorType.EIGHT_BIT), Color("bad", ColorType.TRUECOLOR), Color("bad", ColorType.WINDOWS),
        Color("bad", ColorType.EIGHT_BIT, number=300), Color("bad", ColorType.STANDARD, number=16), Color("bad", ColorType.WINDOWS, number=20),
        Color("bad", ColorType.DEFAULT, number=3), Color("bad", ColorType.TRUECOLOR, number=1, triplet=ColorTriplet(1, 2, 3)),
    ])


def all_cfgs():
    return [(cs, nc, t, lw) for cs in range(5) for nc in (0, 1) for t in (0, 1) for lw in (0, 1)]


# ==================================================================== run
def run(ctx):
    from rich.style import Style

    rng = ctx.rng
    consoles = Consoles()
    ctx.assumptions += [
        "string <-> token serialisation: proved (tokenize_reads_back) for texts without ESC and links without ESC / BEL; additionally validated by c03_chars / c03_toks / c03_tokenize",
        "the random OSC 8 link id is masked (id=*) on both sides",
        "dict lookup in Segment.remove_color is lookup by == (Style.__hash__ agrees with __eq__: property C06)",
        "colour conversion is C18's model with C18's float parameter (satExc)",
        "a Style built by any route other than copy()/update_link() starts with an empty _ansi cache (checked: the model assumes it and is compared)",
    ]

    def hist(label):
        return History(ctx, consoles, label)

    # ---- I. the two independent interpreters against each other on arbitrary SGR / OSC 8 streams (every parameter
    #         0..110 alone and after "everything on", extended colours well- and ill-formed, clears, empty sequences)
    _interpreter_cross_check(ctx)
    _tokenizer_cross_check(ctx)
    # ---- E1. every attribute x {on, off} x every console configuration (exhaustive)
    for i, a in enumerate(A.ATTRS):
        for val in (True, False):
            h = hist("E1-attr")
            s = h.new(Style(**{a: val}), f"Style({a}={val})")
            for k, cfg in enumerate(all_cfgs()):
                h.write(cfg, [("x", s, False)], mode=k % 4, route=(k // 4 + i) % 2)
            h.finish()
    # ---- E1x. all 2^13 attribute sets (thorough: exhaustive; quick: a seeded sample of 384 plus the 13 + 78 + 15 of E1 / E2):
    #      `_make_ansi_codes` through Style.render on two colour systems and through _render_buffer under NO_COLOR
    words = range(1 << 13) if not ctx.quick else sorted(rng.sample(range(1 << 13), 384))
    for a in words:
        h = hist("E1x-attr-word")
        off = rng.randrange(1 << 13) & ~a     # some of the other attributes explicitly False: they must emit nothing
        kw = {A.ATTRS[i]: True for i in range(13) if a >> i & 1}
        kw.update({A.ATTRS[i]: False for i in range(13) if off >> i & 1})
        s = h.new(Style(**kw), "Style(word=%d, off=%d)" % (a, off))
        h.style_render(s, "x", 3, 0)
        h.style_render(s, "y", 1, 1)
        h.write((2, 1, 1, 0), [("z", s, False)], mode=0)
        h.finish()
    # ---- E2. every pair of attributes on; all on; all but one; all off
    for i, j in itertools.combinations(range(13), 2):
        h = hist("E2-attr-pairs")
        s = h.new(Style(**{A.ATTRS[i]: True, A.ATTRS[j]: True}))
        h.write((3, 0, 1, 0), [("x", s, False)], mode=(i + j) % 4)
        h.write((1, 1, 0, 0), [("y", s, False)], mode=0)
        h.finish()
    for drop in [None] + list(range(13)):
        h = hist("E2-attr-all")
        s = h.new(Style(**{a: (k != drop) for k, a in enumerate(A.ATTRS)}))
        h.write((3, 0, 1, 0), [("x", s, False)], mode=0)
        h.style_render(s, "y", 2, 0)
        h.finish()
    # ---- E3. every colour class as foreground and as background x colour system x NO_COLOR
    reps = color_reps()
    for c in reps[1:]:
        for fg in (True, False):
            h = hist("E3-colour")
            s = h.new(Style(color=c) if fg else Style(bgcolor=c), "fg" if fg else "bg")
            for cs in (3, 2, 1, 4, 0):   # most capable first: this is the order that exposes a cache keyed too coarsely
                for nc in (0, 1):
                    # a fresh twin for each system keeps the colour maths visible even when the cache is stale
                    tw = h.new(Style(color=c) if fg else Style(bgcolor=c), "twin")
                    h.write((cs, nc, 1, 0), [("x", tw, False)], mode=0, route=nc)
                    h.write((cs, nc, 1, 0), [("x", s, False)], mode=cs % 4, route=1 - nc)
            h.finish()
    # ---- E4. the cache is state: same object / copy() / update_link() under every ordered pair of colour systems
    kinds = [lambda: Style(color="#ff8800", bold=True), lambda: Style(bgcolor="color(100)"), lambda: Style(color="red", bgcolor="#010203", link="http://l"),
             lambda: Style(color="bright_blue", italic=False)]
    for mk in kinds:
        for cs1 in range(5):
            for cs2 in range(5):
                for via in range(7):
                    h = hist("E4-cache")
                    s = h.new(mk())
                    if via == 3:
                        h.style_render(s, "a", cs1, 0)
                    else:
                        h.write((cs1, 0, 1, 0), [("a", s, False)], mode=(cs1 + cs2) % 4, route=via % 2)
                    if via in (0, 3):
                        t = s
                    elif via == 1:
                        t = h.copy(s)
                    elif via == 2:
                        t = h.update_link(s, "http://n")
                    elif via == 4:
                        t = h.add(s, h.new(Style(underline=True, bgcolor="#123456")))   # a new object: its cache must be empty
                    elif via == 5:
                        t = h.add(h.new(Style(underline=True)), s)
                    else:
                        t = h.without_color(s)
                    h.write((cs2, 0, 1, 0), [("b", t, False), ("c", s, False)], mode=cs2 % 4, route=(via + 1) % 2)
                    h.write((cs2, 1, 1, 0), [("d", t, False), ("e", s, False)], mode=0)
                    h.finish()
    # ---- E4b. derivation chains on objects that have ALREADY been rendered: the result of `+`, without_color,
    #           background_style is a new object and must not inherit codes; copy() / update_link() inherit them soundly
    rights = [lambda: Style(color="#00ff00"), lambda: Style(bgcolor="color(200)"), lambda: Style(color="blue", bgcolor="#102030"),
              lambda: Style(italic=True), lambda: Style(link="http://r"), lambda: Style(bold=False), lambda: Style.null()]
    for li, mk in enumerate(kinds):
        for ri, mkr in enumerate(rights):
            for cs1, cs2 in ((3, 3), (3, 1), (1, 2), (2, 3)):
                for chain in range(8):
                    h = hist("E4b-chains")
                    a = h.new(mk())
                    b = h.handle(mkr(), "right")
                    h.write((cs1, 0, 1, 0), [("a", a, False), ("b", b, False)], mode=(li + ri) % 3)
                    if chain == 0:
                        t = h.add(a, b)
                    elif chain == 1:
                        t = h.add(b, a)
                    elif chain == 2:
                        t = h.copy(h.add(a, b))
                    elif chain == 3:
                        t = h.add(h.copy(a), b)
                    elif chain == 4:
                        t = h.add(h.update_link(a, "http://u"), b)
                    elif chain == 5:
                        t = h.add(h.without_color(a), b)
                    elif chain == 6:
                        t = h.update_link(h.add(a, b), None)
                    else:
                        t = h.handle(Style.chain(h.objs[a], h.objs[b], h.objs[a]), "chain(a,b,a)")
                    h.write((cs2, 0, 1, 0), [("x", t, False), ("y", a, False), ("z", b, False)], mode=(chain + ri) % 3)
                    u = h.add(t, b)
                    h.style_render(u, "w", cs2, 0)
                    h.write((cs2, 1, 1, 0), [("v", t, False)], mode=0)
                    h.finish()
    # ---- E5. control segments x style kind x configuration
    for cfg in all_cfgs():
        for text in ["ctl", "\x1b[2J", ""]:
            h = hist("E5-control")
            styles = [None, h.new(Style(bold=True, color="red")), h.new(Style.null(), "null"), h.new(Style(link="http://c")), h.new(Style(bold=False))]
            for st in styles:
                h.write(cfg, [("a", None, False), (text, st, True), ("b", st, False)], mode=0 if "\x1b" in text else 1, route=len(text) % 2)
            h.finish()
    # ---- E8. option handling of Console.__init__: every documented way of naming the colour system / NO_COLOR /
    #          terminal-ness through the environment and the file, each on a fresh console
    from rich.console import Console

    for cs, envs in sorted(AUTO_ENV.items()):
        for env in envs:
            for nc in (0, 1):
                for t in (1, 0):
                    h = hist("E8-options")
                    st = h.new(Style(color="#ff8800", bgcolor="color(100)", bold=True, link="http://o"))
                    e = dict(env)
                    if nc:
                        e["NO_COLOR"] = "1" if t else ""
                    con = Console(file=TtyIO(bool(t)), color_system="auto", legacy_windows=False, width=WIDTH, _environ=e)
                    # not a terminal: colour is off whatever the environment says
                    h.write((cs if t else 0, nc, t, 0), [("x", st, False), ("y", None, False)], mode=1 + (nc + t) % 2, route=1, console=con)
                    con.file = TtyIO(bool(t))
                    h.write((cs if t else 0, nc, t, 0), [("x", st, False), ("\x1b[2J", None, True)], mode=1, route=1, console=con)
                    h.finish()
    # ---- M. one console object, changing target / NO_COLOR / legacy_windows between writes
    _mutable_console_histories(ctx, consoles)
    # ---- T. styles shared through themes;  K. the crop path of console.print on narrow consoles
    _theme_histories(ctx, consoles)
    _crop_histories(ctx, consoles)
    # ---- N. styled segments with embedded / trailing line feeds through console.print (independent crop spec)
    _newline_histories(ctx, consoles)
    _print_histories(ctx, consoles)
    # ---- E6. through the public API only: Style.parse (lru_cache shared by every console) + console.print(Text)
    _public_api_histories(ctx, consoles)
    # ---- E7. the error branches: ill-formed Color objects
    for _ in range(40 if ctx.quick else 400):
        h = hist("E7-ill-formed")
        bad = ill_formed(rng)
        s = h.new(Style(color=bad) if rng.random() < 0.5 else Style(bgcolor=bad, color="red"))
        g = h.new(Style(bold=True))
        h.write(rand_cfg(rng), [("a", g, False), ("b", s, False), ("c", g, False)], mode=rng.randrange(3))
        h.write(rand_cfg(rng), [("d", g, False)], mode=0)
        h.finish()
    ctx.flush()
    # ---- G. a few long histories: a dozen objects shared by all 40 configurations, everything interleaved
    for g in range(2 if ctx.quick else 12):
        h = hist("G-long")
        for _ in range(10):
            st, how = rand_style(rng)
            h.new(st, how)
        for _ in range(150 if ctx.quick else 600):
            n = len(h.objs)
            r = rng.random()
            if r < 0.04 and n < 40:
                h.copy(rng.randrange(n))
            elif r < 0.08 and n < 40:
                h.update_link(rng.randrange(n), rng.choice(LINKS))
            elif r < 0.11 and n < 40:
                h.add(rng.randrange(n), rng.randrange(n))
            elif r < 0.16:
                h.style_render(rng.randrange(n), rng.choice(TEXTS), rng.randrange(5), 0)
            else:
                h.write(rand_cfg(rng), rand_segs(rng, n, clean_only=True, maxn=3), rng.randrange(3), route=int(rng.random() < 0.3))
        h.finish()
    ctx.flush()
    # ---- R. seeded random histories from the full product
    n_hist = 6000 if ctx.quick else 150000
    for k in range(n_hist):
        h = hist("R-random")
        nobj = rng.randint(1, 4)
        for _ in range(nobj):
            st, how = rand_style(rng)
            h.new(st, how)
        nops = rng.randint(1, 5) if rng.random() < 0.9 else rng.randint(6, 14)
        for _ in range(nops):
            r = rng.random()
            n = len(h.objs)
            if r < 0.07:
                h.copy(rng.randrange(n))
            elif r < 0.14:
                h.update_link(rng.randrange(n), rng.choice(LINKS))
            elif r < 0.19:
                st, how = rand_style(rng)
                h.new(st, how)
            elif r < 0.23:
                h.add(rng.randrange(n), rng.randrange(n))
            elif r < 0.26:
                h.without_color(rng.randrange(n))
            elif r < 0.33:
                h.style_render(rng.randrange(n), rng.choice(TEXTS + [""]), rng.randrange(5), int(rng.random() < 0.2))
            else:
                cfg = rand_cfg(rng)
                mode = rng.randrange(4)
                if mode == 3:
                    segs = [(tx, hh, c) for tx, hh, c in rand_segs(rng, n, clean_only=True) if "\n" not in tx]
                else:
                    segs = rand_segs(rng, n, clean_only=rng.random() < 0.7)
                h.write(cfg, segs, mode, route=int(rng.random() < 0.3))
        h.finish()
    ctx.flush()
    _annotate_mismatches(ctx)
    ctx.rule = (
        "histories over shared Style objects: exhaustive 13 attributes x {on,off} x all 40 console configurations; all attribute pairs; "
        "%d colour classes x fg/bg x 5 colour systems x NO_COLOR; cache sequences for all 25 ordered pairs of colour systems x {same object, copy, update_link, Style.render}; "
        "control segments x 5 style kinds x 40 configurations; public-API histories (Style.parse lru_cache + console.print(Text)); ill-formed colours; "
        "derivation chains (+, copy, update_link, without_color, chain) on already-rendered objects; one console with changing target / NO_COLOR / "
        "legacy_windows; theme-shared styles through 4 public routes x 8 colour-system orders; console.print crop path on narrow consoles; "
        "Lean tokenizer vs term.py on every clean real stream and on synthetic SGR / OSC 8 streams; "
        "then %d seeded random histories from the full product (13 tri-state attributes x 6 colour kinds x fg/bg x link x construction route). "
        "distinct = distinct (view, history) requests" % (len(reps) - 1, n_hist)
    )


def api_write(h, mc, cfg, k, tag):
    """one of the public calls that emit control codes, on a mutable console in its current state"""
    name, call, codes, needs_capable = API_CONTROLS[k % len(API_CONTROLS)]
    cs, nc, t, lw = cfg
    segs = [] if needs_capable and (not t or lw) else [(codes, None, True)]
    h.write(cfg, segs, 4, console=mc.con, action=(name, call), tag=tag)


def _mutable_console_histories(ctx, consoles):
    """Histories on ONE console object whose target (and its isatty()), no_color and legacy_windows change between
    writes: whatever rich reads per write must not have been remembered from an earlier write."""
    from rich.style import Style

    rng = ctx.rng
    t_seqs = [(1, 0, 1, 0), (0, 1, 0, 1), (1, 1, 0, 0, 1)]
    serial = 0
    for kind in ("setter", "auto", "stdout", "stderr"):
        for cs in range(5):
            if kind == "auto" and cs == 4:
                continue
            for ts in t_seqs:
                serial += 1
                h = History(ctx, consoles, "M-mutable-" + kind)
                st = h.new(Style(bold=True, color="#ff8800", link="http://m"))
                nul = h.new(Style.null(), "null")
                mc = MutableConsole(cs, kind, ts[0], serial)
                tag = "#%s%d" % (kind, serial)
                for k, t in enumerate(ts):
                    nc, lw = (k + serial) % 2, (k // 2 + serial) % 2
                    with mc.target(t, nc, lw) as cfg:
                        h.write(cfg, [("a", st, False), ("ctl", st, True), ("b", None, False), ("\r", nul, True)], mode=(k + serial) % 3, console=mc.con, tag=tag)
                    with mc.target(t, nc, lw) as cfg:
                        h.write(cfg, [("x", st, False), ("\x1b[2K", None, True)], mode=1, console=mc.con, tag=tag)
                    for j in range(2):
                        with mc.target(t, nc, lw) as cfg:
                            api_write(h, mc, cfg, serial + 2 * k + j, tag)
                    # the switches alone, target unchanged in kind
                    with mc.target(t, 1 - nc, 1 - lw) as cfg:
                        h.write(cfg, [("y", st, False), ("\x07", None, True)], mode=2, console=mc.con, tag=tag)
                h.finish()
    for _ in range(40 if ctx.quick else 1500):
        serial += 1
        kind = rng.choice(["setter", "setter", "auto", "stdout", "stderr"])
        cs = rng.randrange(4 if kind == "auto" else 5)
        h = History(ctx, consoles, "M-mutable-random")
        for _ in range(rng.randint(1, 3)):
            st, how = rand_style(rng)
            h.new(st, how)
        mc = MutableConsole(cs, kind, rng.randrange(2), serial)
        tag = "#%s%d" % (kind, serial)
        for _ in range(rng.randint(2, 8)):
            with mc.target(rng.randrange(2), int(rng.random() < 0.3), int(rng.random() < 0.3)) as cfg:
                if rng.random() < 0.3:
                    api_write(h, mc, cfg, rng.randrange(len(API_CONTROLS)), tag)
                else:
                    h.write(cfg, rand_segs(rng, len(h.objs), clean_only=rng.random() < 0.6), rng.randrange(3), console=mc.con, tag=tag)
        h.finish()
    ctx.flush()


def _theme_histories(ctx, consoles):
    """Styles shared through a THEME: the default theme's Style objects are handed to every console of the process, a
    custom Theme object can be given to several consoles; `get_style(name)`, `print(..., style=name)`, markup tags and
    `Text(style=name)` all end up with the theme's own object in the segments."""
    from rich import themes
    from rich.console import Console
    from rich.segment import Segment
    from rich.style import Style
    from rich.text import Text
    from rich.theme import Theme

    custom = Theme({"warn": "bold #ff8800", "note": "italic color(100) on #101010", "lnk": "underline #00aaff link http://t",
                    "plain": "none", "neg": "not bold red"})
    dstyles = getattr(themes.DEFAULT, "styles", {})
    rich_colours = sorted(n for n, st in dstyles.items() if isinstance(st, Style) and any(c is not None and int(c.type) in (2, 3) for c in (st.color, st.bgcolor)))[:6]
    plain_colours = [n for n in ("repr.number", "rule.line", "logging.level.warning") if n in dstyles]
    plans = [(custom, list(custom.styles)), (None, rich_colours + plain_colours)]
    kinds = [
        ("print(Text('x', style=%r, end=''))", lambda c, n: c.print(Text("x", style=n, end=""))),
        ("print('x', style=%r, end='')", lambda c, n: c.print("x", style=n, end="", markup=False, highlight=False, emoji=False)),
        ("print('[%s]x', end='')", lambda c, n: c.print("[%s]x" % n, end="", markup=True, highlight=False, emoji=False)),
        ("print(Segment('x', get_style(%r)))", lambda c, n: c.print(SegsRenderable([Segment("x", c.get_style(n))]), crop=False)),
    ]
    orders = [(3, 1), (3, 2), (2, 1), (1, 3), (3, 4), (2, 4), (4, 3), (3, 0)]
    k = 0
    for theme, names in plans:
        cons = {}
        for cs in range(5):
            for nc in (0, 1):
                cons[(cs, nc)] = Console(file=io.StringIO(), force_terminal=True, color_system=CS_NAMES[cs], no_color=bool(nc), legacy_windows=False,
                                         width=WIDTH, _environ={}, theme=theme)
        for name in names:
            base = (theme.styles if theme is not None else dstyles).get(name)
            if base is None:
                continue
            for cs1, cs2 in orders:
                k += 1
                h = History(ctx, consoles, "T-theme")
                b = h.handle(base, "theme[%r]" % name)
                for cs, nc in ((cs1, 0), (cs2, 0), (cs2, 1), (cs1, 0)):
                    con = cons[(cs, nc)]
                    con.file = io.StringIO()
                    label, call = kinds[k % len(kinds)]
                    k += 1
                    obj = h.copy(b) if base.link else b   # Console.get_style: `style.copy() if style.link else style`
                    h.write((cs, nc, 1, 0), [("x", obj, False)] if True else [], 4, console=con,
                            action=(label % name, (lambda c, call=call, name=name: call(c, name))), tag="#theme")
                h.finish()
    ctx.flush()


def _crop_histories(ctx, consoles):
    """`console.print` with crop=True (the default) on narrow consoles: long lines, multi-line texts, wide characters.
    What reaches the buffer is `Segment.split_and_crop_lines(segments, width, pad=False)` (property C13 owns that function;
    here it is the specification of the glue), and that is what must be written."""
    from rich.console import Console
    from rich.segment import Segment
    from rich.style import Style
    from rich.text import Text

    rng = ctx.rng
    texts = ["a" * 30, "ab\ncd", "line1\nline two is long long long\n", "あ" * 10, "x\n\ny", "tab\there", "", "short", "a b c d e f g h i j k l m n",
             "\n", "é" * 13, "12345678901\n2", "wide😽😽😽😽😽😽😽end"]
    n = 120 if ctx.quick else 4000
    cons = {}
    for i in range(n):
        cfg = rand_cfg(rng)
        width = rng.choice([5, 12, 12, 20])
        key = (cfg, width)
        con = cons.get(key)
        if con is None:
            cs, nc, t, lw = cfg
            con = cons[key] = Console(file=io.StringIO(), force_terminal=bool(t), color_system=CS_NAMES[cs], no_color=bool(nc), legacy_windows=bool(lw),
                                      width=width, _environ={}, markup=False, emoji=False, highlight=False)
        con.file = io.StringIO()
        h = History(ctx, consoles, "K-crop")
        for _ in range(rng.randint(1, 3)):
            st, how = rand_style(rng)
            h.new(st, how)
        if i % 3 == 2:
            # a Text with spans, wrapped by rich: the segments are whatever console.render produces
            txt = Text(rng.choice(texts) + " " + rng.choice(texts), style=h.objs[0])
            for _ in range(rng.randint(0, 2)):
                a = rng.randint(0, max(0, len(txt) - 1))
                txt.stylize(h.objs[rng.randrange(len(h.objs))], a, a + rng.randint(1, 12))
            renderable = txt
            try:
                real = list(con.render(txt))
            except BaseException as e:  # noqa: BLE001
                if isinstance(e, (KeyboardInterrupt, SystemExit)):
                    raise
                ctx.check(False, "console.render", repr(txt), f"raised {type(e).__name__}")
                continue
        else:
            real = []
            for _ in range(rng.randint(1, 4)):
                control = rng.random() < 0.15
                hh = rng.randrange(len(h.objs)) if rng.random() < 0.8 else None
                real.append(Segment(rng.choice(CTL_PLAIN + ["c\nd"]) if control else rng.choice(texts), None if hh is None else h.objs[hh], control))
            renderable = SegsRenderable(real)
        try:
            lines = list(Segment.split_and_crop_lines(list(real), con.width, pad=False))
        except BaseException as e:  # noqa: BLE001
            if isinstance(e, (KeyboardInterrupt, SystemExit)):
                raise
            ctx.check(False, "split_and_crop_lines", repr(real), f"raised {type(e).__name__}")
            continue
        segs = [(sg.text, None if sg.style is None else h.handle(sg.style, "rendered"), bool(sg.is_control)) for line in lines for sg in line]
        h.write(cfg, segs, 4, console=con, action=("print(<%d segments, width %d>)" % (len(real), width), lambda c, r=renderable: c.print(r)), tag="#w%d" % width)
        h.finish()
    ctx.flush()


def crop_spec(segs, width):
    """The crop step of console.print / console.log, stated independently of rich (ASCII texts: one cell per character):
    the (character, style) stream is cut at line feeds — every piece keeps the style of the segment it came from, the line
    feed itself is written unstyled — and every line longer than `width` cells is cut to exactly `width` (what follows
    the cut on that line is dropped); control segments have no width and are never split."""
    out, line = [], []

    def flush_line(add_nl):
        total = sum(len(t) for t, _, c in line if not c)
        if total > width:
            used = 0
            for t, h, c in line:
                n = 0 if c else len(t)
                if used + n < width or c:
                    out.append((t, h, c))
                    used += n
                else:
                    out.append((t[: width - used], h, False))
                    break
        else:
            out.extend(line)
        if add_nl:
            out.append(("\n", None, False))
        del line[:]

    for t, h, c in segs:
        if "\n" in t and not c:
            parts = t.split("\n")
            for k, part in enumerate(parts):
                if part:
                    line.append((part, h, False))
                if k < len(parts) - 1:
                    flush_line(True)
        else:
            line.append((t, h, c))
    if line:
        flush_line(False)
    return out


def _newline_histories(ctx, consoles):
    """Renderables that yield STYLED segments with embedded and trailing line feeds (what a user's __rich_console__ may
    do; Text / Table / Panel keep line feeds in separate unstyled segments), through console.print with crop on, crop
    off and soft_wrap, on wide and narrow consoles.  Every character must come out with the style of the segment it
    was printed with; the expected segments are derived by `crop_spec`, not by calling rich."""
    from rich.console import Console
    from rich.segment import Segment
    from rich.style import Style

    rng = ctx.rng
    mk_styles = [lambda: Style(bold=True, color="red"), lambda: Style(color="#ff8800", bgcolor="color(100)", link="http://nl"),
                 lambda: Style(bgcolor="blue", underline=True), lambda: Style(italic=True, link="x")]
    texts = ["ab\ncd", "x\n", "\nx", "a\n\nb", "\n", "ab\ncd\n", "a long line of thirty characters\nshort", "one\ntwo\nthree\nfour", "tail\n\n"]
    cons = {}

    def console(cfg, width):
        c = cons.get((cfg, width))
        if c is None:
            cs, nc, t, lw = cfg
            c = cons[(cfg, width)] = Console(file=io.StringIO(), force_terminal=bool(t), color_system=CS_NAMES[cs], no_color=bool(nc),
                                             legacy_windows=bool(lw), width=width, _environ={}, markup=False, emoji=False, highlight=False)
        c.file = io.StringIO()
        return c

    def one(h, cfg, width, segs, how):
        con = console(cfg, width)
        real = [Segment(tx, None if hh is None else h.objs[hh], bool(c)) for tx, hh, c in segs]
        r = SegsRenderable(real)
        if how == 0:
            h.write(cfg, crop_spec(segs, width), 4, console=con, action=("print(<%r>) width=%d" % ([s[0] for s in segs], width), lambda c: c.print(r)), tag="#nl")
        elif how == 1:
            h.write(cfg, segs, 4, console=con, action=("print(<%r>, crop=False)" % [s[0] for s in segs], lambda c: c.print(r, crop=False)), tag="#nl")
        else:
            h.write(cfg, segs, 4, console=con, action=("print(<%r>, soft_wrap=True)" % [s[0] for s in segs], lambda c: c.print(r, soft_wrap=True)), tag="#nl")

    k = 0
    for mk in mk_styles:
        for text in texts:
            for cs in range(5):
                k += 1
                h = History(ctx, consoles, "N-newlines")
                a = h.new(mk())
                b = h.new(Style(dim=True))
                cfg = (cs, (k // 5) % 2 if cs else 0, 0 if k % 7 == 0 else 1, (k // 3) % 2)
                for how in (0, 1, 2):
                    one(h, cfg, WIDTH, [(text, a, False)], how)
                one(h, cfg, 8, [(text, a, False)], 0)
                one(h, cfg, WIDTH, [("p", None, False), (text, a, False), ("q\nr", b, False), ("s", a, False)], k % 3)
                one(h, cfg, 6, [("pq", b, False), (text, a, False), ("\r", a, True), ("rest of it", a, False)], 0)
                h.finish()
    for _ in range(150 if ctx.quick else 5000):
        h = History(ctx, consoles, "N-newlines-random")
        for _ in range(rng.randint(1, 3)):
            h.new(rng.choice(mk_styles)() if rng.random() < 0.6 else rand_style(rng)[0])
        segs = []
        for _ in range(rng.randint(1, 4)):
            control = rng.random() < 0.12
            tx = rng.choice(["\r", "ctl\nx"]) if control else rng.choice(texts + ["abc", "", "0123456789", " "])
            segs.append((tx, rng.randrange(len(h.objs)) if rng.random() < 0.8 else None, control))
        one(h, rand_cfg(rng), rng.choice([4, 8, 8, 15, WIDTH]), segs, rng.choice([0, 0, 1, 2]))
        h.finish()
    ctx.flush()


def _print_histories(ctx, consoles):
    """`console.print` as a modelled operation (`P@`, Model/AnsiPrint.lean): real renderables — raw segments, `str`,
    `Text` with a whole-text style, spans, `end` — printed with and without `style=`, crop on / off, `soft_wrap` on the
    call and on the console, on wide and narrow consoles of every configuration, interleaved with `_render_buffer` /
    `Style.render` on the same shared objects (the caches are state)."""
    from rich.console import Console
    from rich.segment import Segment
    from rich.style import Style
    from rich.text import Text

    rng = ctx.rng
    cons = {}

    def console(cfg, width, csoft):
        key = (cfg, width, csoft)
        c = cons.get(key)
        if c is None:
            cs, nc, t, lw = cfg
            c = cons[key] = Console(file=io.StringIO(), force_terminal=bool(t), color_system=CS_NAMES[cs], no_color=bool(nc),
                                    legacy_windows=bool(lw), width=width, soft_wrap=bool(csoft), _environ={}, markup=False, emoji=False,
                                    highlight=False)
        c.file = io.StringIO()
        return c

    def mk_styles():
        return [Style(bold=True, color="red"), Style(color="#ff8800", bgcolor="color(100)", link="http://p"), Style(bgcolor="blue", underline=True, bold=False),
                Style(italic=True, link="x"), Style(), Style.null(), Style(dim=True), Style(color="color(9)", strike=True, overline=True)]

    raw_texts = ["ab", "ab\ncd", "x\n", "\n", "a long line of thirty characters\nshort", "0123456789", "あい", "wide あいう end", "", " ", "tail\n\n"]

    def renderable(h, usable, kind):
        """(renderable, description); Style objects inside it come from the shared handles `usable`"""
        pick = lambda: h.objs[rng.choice(usable)]
        if kind == 0:    # raw segments, control segments included
            segs = []
            for _ in range(rng.randint(1, 4)):
                control = rng.random() < 0.15
                tx = rng.choice(["\r", "ctl"]) if control else rng.choice(raw_texts)
                segs.append(Segment(tx, pick() if rng.random() < 0.7 else None, control))
            return SegsRenderable(segs), "segments(%r)" % [sg.text for sg in segs]
        if kind == 1:    # a plain string
            tx = rng.choice(["hello", "two words", "a rather long sentence that has to wrap somewhere", "x\ny", ""])
            return tx, "str(%r)" % tx
        if kind == 2:    # Text with a whole-text Style object and an `end`
            tx = rng.choice(["hello", "two words here", "line\nbreak", "0123456789abcdef"])
            end = rng.choice(["\n", "", "!\n"])
            return Text(tx, style=pick(), end=end), "Text(%r, style, end=%r)" % (tx, end)
        tx = rng.choice(["hello world", "spans over several words", "ab"])   # Text with spans of shared Style objects
        txt = Text(tx, style=pick() if rng.random() < 0.5 else "", end=rng.choice(["\n", ""]))
        for _ in range(rng.randint(1, 3)):
            a = rng.randrange(len(tx))
            txt.stylize(pick(), a, rng.randint(a, len(tx)))
        return txt, "Text(%r, %d spans)" % (tx, len(txt.spans))

    def one_history(label, cfgs, widths, n_calls):
        h = History(ctx, consoles, label)
        usable = [h.new(st) for st in rng.sample(mk_styles(), rng.randint(2, 5))]
        if rng.random() < 0.3:
            usable.append(h.new(rand_style(rng)[0]))
        for _ in range(n_calls):
            cfg = rng.choice(cfgs)
            r = rng.random()
            if r < 0.15:
                h.write(cfg, [(rng.choice(["x", "ab"]), rng.choice(usable), False)], 0)
                continue
            if r < 0.25:
                h.style_render(rng.choice(usable), "q", rng.randrange(5), 0)
                continue
            width = rng.choice(widths)
            csoft = int(rng.random() < 0.15)
            rd, what = renderable(h, usable, rng.randrange(4))
            h.print_call(console(cfg, width, csoft), cfg, width, csoft, rd, rng.choice(usable) if rng.random() < 0.6 else None,
                         rng.choice([None, None, 0, 1]), rng.choice([None, None, None, 0, 1]), what)
        h.finish()

    # bounded-exhaustive: every style= kind x every own-style kind x control x crop route x 5 colour systems
    kinds = mk_styles()
    for si in range(len(kinds) + 1):
        for oi in range(len(kinds) + 1):
            for cs in range(5):
                h = History(ctx, consoles, "P-print-exh")
                objs = [h.new(st) for st in mk_styles()]
                cfg = (cs, (si + oi) % 2 if cs else 0, 0 if (si + 2 * oi + cs) % 5 == 0 else 1, (si + oi + cs) % 3 == 0)
                cfg = (cfg[0], cfg[1], cfg[2], int(cfg[3]))
                own = None if oi == len(kinds) else h.objs[objs[oi]]
                segs = [Segment("ab\ncd", own), Segment("\r", own, True), Segment("e", own)]
                for crop, soft, width in ((None, None, WIDTH), (None, None, 3), (0, None, 3), (None, 1, 3)):
                    h.print_call(console(cfg, width, 0), cfg, width, 0, SegsRenderable(segs), None if si == len(kinds) else objs[si], crop, soft, "segments(own=%s)" % oi)
                h.finish()
    cfgs = all_cfgs()
    for _ in range(250 if ctx.quick else 20000):
        one_history("P-print-random", cfgs, [3, 5, 8, 20, WIDTH], rng.randint(2, 6))
    ctx.flush()


def _tokenizer_cross_check(ctx):
    """The Lean tokenizer (`AnsiTerm.tokenize`, about which `tokenize_reads_back` is proved) against the independent
    term.py tokenizer on synthetic streams: SGR with empty / zero-padded / many parameters, OSC 8 terminated by ST or
    BEL, text containing digits, ';', 'm', '[', ']' and C0 controls."""
    rng = ctx.rng
    pieces = ["x", "ab", "1;2", "m", "[0m", "]8;;", "\n", "\t", "é", "😽", ";", "0", "\\", "8;"]
    sgrs = ["", "0", "1", "01", "1;31", ";", ";1", "1;", "38;5;196", "38;2;1;2;3;48;5;0", "000", "4;;5", "107", "21;51;52;53"]
    def osc(rng):
        params = rng.choice(["", "id=1.5-7", "id=*", "a=b:c=d"])
        uri = rng.choice(["", "http://x", "a;b;c", "file:///p q", "ü"])
        return "\x1b]8;%s;%s%s" % (params, uri, rng.choice(["\x1b\\", "\x07"]))
    def go(sx, shape):
        canon = A.canon_tokens(term.tokenize(sx))
        if canon is None:
            ctx.note("tokenizer-foreign")
            return
        ctx.case("c03_tokenize", [enc_str(sx)], A.enc_tokens(canon), shape=shape, sample="tokenize(%r)" % sx)
    for p in sgrs:
        go("\x1b[%sm" % p, "W-sgr")
        go("a\x1b[%smb\x1b[0m" % p, "W-sgr")
    for _ in range(1500 if ctx.quick else 30000):
        parts = []
        for _ in range(rng.randint(1, 8)):
            r = rng.random()
            if r < 0.4:
                parts.append(rng.choice(pieces))
            elif r < 0.75:
                parts.append("\x1b[%sm" % rng.choice(sgrs))
            else:
                parts.append(osc(rng))
        go("".join(parts), "W-random")
    # texts with a harmless ESC (`SafeText` of Lemmas/AnsiSafe.lean: every ESC followed, inside the text, by something other
    # than `[` / `]`): the expected reading is known by construction (`tokenize_reads_back_safe`); and texts that embed a
    # whole sequence: it is executed in place (`embedded_sequences_are_executed`)
    tails = ["c", "7", "\x1b(", "M", " ", "m", "0", "\\", "é"]
    for k in range(300 if ctx.quick else 5000):
        t = "".join(rng.choice(["a", "1;", "\x1b" + rng.choice(tails), "[", "]8;;", "m"]) for _ in range(rng.randint(1, 6)))
        if t.endswith("\x1b"):
            t += "c"
        ps = tuple(rng.choice([(0,), (1, 31), (38, 5, 9), (53,)]))
        sx = "\x1b[%sm%s\x1b[0m" % (";".join(map(str, ps)), t)
        ctx.case("c03_tokenize", [enc_str(sx)], A.enc_tokens([("G", ps), ("T", t), ("G", (0,))]), shape="W-safe-esc", sample="tokenize(%r)" % sx)
        inner = "\x1b[%sm" % ";".join(map(str, ps))
        sx2 = "ab" + inner + "cd"      # one text "ab<ESC>[..mcd" on the wire
        ctx.case("c03_tokenize", [enc_str(sx2)], A.enc_tokens([("T", "ab"), ("G", ps), ("T", "cd")]), shape="W-embedded", sample="tokenize(%r)" % sx2)
    ctx.flush()


def _annotate_mismatches(ctx):
    """For every disagreement in the characters written, say whether the MEANING differs too: both streams are read by
    term.py and the Python interpreter.  The note lands in the replay file ("meaning preserved, bytes differ" = the code
    writes other bytes than the model for a stream a terminal shows identically)."""
    from core import dec_str

    stats = {"meaning preserved, bytes differ": 0, "meaning differs": 0, "raises or stops": 0}
    for m in ctx.mismatches:
        if not m["request"].startswith("c03_chars\t"):
            continue
        a, b = m["model"].split("~"), m["impl"].split("~")
        note = None
        if len(a) != len(b):
            note = "raises or stops"
        else:
            for x, y in zip(a, b):
                if x == y:
                    continue
                if not (x.startswith("ok ") and y.startswith("ok ")):
                    note = "raises or stops"
                    break
                ix = A.Interp().feed(term.tokenize(dec_str(x[3:])))
                iy = A.Interp().feed(term.tokenize(dec_str(y[3:])))
                same = ix.cells == iy.cells and ix.state() == iy.state() and ix.foreign == iy.foreign
                if not same:
                    note = "meaning differs"
                    break
                note = "meaning preserved, bytes differ"
        if note:
            m["note"] = note
            stats[note] += 1
    ctx.mismatches.sort(key=lambda m: 0 if "note" in m else 1)   # the annotated ones first: the replay file shows the first ten
    if any(stats.values()):
        ctx.extra_cov["c03_character_mismatches_by_meaning"] = stats
        for k2, v2 in stats.items():
            if v2:
                ctx.note("MISMATCH-MEANING:" + k2, v2)


def _interpreter_cross_check(ctx):
    rng = ctx.rng
    all_on = ("SGR", (1, 2, 3, 4, 5, 6, 7, 8, 9, 21, 51, 52, 53, 31, 42))

    def go(tokens, shape):
        it = A.Interp().feed(tokens)
        canon = A.canon_tokens(tokens)
        ctx.case("c03_interp", [A.enc_tokens(canon)], A.enc_cells(it.cells) + "!" + A.enc_look(it.state()), shape=shape,
                 sample="interp(%r)" % (tokens,))

    for p in range(0, 111):
        go([("SGR", (p,)), ("T", "a")], "single")
        go([all_on, ("T", "a"), ("SGR", (p,)), ("T", "b")], "after-all-on")
        go([all_on, ("SGR", (p, 1, 38, 5, p)), ("T", "b"), ("SGR", (48, 2, p, 0, 255, p)), ("T", "c")], "mixed")
    for ps in [(), (38,), (38, 5), (38, 2, 1, 2), (38, 7, 1, 1), (48,), (48, 5), (48, 2, 9), (38, 5, 300), (1, 38, 5, 9, 4), (38, 2, 1, 2, 3, 4),
               (0, 1), (1, 0), (22, 1), (1, 22, 2), (4, 21, 24), (5, 6, 25), (51, 52, 54), (53, 55), (39, 49), (38, 5, 1, 48, 5, 2, 39)]:
        go([all_on, ("T", "x"), ("SGR", ps), ("T", "y")], "special")
    params = [0, 1, 2, 3, 4, 5, 6, 7, 8, 9, 21, 22, 23, 24, 25, 27, 28, 29, 30, 37, 38, 39, 40, 47, 48, 49, 51, 52, 53, 54, 55, 90, 97, 100, 107, 5, 2, 200, 10, 26, 50, 56, 89, 98, 108]
    for _ in range(1500 if ctx.quick else 20000):
        toks = []
        for _ in range(rng.randint(1, 7)):
            r = rng.random()
            if r < 0.55:
                toks.append(("SGR", tuple(rng.choice(params) for _ in range(rng.randint(0, 6)))))
            elif r < 0.8:
                toks.append(("T", rng.choice(["a", "bc", "é", " "])))
            elif r < 0.9:
                toks.append(("OSC8", rng.choice(["", "id=7", "id=*"]), rng.choice(["", "http://u", "x"])))
            else:
                toks.append(rng.choice([("LF",), ("CR",), ("TAB",)]))
        go(toks, "random")
    ctx.flush()


def _public_api_histories(ctx, consoles):
    """Only public calls: `Style.parse` (whose lru_cache hands the same object to every console) and
    `console.print(Text(..., style=<definition>))`.  The definitions are unique per run so that the objects are fresh."""
    from rich.console import Console
    from rich.style import Style
    from rich.text import Text

    rng = ctx.rng
    defs = ["#ff8800", "bold #0000ff on #00ff00", "color(208)", "on color(100)", "italic rgb(10,200,30) on #101010", "bright_red on color(17)",
            "underline #7f7f7f", "rgb(250,250,250) link http://q"]
    clear = getattr(Style.parse, "cache_clear", None)
    if clear is not None:
        clear()
    serial = 0
    for d in defs:
        for cs1, cs2 in itertools.permutations((3, 2, 1, 4), 2):
            # a spelling never used before: the lru_cache (keyed by the string) creates a new object for this history
            serial += 1
            definition = " " * serial + d
            h = History(ctx, consoles, "E6-public")
            outs = []
            for cs in (cs1, cs2):
                con = Console(file=io.StringIO(), force_terminal=True, color_system=CS_NAMES[cs], width=80, _environ={}, legacy_windows=False)
                try:
                    con.print(Text("x", style=definition, end=""))
                    outs.append(con.file.getvalue())
                except BaseException as e:  # noqa: BLE001
                    if isinstance(e, (KeyboardInterrupt, SystemExit)):
                        raise
                    outs.append(e)
            try:
                style = Style.parse(definition)
            except BaseException as e:  # noqa: BLE001
                if isinstance(e, (KeyboardInterrupt, SystemExit)):
                    raise
                ctx.check(False, "Style.parse", definition, f"raised {type(e).__name__}")
                continue
            s0 = h.new(style, f"Style.parse({definition!r})")
            for cs, out in zip((cs1, cs2), outs):
                # Console.get_style hands out `style.copy()` when the style has a link (console.py get_style)
                s = h.copy(s0) if style.link else s0
                h.ops.append("R@%s@%s" % (A.enc_cfg(cs, 0, 1, 0), A.enc_segs([("x", s, False)])))
                h.readable.append("Console(color_system=%r).print(Text('x', style=%r, end=''))" % (CS_NAMES[cs], definition))
                exp = h.expected_cells((cs, 0, 1, 0), [("x", s, False)])
                it = h._record(out, exp, True)
                if it is None:
                    ctx.check(False, "console.print", h.describe(), f"raised {type(out).__name__}: {out}")
                    break
                finding = None
                if it.cells != exp and it.cells == h.expected_cells((cs1, 0, 1, 0), [("x", s, False)]):
                    finding = SLUG_STALE
                if cs == cs1 and not style.link:
                    h.first_cs[s] = cs
                ctx.check(it.cells == exp, "console.print:stream_means_segments", h.describe(),
                          "interpreting %r gives %s, the style says %s" % (out, A.enc_cells(it.cells), A.enc_cells(exp)), finding=finding)
                ctx.check(it.state() == A.PLAIN, "console.print:no_leak", h.describe(), "terminal left in state %s" % A.enc_look(it.state()))
            h.finish()


def replay(ctx, case):
    print("site:", case.get("site"))
    print("input:", case.get("input"))
    print("what:", case.get("what"))
    print("re-run `./check C03` to re-evaluate (the generators are seeded: VERIF_SEED=%s)" % case.get("seed"))
    return False


MANIFEST = {
    "text": "Lean 4 theorems (Props/C03.lean; no bound on the number or length of segments, the number of Style objects or the length of a "
    "history; styles are not enumerated) about an executable model of Style._make_ansi_codes (with the per-object _ansi cache as explicit "
    "state), Style.render, Segment.remove_color and Console._render_buffer, decoded by an independent terminal model written from ECMA-48 / "
    "xterm / OSC 8 (Model/AnsiTerm.lean: a character-level tokenizer `tokenize` and an SGR / hyperlink interpreter `interp`). "
    "stream_means_segments_chars — the property's own words: for every configuration (colour system None|standard|256|truecolor|windows x "
    "NO_COLOR x terminal x legacy Windows), every heap of shared Style objects with sound caches and every segment list without ESC in its "
    "texts, the CHARACTERS _render_buffer returns, read by the terminal's tokenizer and interpreted from the default state, are exactly the "
    "characters to be shown, each with the attributes that are set and true, the down-converted colours (C18's downgrade) and the hyperlink "
    "of its style, and the terminal is left in its default state (no leak). history_means_segments(_chars): the same over every history of new "
    "styles, copy(), update_link(), _render_buffer on consoles of changing configuration and direct Style.render calls (the cache is state; "
    "invariant: every cache entry is what would be computed afresh for the colour system it is tagged with). tokens_are_cache_free: the output "
    "is token for token that of brand-new objects. tokenize_reads_back: the wire format (decimal digits, ';', ESC [ .. m, OSC 8 with ST / BEL) "
    "reads back for every well-formed token list. colour_none_no_escape and no_color_no_colour_params hold for both code variants; "
    "not_terminal_no_control(_tokens): on a non-terminal control segments are as if absent, token for token in every configuration. "
    "raises_only_for_ill_formed_colour: _render_buffer raises only with colour on, NO_COLOR off and an ill-formed Color object in the heap. "
    "old_stale_ansi_cache / old_history_violates / old_styled_control_written are machine-checked witnesses that rich 9.10.0 as found violated "
    "the statements (fixed in c9ec5a8, 23674a1). Tie: ~70k (quick) / ~1M (thorough) requests per run; each history is executed on real rich "
    "(Console._render_buffer, console.print with and without crop, console.capture, Style.render, bell/clear/show_cursor/control; consoles built "
    "explicitly and through the option handling of Console.__init__; ONE console whose target file / isatty / NO_COLOR / legacy_windows change "
    "between writes; styles shared through the Style.parse cache, through themes, and through +/copy/update_link/without_color chains on "
    "already-rendered objects) and on the model, compared in five views (characters, tokens, interpreter run, specification, Lean tokenizer "
    "on the real characters vs term.py), plus the theorems' executable statements evaluated on rich's own output with a second, table-driven "
    "Python interpreter and an oracle that computes the down-conversion from the raw palettes. "
    "Deepening round 4 (45 theorems now): console.print is a modelled operation (Model/AnsiPrint.lean): from the segments Console.render "
    "yields for the renderables (input) through Segment.apply_style with Style.__add__ on the shared objects (same object back for a None / "
    "null operand, a new object with an empty cache otherwise), the soft_wrap / crop resolution, Segment.split_and_crop_lines at the console "
    "width with rich's own cell-width table, _buffer, _render_buffer, the write. print_means_segments: for every configuration, width, "
    "cell-width function and call, nothing raises, the appended segments carry as values `style + own style`, and the terminal model shows "
    "exactly expectedCells of what was appended, ends in its default state, caches stay sound; print_crop_adds_no_esc; "
    "print_means_segments_chars_partial (characters; only without style=); print_step_sound. ESC inside text: tokenize_reads_back_safe "
    "weakens `no ESC` to SafeText (every ESC followed inside the text by something other than [ and ]); embedded_sequences_are_executed "
    "says what the terminal model shows when a text does contain sequences; esc_in_text_breaks_chars_statement and "
    "trailing_esc_joins_next_segment are decide-witnesses that neither hypothesis can be dropped. Tables: ansi_codes_table "
    "(Color.get_ansi_codes for every ColorType x fg/bg incl. the assertion branches), attr_codes_table / style_map_rows "
    "(_make_ansi_codes against Style._style_map for every attribute word). New tie: op `P@` in all views plus c03_pbuf (the segments print "
    "appended to _buffer, styles by value) on real renderables (raw segments incl. control / embedded line feeds / wide characters, str, "
    "Text with style, spans, end) x style= x crop x soft_wrap (call and console) x widths 3..400 x 40 configurations, interleaved with "
    "_render_buffer / Style.render on the same objects: 405 exhaustive-block + 250 random histories quick (20,000 thorough), ~2,300 direct "
    "evaluations of print_means_segments / no_leak / buffer with an oracle that knows neither Style.__add__ nor split_and_crop_lines; "
    "E1x: all 2^13 attribute words in the thorough tier (384 sampled in quick) through Style.render x 2 colour systems and NO_COLOR "
    "_render_buffer; W-safe-esc / W-embedded 600 tokenizer cases (5,000 each thorough).",
    "note": "Hypotheses of the character-level theorems: no ESC in segment texts, no ESC / BEL in links (NoEscIn / OpsClean) — control "
    "segments that carry escape sequences are covered at token level and by the correspondence only. Assumed / parameters: C18's colour "
    "model incl. its float parameter satExc; Style.__hash__ agrees with __eq__ (C06) so the dict in remove_color is lookup by ==; the random "
    "link id is masked; legacy_windows only as the flag the code branches on; jupyter and real Windows consoles are outside the model; the "
    "crop path of console.print is modelled with C13's splitAndCropLines (proved properties of the crop itself are C13's); what "
    "Console.render yields for a renderable (Text.render, wrapping, Style.combine for spans) is INPUT to the print model, observed on the "
    "real call by a pass-through wrapper — C05 / C02 / C15 own that part; the character-level print theorem is partial (no style=); "
    "histories with prints have a step theorem (print_step_sound), not a cache-free history specification; the direct-evaluation oracle "
    "for the crop is ASCII-only (wide characters through the crop are compared with the model only). A disagreement in bytes that a terminal "
    "shows identically is reported as no-failing-input-found with the note 'meaning preserved, bytes differ'. Code variant flags (values "
    "match /repo now; 1 = rich 9.10.0 as found): ANSI_CACHE_UNKEYED = 0 (fix c9ec5a8), STYLED_CONTROL_KEPT = 0 (fix 23674a1), "
    "STD_VIA_PALETTE = 0 (C18's flag, fix 2cec9e1). No known finding is open for C03: both defects found are fixed, the check prints no "
    "KNOWN-FINDING line. Trusted: Lean kernel; axioms "
    "propext/Classical.choice/Quot.sound; translator for the palettes; the correspondence harness (generators, term.py, lib_c03.Interp).",
    "design_ref": "DESIGN.md section 7, C03",
}
