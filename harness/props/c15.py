"""C15 — recording, capture and export agree with what was written.

Correspondence: Lean model (Model/Console.lean: buffer / _check_buffer / _render_buffer / capture / `with console:` /
export_text / export_html) vs rich.console.Console, in-process, on operation histories.  What print/log/rule/out put into
the thread's buffer is observed (SpyList) and handed to the model; everything downstream - what reaches the file and
when, the record, what a capture returns, every export - is computed by the model and compared.  The segments appended by
line/control/bell/clear/show_cursor are predicted by the model, not observed.  On "plain" consoles (markup / emoji /
highlight off) what print of strings / out / rule without title / print() append is DERIVED by the model as well
(Model/ConsolePrint.lean, request c15_derive) and compared with what rich appended; for log(*strings) with the time and
path columns on or off the characters of the LogRender grid are derived too (Model/ConsoleLog.lean = the composition layer's
table model with text cells, request c15_log; the time display and the caller are inputs).  A running Live display is driven
through its public API; the console calls rich makes on its behalf (show_cursor, `with console:`, print, line, control) are
logged by instance-level wrappers (Tracer) and become the model's operations.  save_text / save_html are export_* plus
a file that is read back.  Round 4: `export_html(code_format=fmt)` with the format string handed to the model AS A STRING (request
c15_htmlfmt: the model scans it like str.format - doubled braces, single braces, unknown / numbered fields - and answers the document or
the exception, and the record afterwards), and the time cells of consecutive log calls under a varying clock (c15_logtimes:
LogRender._last_time is model state).

Direct evaluation (DESIGN 3d): the executable statements of the theorems in Props/C15.lean on rich's own outputs,
with oracles that do not use the model: a terminal-stream tokenizer, html.parser, and a twin console for captures
(it replays the history so far without the capture blocks, then runs the block's operations outside a capture).
"""
import copy
import datetime
import html as _html
import itertools
import os
import string

import functools

from core import enc_bool, enc_opt
from lib_c15 import PROBE, LogFile, SpyList, Tracer, canon, decode, loose_params, read_html, visible, _canon_params

PROPERTY = "C15"


def enc_str(s):
    """Same encoding as core.enc_str (space-separated decimal code points), faster on long strings."""
    return " ".join(map(str, map(ord, s)))


def enc_str_list(l):
    return f"{len(l)}:" + ",".join(enc_str(x) for x in l)


# CODE VARIANT FLAGS — the variant of the code the model is compared with (Model/Console.lean `Variant`).
# Values match /repo as it is now: all defects are repaired there (RECORD_IN_RENDER, MERGE_CTL: 0 is the repaired value; ESCAPE_HREF,
# CAPTURE_MARKS: 1 is the repaired value; the other value is rich 9.10.0 as found).
# (For checking another checkout:  VERIF_REPO=<worktree> VERIF_C15_FLAGS=<4 digits> ./check C15  overrides them for one run.)
RECORD_IN_RENDER = 0  # 1: `_render_buffer` appends to the record, so `end_capture` records (F17).  0: repaired (fix 114bbe8).
MERGE_CTL = 0  # 0: Segment.simplify never merges into/after a control segment (F18 repaired in b97fe77).
ESCAPE_HREF = 1  # 0: export_html writes style.link verbatim into href="…".  1: repaired (html.escape; fix e488480).
CAPTURE_MARKS = 1  # 0: end_capture returns (and empties) the whole thread buffer, so nested blocks steal.  1: repaired (fix 1202b8a).

if os.environ.get("VERIF_C15_FLAGS"):
    RECORD_IN_RENDER, MERGE_CTL, ESCAPE_HREF, CAPTURE_MARKS = (int(ch) for ch in os.environ["VERIF_C15_FLAGS"])

FIXED_DT = datetime.datetime(2020, 1, 2, 3, 4, 5)
CTL_CODES = ["\x07", "\x1b[2J", "\x1b[H", "\x1b[1A\x1b[2K", "\r", "\x1b[?25l", "\x08"]
CUSTOM_FMT = "<style>\n{stylesheet}\n</style>{{{foreground}|{background}}}<pre>{code}</pre>{{}}"
CUSTOM_THEME = ((10, 20, 30), (200, 210, 220), [(i * 30, 255 - i * 30, i * 7) for i in range(8)])


# ------------------------------------------------------------------ building real objects from descriptors
def S(st):
    """Style descriptor -> what is handed to rich: a style definition string, or a Style that `Style.parse` cannot express."""
    if st == "@emptylink":
        from rich.style import Style

        return Style(bold=True, link="")
    return st


def kwargs_of(kw):
    return {k: (S(v) if k == "style" else v) for k, v in kw.items()}


def build(r):
    from rich.control import Control
    from rich.padding import Padding
    from rich.panel import Panel
    from rich.styled import Styled
    from rich.table import Table
    from rich.text import Text

    k = r[0]
    if k == "s":
        return r[1]
    if k == "t":
        t = Text(r[1], style=S(r[2]) or "", justify=r[4] if len(r) > 4 else None)
        for a, b, st in r[3]:
            t.stylize(S(st), a, b)
        return t
    if k == "ctl":
        return Control(r[1])
    if k == "sctl":  # a control segment that carries a style (what LiveRender / Segment.make_control produce)
        return _StyledControl(r[1], S(r[2]))
    if k == "panel":
        return Panel(build(r[1]), title=r[2], style=r[3] or "none")
    if k == "pad":
        return Padding(build(r[1]), r[2], style=r[3] or "none")
    if k == "styled":
        return Styled(build(r[1]), S(r[2]))
    if k == "table":
        t = Table(*r[1], show_header=r[3], style=r[4] or "none")
        for row in r[2]:
            t.add_row(*row)
        return t
    raise ValueError(r)


class _StyledControl:
    def __init__(self, text, style):
        self.text, self.style = text, style

    def __rich_console__(self, console, options):
        from rich.segment import Segment

        yield Segment.control(self.text, console.get_style(self.style))


def make_console(cfg, record=None):
    from rich.console import Console

    f = LogFile()
    c = Console(
        file=f,
        width=cfg["width"],
        height=25,
        force_terminal=cfg["force_terminal"],
        force_jupyter=False,
        color_system=cfg["color_system"],
        no_color=cfg["no_color"],
        legacy_windows=cfg["legacy_windows"],
        record=cfg["record"] if record is None else record,
        _environ=dict(cfg["environ"]),
        log_time=cfg["log_time"],
        log_path=bool(cfg.get("log_path")),
        get_datetime=lambda: FIXED_DT,
        **({"markup": False, "emoji": False, "highlight": False} if cfg.get("plain") else {}),
    )
    spy = SpyList()
    c._thread_locals.buffer = spy
    c._c15_tracer = Tracer(c, spy)
    c._c15_live = None
    c._c15_cm = bool(cfg.get("cm"))  # harness-side attributes: capture through `with console.capture()` or begin/end_capture
    c._c15_caps = []
    return c, f, spy


def model_config(cfg):
    """The model's Config, derived from the constructor arguments (not from the console's attributes)."""
    env = cfg["environ"]
    return "".join(
        enc_bool(b)
        for b in (
            cfg["record"],
            cfg["color_system"] is None,
            bool(cfg["force_terminal"]),  # LogFile.isatty() is False
            env.get("TERM", "").lower() in ("dumb", "unknown"),
            cfg["no_color"] if cfg["no_color"] is not None else "NO_COLOR" in env,
            cfg["legacy_windows"],
        )
    )


def _log(c, objs, kw):
    c.log(*objs, **kw)  # one call site, so that `log_path`-like data would be the same on a twin


def apply(c, op, theme):
    from rich.console import CaptureError

    k = op[0]
    if k == "print":
        return c.print(*[build(r) for r in op[1]], **kwargs_of(op[2]))
    if k == "log":
        return _log(c, [build(r) for r in op[1]], kwargs_of(op[2]))
    if k == "rule":
        return c.rule(build(op[1]), **kwargs_of(op[2]))
    if k == "out":
        return c.out(*op[1], **kwargs_of(op[2]))
    if k == "print0":
        return c.print()
    if k == "log0":
        return c.log()
    if k == "line":
        return c.line(op[1])
    if k == "control":
        return c.control(op[1])
    if k == "bell":
        return c.bell()
    if k == "clear":
        return c.clear(op[1])
    if k == "cursor":
        return c.show_cursor(op[1])
    if k == "begin":
        if getattr(c, "_c15_cm", False):  # through the public context manager
            cap = c.capture()
            try:
                cap.get()
                raise AssertionError("Capture.get() before the block ended did not raise CaptureError")
            except CaptureError:
                pass
            cap.__enter__()
            c._c15_caps.append(cap)
            return None
        return c.begin_capture()
    if k == "end":
        if getattr(c, "_c15_cm", False) and c._c15_caps:
            cap = c._c15_caps.pop()
            cap.__exit__(None, None, None)
            return cap.get()
        return c.end_capture()
    if k == "text":
        return c.export_text(clear=op[1], styles=op[2])
    if k == "html":
        return c.export_html(clear=op[1], inline_styles=op[2], code_format=op[3], theme=theme)
    if k == "save_text":
        path = _scratch_path()
        c.save_text(path, clear=op[1], styles=op[2])
        with open(path, encoding="utf-8", newline="") as fh:
            return fh.read()
    if k == "save_html":
        path = _scratch_path()
        kw = {} if op[3] is None else {"code_format": op[3]}
        c.save_html(path, clear=op[1], inline_styles=op[2], theme=theme, **kw)
        with open(path, encoding="utf-8", newline="") as fh:
            return fh.read()
    if k == "enter":
        c.__enter__()
        return None
    if k == "exit":
        c.__exit__(None, None, None)
        return None
    if k == "live_start":
        from rich.live import Live

        if c._c15_live is None:
            c._c15_live = Live(build(op[1]), console=c, auto_refresh=False, transient=op[2], redirect_stdout=False, redirect_stderr=False, vertical_overflow=op[3])
        c._c15_live.start()
        return None
    if k == "live_update":
        if c._c15_live is not None:
            c._c15_live.update(build(op[1]), refresh=op[2])
        return None
    if k == "live_refresh":
        if c._c15_live is not None:
            c._c15_live.refresh()
        return None
    if k == "live_stop":
        if c._c15_live is not None:
            c._c15_live.stop()
        return None
    raise ValueError(op)


_SCRATCH = {"dir": None}


def _scratch_path():
    import tempfile

    if _SCRATCH["dir"] is None:
        _SCRATCH["dir"] = tempfile.mkdtemp(prefix="c15-save-")
    return os.path.join(_SCRATCH["dir"], "out.txt")


PRINTLIKE = ("print", "log", "rule", "out", "print0", "log0")
EXPORTS = ("text", "html", "save_text", "save_html")
LIVE = ("live_start", "live_update", "live_refresh", "live_stop")


def fresh(st):
    """A copy of a Style whose `_ansi` cache is empty (probing a copy leaves the original untouched)."""
    s = copy.copy(st)
    s._ansi = None
    return s


class Enc:
    """Style ids: one id per `==` class, in order of first appearance."""

    def __init__(self):
        self.reps = []

    def sid(self, st):
        if st is None:
            return None
        for i, r in enumerate(self.reps):
            if r == st:
                return i + 1
        self.reps.append(st)
        return len(self.reps)

    def seg(self, s):
        return f"{enc_str(s.text)};{enc_opt(self.sid(s.style))};{enc_bool(bool(s.is_control))}"

    def line(self, l):
        return "|".join(self.seg(s) for s in l)

    def table(self, cs, lw, theme):
        """The StyleEnv rows (parameters of the model), read off real Style objects."""
        rows = []
        i = 0
        while i < len(self.reps):  # `without_color` may add ids
            st = self.reps[i]
            i += 1
            if cs is None:
                pre = post = ""
            else:
                pre, post = canon(fresh(st).render(PROBE, color_system=cs, legacy_windows=lw)).split(PROBE)
            pre_t, post_t = canon(fresh(st).render(PROBE)).split(PROBE)
            wc = self.sid(fresh(st).without_color)
            rule = st.get_html_style(theme)
            link = "-" if st.link is None else "=" + enc_str(st.link)
            rows.append("~".join([enc_bool(bool(st)), enc_str(pre), enc_str(post), enc_str(pre_t), enc_str(post_t), str(wc), enc_str(rule), link]))
        return f"{len(rows)}!" + "!".join(rows) if rows else "0"


FIELDS = {"code": "c", "stylesheet": "s", "foreground": "f", "background": "b"}


@functools.lru_cache(maxsize=64)
def template_items(fmt):
    items = []
    for lit, field, spec, conv in string.Formatter().parse(fmt):
        if lit:
            items.append("l" + enc_str(lit))
        if field is not None:
            if spec or conv or field not in FIELDS:
                return None
            items.append(FIELDS[field])
    return ",".join(items)


def encode_op(op, segs, enc, theme):
    from rich.console import CONSOLE_HTML_FORMAT
    from rich.terminal_theme import DEFAULT_TERMINAL_THEME

    k = op[0]
    if k in PRINTLIKE:
        return "P:" + enc.line(segs)
    if k == "enter":
        return "E"
    if k == "exit":
        return "X"
    if k == "line":
        return f"L:{op[1]}"
    if k == "control":
        return "C:" + enc_str(op[1])
    if k == "bell":
        return "B"
    if k == "clear":
        return "K:" + enc_bool(op[1])
    if k == "cursor":
        return "S:" + enc_bool(op[1])
    if k == "begin":
        return "<"
    if k == "end":
        return ">"
    if k in ("text", "save_text"):  # save_text / save_html are export_* followed by a file write
        return f"T:{enc_bool(op[1])}:{enc_bool(op[2])}"
    if k in ("html", "save_html"):
        t = theme or DEFAULT_TERMINAL_THEME
        items = template_items(CONSOLE_HTML_FORMAT if op[3] is None else op[3])
        if items is None:
            return "?"
        return f"H:{enc_bool(op[1])}:{enc_bool(op[2])}:{enc_str(t.foreground_color.hex)}:{enc_str(t.background_color.hex)}:{items}"
    raise ValueError(op)


def encode_events(events, enc):
    """Primitive console calls made by rich itself during one harness operation (Live.start / refresh / stop …)."""
    out = []
    for name, a, kw, segs in events:
        if name in ("print", "log", "rule", "out"):
            out.append("P:" + enc.line(segs))
        elif name == "line":
            out.append(f"L:{a[0] if a else kw.get('count', 1)}")
        elif name == "control":
            out.append("C:" + enc_str(str(a[0])))
        elif name == "bell":
            out.append("B")
        elif name == "clear":
            out.append("K:" + enc_bool(a[0] if a else kw.get("home", True)))
        elif name == "show_cursor":
            out.append("S:" + enc_bool(a[0] if a else kw.get("show", True)))
        elif name == "_enter_buffer":
            out.append("E")
        elif name == "_exit_buffer":
            out.append("X")
        else:
            raise ValueError(name)
    return out


def with_probes(ops, record):
    """Surround every export with a plain, non-clearing export (the reference the other exports are compared
    with, and the observation for the clear / no-clear statement).  These are ordinary operations: the model
    sees them too."""
    if not record:
        return list(ops)
    out = []
    for op in ops:
        if op[0] in EXPORTS:
            out += [("text", False, False), op, ("text", False, False)]
        else:
            out.append(op)
    return out


CLOSING = [("text", False, False), ("text", False, True), ("html", False, True, None), ("html", False, False, CUSTOM_FMT), ("text", True, False), ("text", False, False)]


# ------------------------------------------------------------------ the twin console (oracle for captures)
def twin_output(cfg, theme, ops_so_far, member_idx):
    """What the operations with indices `member_idx` (the direct content of a capture block) write to the file when they
    are run OUTSIDE a capture, in the same history: a second console with the same configuration replays the whole
    history so far without its capture blocks and exports (so that everything rendering depends on - the Live display's
    state and last shape, LogRender's last time - evolves exactly as on the real console) and the writes made during the
    member operations are collected."""
    twin, tf, _ = make_console(cfg, record=False)
    members = set(member_idx)
    out = []
    for j, o in enumerate(ops_so_far):
        if o[0] in ("begin", "end") or o[0] in EXPORTS:
            continue
        n = len(tf.writes)
        apply(twin, o, theme)
        if j in members:
            out.extend(tf.writes[n:])
    if twin._c15_live is not None and twin._c15_live._started:
        twin._c15_live.stop()
    return "".join(out)


# ------------------------------------------------------------------ derived (not observed) buffer appends: Model/ConsolePrint.lean
try:
    from props.c02 import FLAGS as WRAP_FLAGS  # the eight WVariant flags belong to properties C05 / C02 / C08
except Exception:  # pragma: no cover
    WRAP_FLAGS = "00000000"

OVERFLOW_CODE = {None: "-", "fold": "f", "crop": "c", "ellipsis": "e", "ignore": "i"}


def _optbool(b):
    return "-" if b is None else enc_bool(b)


try:
    from props.c01 import FLAGS as LAYOUT_FLAGS  # frames / text / table variant flags of the composition layer
except Exception:  # pragma: no cover
    LAYOUT_FLAGS = "0,00000000,0000000"


def derive_log_case(ctx, cfg, c, op, segs, time_shown_before):
    """log(*strings, sep=, end=) on a plain console: the model derives the characters of the LogRender grid
    (Model/ConsoleLog.lean: C07 table + C02/C05 text in its cells).  The time display and the caller are inputs computed
    here, not read from rich: FIXED_DT through the console's default "[%X]", blank when the same display was shown by
    an earlier log of this console; the caller is the Tracer wrapper in lib_c15.py."""
    kw = op[2]
    if not all(r[0] == "s" for r in op[1]) or not set(kw) <= {"sep", "end"}:
        return
    if cfg["log_time"]:
        disp = FIXED_DT.strftime("[%X]")
        time_cell = "=" + enc_str(" " * len(disp) if time_shown_before else disp)
    else:
        time_cell = "-"
    path_cell = "=" + enc_str(f"lib_c15.py:{c._c15_tracer.call_line}") if cfg.get("log_path") else "-"
    args = [LAYOUT_FLAGS, cfg["width"], time_cell, enc_str_list([r[1] for r in op[1]]), enc_str(kw.get("sep", " ")), enc_str(kw.get("end", "\n")), path_cell]
    ctx.case("c15_log", args, "ok:" + enc_str("".join(s.text for s in segs)), shape=f"time={cfg['log_time']},path={bool(cfg.get('log_path'))}",
             sample=f"width={cfg['width']} {op!r}" if len(repr(op)) < 200 else None)


def derive_case(ctx, cfg, c, op, segs):
    """For the simple paths the model derives what is appended to the buffer: compare with what rich appended."""
    from rich.style import Style

    k = op[0]
    enc = Enc()
    null_id = enc.sid(Style.null())
    head = [WRAP_FLAGS, cfg["width"], null_id]
    if k == "print0" or k == "log0":
        args = ["print0"]
    elif k == "print":
        kw = op[2]
        if not all(r[0] == "s" for r in op[1]) or not set(kw) <= {"sep", "end", "style", "overflow", "no_wrap", "width", "crop", "soft_wrap"}:
            return
        st = enc.sid(c.get_style(S(kw["style"]))) if "style" in kw else None
        args = ["print", enc_str_list([r[1] for r in op[1]]), enc_str(kw.get("sep", " ")), enc_str(kw.get("end", "\n")), enc_opt(st),
                OVERFLOW_CODE[kw.get("overflow")], _optbool(kw.get("no_wrap")), enc_opt(kw.get("width")), enc_bool(kw.get("crop", True)),
                _optbool(kw.get("soft_wrap")), "0"]
    elif k == "out":
        kw = op[2]
        if not set(kw) <= {"sep", "end", "style"}:
            return
        st = enc.sid(c.get_style(S(kw["style"]))) if "style" in kw else None
        args = ["out", enc_str_list(list(op[1])), enc_str(kw.get("sep", " ")), enc_str(kw.get("end", "\n")), enc_opt(st)]
    elif k == "rule":
        kw = op[2]
        if op[1] != ("s", "") or not set(kw) <= {"characters", "style", "align"}:
            return
        st = enc.sid(c.get_style(S(kw.get("style", "rule.line"))))
        args = ["rule", enc_str(kw.get("characters", "─")), st]
    else:
        return
    ctx.case("c15_derive", head + args, "ok:" + enc.line(segs), shape=k, sample=f"width={cfg['width']} {op!r}" if len(repr(op)) < 200 else None)


# ------------------------------------------------------------------ one history: run, evaluate the property, queue the correspondence
STATS = {"raised": 0, "histories": 0}


def eval_history(ctx, cfg, ops, tag):
    """One console, one history."""
    for _ in history_steps(ctx, cfg, ops, tag):
        pass


def eval_multi(ctx, cfgs, ops_lists, schedule, tag):
    """Several consoles alive in one process, their histories interleaved (`schedule`: which console makes its next
    operation).  Every console is judged exactly as if it were alone: its exports against ITS OWN file, its captures
    against its own twin, its own model instance (the model is per console: `consoles_do_not_interfere`)."""
    desc = {"configs": cfgs, "ops": ops_lists, "schedule": schedule}
    runs = [history_steps(ctx, cfg, ops, tag, desc=desc, site_suffix=" (several consoles)") for cfg, ops in zip(cfgs, ops_lists)]
    live = [True] * len(runs)
    for k in schedule:
        if live[k]:
            try:
                next(runs[k])
            except StopIteration:
                live[k] = False
    for k, r in enumerate(runs):  # whatever is left, and the comparison with the model
        if live[k]:
            for _ in r:
                pass
    ctx.note(f"consoles:{len(runs)}")


def multi_schedule(rng, cfgs, ops_lists):
    """A random interleaving: one entry per operation of every console (probes and closing exports included)."""
    sched = []
    for k, (cfg, ops) in enumerate(zip(cfgs, ops_lists)):
        n = len(with_probes(ops, cfg["record"])) + (len(CLOSING) if cfg["record"] else 0)
        sched += [k] * n
    rng.shuffle(sched)
    return sched


def history_steps(ctx, cfg, ops, tag, desc=None, site_suffix=""):
    """Generator: runs one console's history, yielding after every operation (so that several can be interleaved);
    when exhausted, the comparison with the model has been queued."""
    STATS["histories"] += 1
    _check = ctx.check
    outer = ctx

    class _Ctx:  # the sites of a several-consoles run are reported separately: their failing input is self-contained
        def __getattr__(self, name):
            return getattr(outer, name)

        def check(self, ok, site, inp, what, finding=None):
            return _check(ok, site + site_suffix, inp, what, finding=finding)

    ctx = _Ctx()
    from rich.color import ColorSystem
    from rich.console import COLOR_SYSTEMS
    from rich.terminal_theme import TerminalTheme

    theme = TerminalTheme(*CUSTOM_THEME) if cfg.get("theme") else None
    ops = with_probes(ops, cfg["record"])
    if cfg["record"]:
        ops = ops + CLOSING
    c, f, spy = make_console(cfg)
    tr = c._c15_tracer
    enc = Enc()
    enc_ops = []  # model operations (a Live operation expands to the primitive console calls rich made)
    model_outs = []  # one answer per model operation
    outs = []  # one answer per harness operation
    if desc is None:
        desc = {"config": cfg, "ops": ops}
    live_on = False
    time_shown = False

    since = []  # since the last clearing export: ("w", text written to the file) / ("c", text returned by a capture)
    caps = []  # open capture blocks
    # an end_capture without begin_capture happened, or the history uses `with console:` blocks (which the capture
    # statements do not speak about): the capture statements are not evaluated (everything is still compared with the model)
    unbalanced = any(o[0] in ("enter", "exit") for o in ops)
    last_plain = None  # (index of op, result) of the latest plain non-clearing export
    colour_on = cfg["color_system"] is not None and not (cfg["no_color"] if cfg["no_color"] is not None else "NO_COLOR" in cfg["environ"])

    for i, op in enumerate(ops):
        k = op[0]
        kk = {"save_text": "text", "save_html": "html"}.get(k, k)  # save_* = export_* + a file write
        spy.take()
        tr.take()
        w0 = len(f.writes)
        rec = list(c._record_buffer)
        try:
            res = apply(c, op, theme)
            err = None
        except AssertionError:
            res, err = None, "A"
            if k not in EXPORTS or cfg["record"]:
                ctx.check(False, k, desc, f"operation {i} {op!r} raised AssertionError")
                return
        except Exception as e:
            if k in PRINTLIKE:  # rendering raised: that is C14's subject; the history is dropped (and counted)
                ctx.note("render_raised:" + type(e).__name__)
                STATS["raised"] += 1
                return
            ctx.check(False, k, desc, f"operation {i} {op!r} raised {type(e).__name__}: {e}")
            return
        segs = spy.take()
        events = tr.take()
        new_writes = f.writes[w0:]
        ctx.note("op:" + k)
        out = "A" if err else "-" if res is None else ("c" if k == "end" else "e") + enc_str(canon(res))
        outs.append(out)
        if k in LIVE:
            prim = encode_events(events, enc)
            enc_ops.extend(prim)
            model_outs.extend("-" for _ in prim)
            ctx.note(f"live_primitives:{min(len(prim), 6)}")
            live_on = k != "live_stop" and c._c15_live is not None and c._c15_live._started
        else:
            enc_ops.append(encode_op(op, segs, enc, theme))
            model_outs.append(out)
            if cfg.get("plain") and not live_on and not err:
                if k == "log":
                    derive_log_case(ctx, cfg, c, op, segs, time_shown)
                else:
                    derive_case(ctx, cfg, c, op, segs)
        if k == "log" and not err and cfg["log_time"]:
            time_shown = True  # LogRender remembers the last time display, also when the log was captured

        # ---- direct evaluation of the property on what rich did
        if k == "end" and not caps:
            unbalanced = True
            ctx.note("unbalanced_end")
        if caps and not unbalanced:
            ctx.check(not new_writes, "capture", desc, f"op {i} {op!r} inside a capture block wrote {new_writes!r} to the file")
        if any(w == "" for w in new_writes):
            ctx.check(False, "file.write", desc, "an empty string was written")
        since.extend(("w", w) for w in new_writes)
        if k == "begin":
            caps.append({"idx": [], "nested": False})
        elif k == "end":
            if caps and unbalanced:
                caps.pop()
            elif caps:
                blk = caps.pop()

                want = twin_output(cfg, theme, ops[:i], blk["idx"])
                ok = canon(res) == canon(want)
                finding = None
                ctx.check(ok, "capture", desc, f"capture ending at op {i} returned {res!r}; the operations directly inside it, run outside a capture (after the same history), write {want!r}", finding=finding)
                ctx.note("capture:" + ("nested" if blk["nested"] or caps else "empty" if not want else "nonempty") + (":live" if live_on else ""))
                if caps:
                    caps[-1]["nested"] = True
            since.append(("c", res))
        elif k not in EXPORTS and caps:
            caps[-1]["idx"].append(i)
        if err:
            yield
            continue
        if kk == "text" and not op[2]:
            want = visible("".join(t for kind, t in since if kind == "w"))
            finding = None
            if res != want and res == visible("".join(t for _, t in since)) and any(kind == "c" and visible(t) for kind, t in since):
                finding = "capture-recorded"
            ctx.check(res == want, "export_text", desc, f"export_text at op {i} is {res!r}; the visible text written to the file since the last clearing export is {want!r}", finding=finding)
            if not op[1] and k == "text":
                last_plain = (i, res)
        elif kk == "text" and op[2]:
            ref = last_plain[1] if last_plain and last_plain[0] == i - 1 else None
            got = decode(res)
            if ref is not None:
                ctx.check("".join(x[0] for x in got) == ref, "export_text(styles)", desc, f"styled export at op {i} decodes to other characters than the plain export {ref!r}")
            want = []
            for s in rec:
                if s.is_control:
                    continue
                if s.style:
                    sg = _canon_params(fresh(s.style)._make_ansi_codes(ColorSystem.TRUECOLOR)) or None
                    want.extend((ch, sg, s.style.link or None) for ch in s.text)
                else:
                    want.extend((ch, None, None) for ch in s.text)
            ctx.check(got == want, "export_text(styles)", desc, f"styled export at op {i} does not decode to the recorded characters with their styles")
            # what the file shows of the same record: the record's style rendered for the console's colour system, the
            # colourless version under NO_COLOR, nothing without a colour system (export_styled_vs_file_without_colour)
            from rich.console import COLOR_SYSTEMS as _CS

            cs_now = None if cfg["color_system"] is None else _CS[cfg["color_system"]]
            no_col = cfg["no_color"] if cfg["no_color"] is not None else "NO_COLOR" in cfg["environ"]
            want_file = []
            for s_ in rec:
                if s_.is_control:
                    continue
                if s_.style and cs_now is not None:
                    st_ = fresh(s_.style).without_color if no_col else fresh(s_.style)
                    sg = st_._make_ansi_codes(cs_now) or None
                    ln = None if cfg["legacy_windows"] else (st_.link or None)
                    want_file.extend((ch, sg, ln) for ch in s_.text)
                else:
                    want_file.extend((ch, None, None) for ch in s_.text)
            got_file = decode("".join(t for kind, t in since if kind == "w"))
            ctx.check(got_file == want_file, "file vs record", desc, f"at op {i} the file does not decode to the recorded characters in "
                      + ("no style (color_system None)" if cs_now is None else "their colourless styles (NO_COLOR)" if no_col else "their styles"))
            ctx.note("styled_vs_file:" + ("none" if cs_now is None else "nocolor" if no_col else "colour"))
            if colour_on and not cfg["legacy_windows"]:
                # the styled export is TRUECOLOR; on another colour system the file carries the downgraded colours
                loose = (lambda l: l) if cfg["color_system"] == "truecolor" else (lambda l: [(ch, sg and loose_params(sg), ln) for ch, sg, ln in l])
                fdec = loose(decode("".join(t for kind, t in since if kind == "w")))
                got = loose(got)
                finding = None
                if got != fdec and got == loose(decode("".join(t for _, t in since))) and any(kind == "c" and visible(t) for kind, t in since):
                    finding = "capture-recorded"
                ctx.check(got == fdec, "export_text(styles) vs file", desc, f"styled export at op {i} and the file decode to different (character, style, link) streams", finding=finding)
        elif kk == "html":
            ref = last_plain[1] if last_plain and last_plain[0] == i - 1 else None
            chars, bad = read_html(res)
            want = []
            for s in rec:
                if s.is_control:
                    continue
                if s.style:
                    want.extend((ch, s.style.get_html_style(theme) or None, s.style.link or None) for ch in s.text)
                else:
                    want.extend((ch, None, None) for ch in s.text)
            ok_text = ref is None or "".join(x[0] for x in chars) == ref
            ok = ok_text and not bad and chars == want
            finding = None
            if not ok:
                # narrow classifier: the only problem is an href attribute that was not escaped
                links = {s.style.link for s in rec if s.style and s.style.link and any(ch in s.style.link for ch in "\"<>&'")}
                fixed = res
                for l in links:
                    fixed = fixed.replace(f'<a href="{l}">', f'<a href="{_html.escape(l)}">')
                if links and fixed != res:
                    chars2, bad2 = read_html(fixed)
                    if not bad2 and chars2 == want and (ref is None or "".join(x[0] for x in chars2) == ref):
                        finding = "html-href-unescaped"
            what = (
                f"HTML export at op {i}: text {''.join(x[0] for x in chars)!r} differs from the plain export {ref!r}"
                if not ok_text
                else f"HTML export at op {i}: structure problems {bad[:3]!r}"
                if bad
                else f"HTML export at op {i}: (character, css rule, link) stream differs from the recorded segments"
            )
            ctx.check(ok, "export_html", desc, what, finding=finding)
            if op[3] is None:
                ctx.check(res.startswith("<!DOCTYPE html>") and "<pre" in res and res.rstrip().endswith("</html>"), "export_html", desc, "default code_format was not used")
        if k in EXPORTS:
            if op[1]:
                since = []
                ctx.check(len(c._record_buffer) == 0, "clear", desc, f"export with clear=True at op {i} left {len(c._record_buffer)} segments in the record")
            else:
                ctx.check(list(c._record_buffer) == rec, "clear", desc, f"export with clear=False at op {i} changed the record")
        if k == "text" and not op[1] and not op[2] and i >= 2 and ops[i - 1][0] in EXPORTS and ops[i - 2] == ("text", False, False):
            mid = ops[i - 1]
            before = outs[i - 2]
            after = outs[i]
            if mid[1]:
                ctx.check(res == "", "clear", desc, f"after the clearing export at op {i - 1} the record still exports {res!r}")
            else:
                ctx.check(before == after, "clear", desc, f"a non-clearing export at op {i - 1} changed what is exported")
            ctx.note("clear:" + str(bool(mid[1])))
        yield

    # ---- correspondence with the model
    cs = None if cfg["color_system"] is None else COLOR_SYSTEMS[cfg["color_system"]]
    final_rec = enc.line(list(c._record_buffer))
    final_state = f"{c._buffer_index}#" + enc.line(list(c._buffer))
    table = enc.table(cs, cfg["legacy_windows"], theme)
    if "?" in enc_ops:
        ctx.note("unmodelled-template")
        return
    head = [f"{RECORD_IN_RENDER}{MERGE_CTL}{ESCAPE_HREF}{CAPTURE_MARKS}", model_config(cfg), table, "/".join(enc_ops)]
    shape = f"{tag}:len{min(len(ops) // 5 * 5, 40)}"
    sample = f"{cfg!r} {ops!r}" if len(repr(ops)) < 700 else None
    answer = "\t".join([enc_str_list([canon(w) for w in f.writes]), ",".join(model_outs), final_rec, final_state])
    ctx.case("c15_hist", head + ["all"], answer, shape=shape, sample=sample)
    ctx.note(f"styles:{min(len(enc.reps), 8)}")
    ctx.note(f"cfg:cs={cfg['color_system']},term={cfg['force_terminal']},nocolor={cfg['no_color']}")


# ------------------------------------------------------------------ generators
BASE_CFG = dict(width=20, force_terminal=True, color_system="truecolor", no_color=None, legacy_windows=False, environ={}, record=True, log_time=False, theme=False, cm=True)


def cfg_with(**kw):
    c = dict(BASE_CFG)
    c.update(kw)
    return c


SMALL_CONFIGS = [
    cfg_with(),
    cfg_with(force_terminal=False, color_system=None, cm=False),
    cfg_with(color_system="standard", no_color=True),
    cfg_with(force_terminal=False, color_system="256", width=7),
    cfg_with(environ={"TERM": "dumb"}),
    cfg_with(force_terminal=None, color_system="truecolor", environ={"NO_COLOR": "1", "TERM": "unknown"}, theme=True),
]

SMALL_OPS = [
    ("print", [("s", "a<b")], {}),
    ("print", [("t", "x&y>", "bold", [])], {"end": ""}),
    ("print", [("t", "k", "bold", [])], {"end": ""}),
    ("print", [("t", "q", "italic link http://e.x/?a=1&b=2", [])], {"end": ""}),
    ("bell",),
    ("line", 1),
    ("begin",),
    ("end",),
    ("text", True, False),
    ("html", True, False, None),
    ("html", False, True, None),
    ("text", False, True),
]


def small_histories(maxlen):
    for n in range(1, maxlen + 1):
        for seq in itertools.product(range(len(SMALL_OPS)), repeat=n):
            depth = 0
            ok = True
            for j in seq:
                k = SMALL_OPS[j][0]
                if k == "begin":
                    depth += 1
                elif k == "end":
                    depth -= 1
                    if depth < 0:
                        ok = False
                        break
            if ok:
                yield [SMALL_OPS[j] for j in seq]


WORDS = ["a", "b<c", "d&e", "f>g", "&amp;", "&lt;x&gt;", "<b>", "</span>", "あい", "x y", "1 + 2", "'q'", '"z"', "&", "<", ">", "&#38;", "long word here", "é", "]]>", "{code}", "{", "}}", "\t", "http://u.v/w"]
COLOUR_STYLES = ["on #ff8000", "on color(214)", "bold on #102030", "#ff0000", "color(99)", "#00ff00 on #0000ff", "red on color(17)",
                 "italic", "underline on white", "on blue", "dim #808080", "link http://e.x/ on #123456", "reverse on #fedcba"]
STYLES = ["@emptylink", "on #ff8000", "bold on color(214)", "bold", "italic", "red", "bold red on blue", "not bold", "none", "dim", "reverse", "#ff0000", "color(5)", "underline on white", "strike", "overline green", "blink", "default on default"]
LINKS = ["http://e.x/", "http://e.x/?a=1&b=2", "https://e.x/p#f", "mailto:a@b.c", "x"]
BAD_LINKS = ['http://e.x/"q', "http://e.x/<b>", "a>b", "http://e.x/?a=1&lt;=2", "it's"]


def gen_style(rng, bad_links):
    r = rng.random()
    st = rng.choice(STYLES)
    if st == "@emptylink":
        return st
    if r < 0.25:
        pool = LINKS + (BAD_LINKS if bad_links else [])
        st = (st + " " if rng.random() < 0.5 and st != "none" else "") + "link " + rng.choice(pool)
    return st


def gen_plain(rng, n=None):
    n = rng.randint(0, 3) if n is None else n
    return rng.choice(["", " ", "\n", ""]).join(rng.choice(WORDS) for _ in range(n))


def gen_text(rng, bad_links):
    plain = gen_plain(rng, rng.randint(1, 4))
    spans = []
    for _ in range(rng.choice([0, 0, 1, 2, 3])):
        a = rng.randint(0, len(plain))
        b = rng.randint(a, len(plain))
        spans.append((a, b, gen_style(rng, bad_links)))
    return ("t", plain, rng.choice([None, None, gen_style(rng, bad_links)]), spans, rng.choice([None, None, "left", "center", "right", "full"]))


def gen_markup(rng, bad_links):
    parts = []
    for _ in range(rng.randint(1, 3)):
        w = rng.choice(WORDS).replace("[", "").replace("]", ")")
        r = rng.random()
        if r < 0.35:
            parts.append(f"[{rng.choice(STYLES[1:])}]{w}[/]")
        elif r < 0.5:
            parts.append(f"[link={rng.choice(LINKS + (BAD_LINKS[:3] if bad_links else []))}]{w}[/link]")
        else:
            parts.append(w)
    return ("s", rng.choice(["", " "]).join(parts))


def gen_renderable(rng, bad_links, depth=0):
    r = rng.random()
    if r < 0.35:
        return gen_markup(rng, bad_links)
    if r < 0.7 or depth >= 2:
        return gen_text(rng, bad_links)
    if r < 0.78:
        return ("panel", gen_renderable(rng, bad_links, depth + 1), rng.choice([None, "t<i>tle", "&"]), rng.choice([None, "blue", "on red"]))
    if r < 0.84:
        return ("pad", gen_renderable(rng, bad_links, depth + 1), rng.randint(0, 2), rng.choice([None, "on blue"]))
    if r < 0.9:
        return ("styled", gen_renderable(rng, bad_links, depth + 1), gen_style(rng, bad_links))
    if r < 0.95:
        cols = rng.randint(1, 3)
        return ("table", [rng.choice(WORDS) for _ in range(cols)], [[rng.choice(WORDS) for _ in range(cols)] for _ in range(rng.randint(0, 2))], rng.random() < 0.7, rng.choice([None, "green"]))
    if rng.random() < 0.5:
        return ("sctl", rng.choice(CTL_CODES), rng.choice(["bold", "red", "link http://e.x/"]))
    return ("ctl", rng.choice(CTL_CODES))


def gen_print_kwargs(rng, bad_links):
    kw = {}
    if rng.random() < 0.3:
        kw["end"] = rng.choice(["", " ", "\n\n", "&\n", "<br>"])
    if rng.random() < 0.25:
        kw["style"] = gen_style(rng, bad_links)
    if rng.random() < 0.15:
        kw["justify"] = rng.choice(["left", "center", "right", "full"])
    if rng.random() < 0.1:
        kw["crop"] = False
    if rng.random() < 0.1:
        kw["soft_wrap"] = True
    if rng.random() < 0.1:
        kw["width"] = rng.randint(1, 30)
    if rng.random() < 0.1:
        kw["overflow"] = rng.choice(["fold", "crop", "ellipsis", "ignore"])
    if rng.random() < 0.1:
        kw["highlight"] = rng.random() < 0.5
    if rng.random() < 0.1:
        kw["sep"] = rng.choice(["", "<", " & "])
    return kw


def gen_op(rng, depth, bad_links, record):
    r = rng.random()
    if r < 0.34:
        return ("print", [gen_renderable(rng, bad_links) for _ in range(rng.choice([1, 1, 1, 2, 3]))], gen_print_kwargs(rng, bad_links))
    if r < 0.38:
        kw = {}
        if rng.random() < 0.3:
            kw["style"] = gen_style(rng, bad_links)
        if rng.random() < 0.2:
            kw["justify"] = rng.choice(["left", "center", "right"])
        return ("log", [gen_renderable(rng, bad_links) for _ in range(rng.choice([1, 2]))], kw)
    if r < 0.44:
        kw = {}
        if rng.random() < 0.4:
            kw["style"] = gen_style(rng, False)
        if rng.random() < 0.3:
            kw["characters"] = rng.choice(["=", "<>", "&", "あ"])
        if rng.random() < 0.3:
            kw["align"] = rng.choice(["left", "right"])
        return ("rule", rng.choice([("s", ""), ("s", "T<1>"), ("s", "[bold]a&b[/]"), gen_text(rng, bad_links)]), kw)
    if r < 0.48:
        kw = {}
        if rng.random() < 0.4:
            kw["style"] = gen_style(rng, bad_links)
        if rng.random() < 0.3:
            kw["end"] = rng.choice(["", "\n\n"])
        return ("out", [rng.choice(WORDS + ["[bold]not markup[/]", "12 True None"]) for _ in range(rng.randint(1, 3))], kw)
    if r < 0.51:
        return (rng.choice(["print0", "log0"]),)
    if r < 0.55:
        return ("line", rng.choice([0, 1, 1, 2, 3]))
    if r < 0.59:
        return ("control", rng.choice(CTL_CODES))
    if r < 0.63:
        return ("bell",)
    if r < 0.66:
        return ("clear", rng.random() < 0.5)
    if r < 0.70:
        return ("cursor", rng.random() < 0.5)
    if r < 0.78:
        return ("begin",)
    if r < 0.86:
        return ("end",) if depth > 0 else ("begin",)
    if r < 0.93:
        return (rng.choice(["text", "text", "save_text"]), rng.random() < 0.4, rng.random() < 0.4)
    fmt = rng.choice([None, None, CUSTOM_FMT, "{code}", "<pre>{code}</pre><style>{stylesheet}</style>{background}{foreground}"])
    return (rng.choice(["html", "html", "save_html"]), rng.random() < 0.4, True if fmt == "{code}" else rng.random() < 0.5, fmt)


def gen_config(rng):
    env = {}
    r = rng.random()
    if r < 0.12:
        env["TERM"] = rng.choice(["dumb", "unknown", "DUMB"])
    elif r < 0.3:
        env["TERM"] = rng.choice(["xterm-256color", "xterm", ""])
    if rng.random() < 0.1:
        env["NO_COLOR"] = rng.choice(["1", ""])
    return dict(
        width=rng.choice([1, 2, 5, 8, 12, 20, 20, 40, 80]),
        force_terminal=rng.choice([True, True, False, False, None]),
        color_system=rng.choice([None, "standard", "256", "truecolor", "truecolor", "windows"]),
        no_color=rng.choice([None, None, None, True, False]),
        legacy_windows=rng.random() < 0.12,
        environ=env,
        record=True,
        log_time=rng.random() < 0.4,  # LogRender omits a repeated time: the twin oracle replays the history, so it is in the same state
        log_path=rng.random() < 0.3,  # the caller is fixed: Tracer's wrapper around console.log
        theme=rng.random() < 0.25,
        cm=rng.random() < 0.5,
        plain=False,
    )


PLAIN_WORDS = ["a", "bc", "あ", "def ghi", " ", "  x", "y  ", "\n", "a\nb", "\t", "a\tb", "é̀", "long-word-without-break", "", "😽 z", "<&>", "[b]", ":smile:", "12 None"]
PLAIN_STYLES = ["bold", "red on blue", "none", "link http://e.x/", "italic"]


def gen_plain_op(rng):
    """Operations whose buffer appends the model derives (Model/ConsolePrint.lean)."""
    r = rng.random()
    if r < 0.5:
        kw = {}
        if rng.random() < 0.3:
            kw["sep"] = rng.choice(["", " ", ", ", "\n"])
        if rng.random() < 0.3:
            kw["end"] = rng.choice(["", " ", "\n\n", "!"])
        if rng.random() < 0.3:
            kw["style"] = rng.choice(PLAIN_STYLES)
        if rng.random() < 0.25:
            kw["overflow"] = rng.choice(["fold", "crop", "ellipsis", "ignore"])
        if rng.random() < 0.2:
            kw["no_wrap"] = rng.random() < 0.6
        if rng.random() < 0.2:
            kw["width"] = rng.choice([0, 1, 2, 3, 5, 9, 100])
        if rng.random() < 0.15:
            kw["crop"] = False
        if rng.random() < 0.15:
            kw["soft_wrap"] = rng.random() < 0.7
        return ("print", [("s", rng.choice(PLAIN_WORDS)) for _ in range(rng.choice([1, 1, 2, 3]))], kw)
    if r < 0.65:
        kw = {}
        if rng.random() < 0.3:
            kw["sep"] = rng.choice(["", "-"])
        if rng.random() < 0.3:
            kw["end"] = rng.choice(["", "\n\n"])
        if rng.random() < 0.3:
            kw["style"] = rng.choice(PLAIN_STYLES)
        return ("out", [rng.choice(PLAIN_WORDS) for _ in range(rng.choice([1, 2, 3]))], kw)
    if r < 0.8:
        kw = {}
        if rng.random() < 0.5:
            kw["characters"] = rng.choice(["=", "-+", "あ", "─ ", "ab c", "é"])
        if rng.random() < 0.4:
            kw["style"] = rng.choice(PLAIN_STYLES)
        if rng.random() < 0.2:
            kw["align"] = rng.choice(["left", "right"])
        return ("rule", ("s", ""), kw)
    if r < 0.86:
        return (rng.choice(["print0", "log0"]),)
    if r < 0.95:
        kw = {}
        if rng.random() < 0.3:
            kw["sep"] = rng.choice(["", "-"])
        if rng.random() < 0.3:
            kw["end"] = rng.choice(["", "\n\n", "!"])
        return ("log", [("s", rng.choice(PLAIN_WORDS)) for _ in range(rng.choice([1, 1, 2]))], kw)
    return ("line", rng.choice([0, 1, 2]))


def gen_live_history(rng, n):
    """A Live display (auto_refresh off, no stdout redirection) around prints, captures and exports."""
    ops = [("live_start", gen_renderable(rng, False, 1), rng.random() < 0.3, rng.choice(["crop", "ellipsis", "visible"]))]
    depth = 0
    for _ in range(n):
        r = rng.random()
        if r < 0.3:
            ops.append(("print", [gen_renderable(rng, False, 1)], {}))
        elif r < 0.38:
            ops.append(("log", [gen_renderable(rng, False, 2)], {}))
        elif r < 0.5:
            ops.append(("live_update", gen_renderable(rng, False, 1), rng.random() < 0.5))
        elif r < 0.6:
            ops.append(("live_refresh",))
        elif r < 0.72:
            ops.append(("begin",))
            depth += 1
        elif r < 0.84:
            if depth:
                ops.append(("end",))
                depth -= 1
            else:
                ops.append((rng.choice(["print0", "bell"]),))
        elif r < 0.9:
            ops.append(("line", 1))
        elif r < 0.95:
            ops.append(("text", rng.random() < 0.3, rng.random() < 0.5))
        else:
            ops.append(("live_stop",))
            ops.append(("live_start", gen_renderable(rng, False, 1), rng.random() < 0.3, "ellipsis"))
    if rng.random() < 0.8:
        ops.insert(rng.randint(1, len(ops)), ("live_stop",))
    while depth > 0 and rng.random() < 0.8:
        ops.append(("end",))
        depth -= 1
    return ops


def gen_multi(rng):
    """Two or three recording consoles with DIFFERENT colour systems, alive together, printing the same style
    definitions (background only, foreground only, both, attributes only: `Style.parse` hands every console the same
    cached Style object), with captures and clearing / non-clearing exports of every kind."""
    k = rng.choice([2, 2, 3])
    systems = rng.sample(["standard", "256", "truecolor", "windows", None], k)
    cfgs = []
    for cs in systems:
        cfgs.append(cfg_with(color_system=cs, force_terminal=rng.choice([True, True, False]), width=rng.choice([12, 20, 40]),
                             no_color=rng.choice([None, None, None, True]), theme=rng.random() < 0.2, cm=rng.random() < 0.5))
    shared = [rng.choice(COLOUR_STYLES) for _ in range(rng.choice([1, 2, 3]))]
    ops_lists = []
    for _ in range(k):
        ops = []
        depth = 0
        for _ in range(rng.randint(1, 5)):
            r = rng.random()
            st = rng.choice(shared)
            if r < 0.4:
                ops.append(("print", [("t", rng.choice(["ab", "x<y", "p q", "あ&"]), st, [])], {}))
            elif r < 0.5:
                ops.append(("print", [("s", f"[{st}]m&m[/] n")], {}))
            elif r < 0.56:
                ops.append(("rule", ("s", rng.choice(["", "T"])), {"style": st}))
            elif r < 0.6:
                ops.append(("log", [("s", "l")], {"style": st}))
            elif r < 0.7:
                ops.append(("begin",))
                depth += 1
            elif r < 0.8 and depth:
                ops.append(("end",))
                depth -= 1
            elif r < 0.9:
                ops.append((rng.choice(["text", "text", "save_text"]), rng.random() < 0.4, rng.random() < 0.6))
            else:
                ops.append((rng.choice(["html", "save_html"]), rng.random() < 0.4, rng.random() < 0.5, rng.choice([None, CUSTOM_FMT])))
        ops += [("end",)] * depth
        ops_lists.append(ops)
    return cfgs, ops_lists


def gen_history(rng, n, bad_links, balanced=True):
    ops = []
    depth = 0
    for _ in range(n):
        op = gen_op(rng, depth, bad_links, True)
        if op[0] == "begin":
            depth += 1
        elif op[0] == "end":
            depth -= 1
        ops.append(op)
    if balanced:
        while depth > 0 and rng.random() < 0.8:
            ops.append(("end",))
            depth -= 1
    return ops


# ------------------------------------------------------------------ code_format as a string: str.format with its error branch (Model/ConsoleFormat.lean)
FMT_TOKENS = ["{", "}", "code", "x", "0", "<b>", "&", "stylesheet", ":", "!", ".", "[", "foreground", " "]
FMT_PIECES = ["{code}", "{stylesheet}", "{foreground}", "{background}", "{{", "}}", "{", "}", "{}", "{0}", "{12}", "{colour}", "{ code}", "{code }", "{Code}",
              "{code!r}", "{code:>4}", "{code.x}", "{code[0]}", "<pre>", "</pre>", "&amp;", "&", "a<b", "\n", "{stylesheet", "code}", "{{code}}", "{{{code}}}", "あ", "{é}"]
FMT_RECORDS = [
    [],
    [("t", "x<&>", "bold", [])],
    [("t", "{code}{", "italic link http://e.x/?a=1&b=2", []), ("s", "}} {stylesheet}"), ("t", "lt;", "red on blue", [(0, 1, "bold")])],
]


def _fmt_oracle(fmt, vals):
    """What `fmt.format(**vals)` must do, from Python's own parser of format strings (`string.Formatter().parse`, not the Lean model):
    ('ok', text) / ('err', class name, key) / None when a field uses a conversion, a spec, an attribute or an index."""
    out = []
    try:
        for lit, field, spec, conv in string.Formatter().parse(fmt):
            out.append(lit)
            if field is None:
                continue
            if spec or conv or "." in field or "[" in field or not field.isascii():
                return None
            if field == "" or field.isdigit():
                return ("err", "IndexError", None) if len(field) <= 18 else None
            if field not in vals:
                return ("err", "KeyError", field)
            out.append(vals[field])
    except ValueError:
        return ("err", "ValueError", None)
    return ("ok", "".join(out))


def format_cases(ctx, rng):
    """export_html(code_format=fmt) for format strings as strings: every concatenation of <= 3 (thorough: 4) tokens of FMT_TOKENS and random
    concatenations of FMT_PIECES, on three records, clear on/off, both inline_styles modes; compared with the model's scanner
    (c15_htmlfmt: result or exception, and the record afterwards) and judged directly: Python's own format-string parser says what
    must happen, the four values are obtained from rich by one-field formats and the theme, a failing format must leave the record alone."""
    from rich.console import COLOR_SYSTEMS
    from rich.terminal_theme import DEFAULT_TERMINAL_THEME, TerminalTheme

    fmts = []
    for n in range(0, 4 if ctx.quick else 5):
        for t in itertools.product(FMT_TOKENS, repeat=n):
            fmts.append("".join(t))
    fmts = sorted(set(fmts))
    for _ in range(600 if ctx.quick else 20000):
        fmts.append("".join(rng.choice(FMT_PIECES) for _ in range(rng.randint(1, 6))))
    for _ in range(100 if ctx.quick else 2000):  # literal text with its braces doubled
        text = "".join(rng.choice(["{", "}", "a", "&", "<", "{code}", " "]) for _ in range(rng.randint(0, 8)))
        fmts.append(("dbl", text))
    ctx.note("format_strings", len(fmts))
    cfg = cfg_with(width=40)
    cs = COLOR_SYSTEMS[cfg["color_system"]]
    consoles = []
    for ri, robjs in enumerate(FMT_RECORDS):
        for themed in (False, True):
            c, f, spy = make_console(cfg)
            if robjs:
                c.print(*[build(r) for r in robjs])
            theme = TerminalTheme(*CUSTOM_THEME) if themed else None
            enc = Enc()
            rec = list(c._record_buffer)
            rec_enc = enc.line(rec)
            table = enc.table(cs, False, theme)
            th = theme or DEFAULT_TERMINAL_THEME
            want_fg = "#%02x%02x%02x" % (tuple(CUSTOM_THEME[1]) if themed else tuple(DEFAULT_TERMINAL_THEME.foreground_color))
            want_bg = "#%02x%02x%02x" % (tuple(CUSTOM_THEME[0]) if themed else tuple(DEFAULT_TERMINAL_THEME.background_color))
            consoles.append((c, theme, enc, rec, rec_enc, table, th, want_fg, want_bg, ri))
    vals_cache = {}
    for k, fmt in enumerate(fmts):
        dbl = None
        if isinstance(fmt, tuple):
            dbl = fmt[1]
            fmt = dbl.replace("{", "{{").replace("}", "}}")
        c, theme, enc, rec, rec_enc, table, th, want_fg, want_bg, ri = consoles[k % len(consoles)] if not ctx.quick or len(fmt) > 2 else consoles[rng.randrange(len(consoles))]
        clr = rng.random() < 0.5
        inl = rng.random() < 0.5
        desc = {"code_format": fmt, "record": FMT_RECORDS[ri], "clear": clr, "inline_styles": inl, "theme": theme is not None}
        vals = vals_cache.get((id(c), inl))
        if vals is None or rng.random() < 0.05:  # the record is put back after every case, so the four values are per (console, inline_styles)
            vals = {}
            try:
                for name in ("code", "stylesheet", "foreground", "background"):
                    vals[name] = c.export_html(clear=False, inline_styles=inl, theme=theme, code_format="{" + name + "}")
            except BaseException as e:  # noqa: BLE001
                ctx.check(False, "export_html(code_format)", desc, f"a one-field format raised {type(e).__name__}: {e}")
                continue
            vals_cache[(id(c), inl)] = vals
        ctx.check(vals["foreground"] == want_fg and vals["background"] == want_bg, "export_html(code_format)", desc,
                  f"{{foreground}} / {{background}} expand to {vals['foreground']!r} / {vals['background']!r}; the theme says {want_fg!r} / {want_bg!r}")
        try:
            res = c.export_html(clear=clr, inline_styles=inl, theme=theme, code_format=fmt)
            got = ("ok", res)
            ans = "e" + enc_str(res)
        except BaseException as e:  # noqa: BLE001
            cls = type(e).__name__
            if isinstance(e, KeyError) and e.args and isinstance(e.args[0], str):
                got = ("err", "KeyError", e.args[0])
                ans = "err:KeyError:" + enc_str(e.args[0])
            elif cls in ("ValueError", "IndexError"):
                got = ("err", cls, None)
                ans = "err:" + cls
            elif cls == "AssertionError":
                got = ("err", cls, None)
                ans = "A"
            else:
                got = ("err", "Other:" + cls, None)
                ans = "err:Other:" + cls
        after = list(c._record_buffer)
        want = _fmt_oracle(fmt, vals)
        ctx.note("format:" + ("unmodelled" if want is None else want[0] if want[0] == "ok" else want[1]))
        if want is not None:
            ctx.check(got == want, "export_html(code_format)", desc, f"export_html returned / raised {got!r}; str.format semantics on the four values give {want!r}")
        if dbl is not None:
            ctx.check(got == ("ok", dbl), "export_html(code_format)", desc, f"the format string with doubled braces did not give back the text {dbl!r}: {got!r}")
        if got[0] == "ok":
            ctx.check(after == ([] if clr else rec), "clear", desc, f"export_html(clear={clr}) left {len(after)} of {len(rec)} recorded segments")
        else:
            ctx.check(after == rec, "clear", desc, f"export_html raised {got[1]} and changed the record ({len(rec)} -> {len(after)} segments)")
        ctx.case("c15_htmlfmt", [f"{RECORD_IN_RENDER}{MERGE_CTL}{ESCAPE_HREF}{CAPTURE_MARKS}", model_config(cfg), table, rec_enc, enc_bool(clr), enc_bool(inl),
                                 enc_str(th.foreground_color.hex), enc_str(th.background_color.hex), enc_str(fmt)],
                 ans + "\t" + enc.line(after), shape=f"fmt:{got[0] if got[0] == 'ok' else got[1]}", sample=repr(desc) if len(fmt) < 40 else None)
        if after != rec:  # put the record back for the next format string (the consoles are shared)
            c._record_buffer[:] = rec
    # a non-recording console: `assert self.record` comes before the format is looked at
    c, f, spy = make_console(cfg_with(record=False))
    for fmt in ["{code}", "{", "{x}", "{0}"]:
        try:
            c.export_html(code_format=fmt)
            ans = "e"
        except AssertionError:
            ans = "A"
        except BaseException as e:  # noqa: BLE001
            ans = "err:Other:" + type(e).__name__
        ctx.check(ans == "A", "export_html(code_format)", {"code_format": fmt, "record": False}, f"export_html on a non-recording console: {ans}")
        ctx.case("c15_htmlfmt", [f"{RECORD_IN_RENDER}{MERGE_CTL}{ESCAPE_HREF}{CAPTURE_MARKS}", model_config(cfg_with(record=False)), "0", "", "1", "0", enc_str("#000000"), enc_str("#ffffff"), enc_str(fmt)],
                 ans + "\t", shape="fmt:norecord")
    ctx.flush()


# ------------------------------------------------------------------ the time column of log: LogRender._last_time (Model/ConsoleLogTime.lean)
LOG_CLOCK = [datetime.datetime(2020, 1, 2, 3, 4, 5), datetime.datetime(2020, 1, 2, 3, 4, 6), datetime.datetime(2021, 5, 6, 3, 4, 5),
             datetime.datetime(2020, 1, 2, 3, 4, 5, 999), datetime.datetime(2020, 1, 2, 13, 4, 5)]


def logtime_cases(ctx, rng):
    """Consecutive log calls under a clock that follows a generated sequence (equal times, times that differ only in the date or the
    microseconds and therefore have the same "[%X]" display, different times), some of them inside capture blocks, `with console:`
    blocks or followed by exports: the time cell of every call is read off the appended segments and compared with the model's
    `logTimeCells`; directly: blank iff the display equals the previous call's display."""
    from rich.console import Console

    seqs = []
    for n in range(1, 5 if ctx.quick else 7):
        for t in itertools.product(range(2), repeat=n):
            seqs.append((True, list(t)))
    for _ in range(120 if ctx.quick else 4000):
        seqs.append((rng.random() < 0.85, [rng.randrange(len(LOG_CLOCK)) for _ in range(rng.randint(1, 7))]))
    for show, seq in seqs:
        clock = {"i": 0}
        f = LogFile()
        c = Console(file=f, width=rng.choice([30, 60]), force_terminal=False, color_system=None, record=True, log_time=show, log_path=rng.random() < 0.3,
                    get_datetime=lambda: LOG_CLOCK[seq[min(clock["i"], len(seq) - 1)]], markup=False, emoji=False, highlight=False, _environ={})
        spy = SpyList()
        c._thread_locals.buffer = spy
        desc = {"log_time": show, "clock": seq}
        cells, displays = [], []
        prev = None
        depth = 0
        for i in range(len(seq)):
            clock["i"] = i
            r = rng.random()
            if r < 0.15:
                c.begin_capture()
                depth += 1
            elif r < 0.25:
                c.export_text(clear=rng.random() < 0.5)
            spy.take()
            try:
                if r > 0.9:
                    with c:
                        c.log("m")
                else:
                    c.log("m")
            except BaseException as e:  # noqa: BLE001
                ctx.check(False, "log", desc, f"log call {i} raised {type(e).__name__}: {e}")
                break
            text = "".join(s.text for s in spy.take())
            disp = LOG_CLOCK[seq[i]].strftime("[%X]")
            displays.append(disp)
            cell = text[: len(disp)] if show else None
            if show:
                want = " " * len(disp) if disp == prev else disp
                ctx.check(cell == want, "log time column", desc, f"log call {i}: the line starts with {text[:len(disp) + 2]!r}; the display is {disp!r}, the previous call's {prev!r}")
                ctx.note("logtime:" + ("blank" if disp == prev else "shown"))
            else:
                ctx.check(text.startswith("m"), "log time column", desc, f"log call {i} without log_time starts with {text[:12]!r}")
                ctx.note("logtime:off")
            cells.append("-" if cell is None else "=" + enc_str(cell))
            prev = disp
            if depth and rng.random() < 0.5:
                c.end_capture()
                depth -= 1
        else:
            ctx.case("c15_logtimes", [enc_bool(show), enc_str_list(displays)], ",".join(cells), shape=f"logtimes:{len(seq)}", sample=repr(desc))
    ctx.flush()


def run(ctx):
    rng = ctx.rng
    STATS.update(raised=0, histories=0)
    ctx.assumptions += [
        "styles are opaque to the console model: style.render(text) = pre ++ text ++ post, bool(style), without_color, "
        "get_html_style(theme) and link are parameters read off the real Style objects for every case (their meaning is C03/C06's subject)",
        "what print/log/rule/out append to the thread's buffer (rendering + split_and_crop_lines) is an input of the model, observed on the real "
        "console - except on plain consoles (markup/emoji/highlight off, justify None, console.style None) for print of strings, out, rule without "
        "title and print()/log() without objects, where Model/ConsolePrint.lean derives it from the models of C05 (Text), C02 (wrap), C13 (crop) and "
        "C08 (rule text) with the variant flags of props.c02; for log(*strings) the text of the appended segments is derived through the "
        "composition layer (C01: C07 table + C02/C05 text cells, flags of props.c01), the strftime display of the injected clock and the caller "
        "(Tracer wrapper, fixed line) being inputs; styles of log output and every other renderable stay observed",
        "escape codes are compared exactly apart from the random link ids (Style._ansi is keyed by colour system since fix c9ec5a8); only the "
        "comparison of the TRUECOLOR styled export with a file written for another colour system ignores the colour parameters",
        "visible text = non-control segment text; generated texts contain no C0 control codes or ESC; control segments contain only escape sequences / C0 codes",
        "a Live display enters the model as the sequence of console calls rich makes for it (logged by wrappers that leave the calls unchanged); "
        "its own logic (LiveRender shape, cursor codes) is C10's subject",
        "single thread; is_jupyter False; the pager is out of scope; log_time uses an injected get_datetime and log_path a fixed caller",
        "code_format strings: fields with a conversion, a format spec, an attribute / index lookup or a non-ASCII name are outside the model "
        "(`unmodelled`, counted); exception classes and KeyError's key are compared, messages are not; the strftime display of the clock is an input",
    ]

    # ---- 1. bounded-exhaustive: every history of <= L operations over SMALL_OPS (12 operations, capture blocks never
    #         closed more often than opened), on configurations covering each branch of _render_buffer / control
    L = 3 if ctx.quick else 4
    configs = SMALL_CONFIGS[:4] if ctx.quick else SMALL_CONFIGS
    n = 0
    for ci, cfg in enumerate(configs):
        for ops in small_histories(L if ctx.quick or ci < 3 else 3):
            eval_history(ctx, cfg, ops, "small")
            n += 1
    ctx.note("small_histories", n)
    ctx.flush()

    # ---- 2. seeded random histories over rich renderables and all configurations
    n_rand = 1500 if ctx.quick else 40000
    for _ in range(n_rand):
        cfg = gen_config(rng)
        ops = gen_history(rng, rng.randint(1, 14), bad_links=False)
        eval_history(ctx, cfg, ops, "rand")
    ctx.flush()

    # ---- 3. links that need escaping inside an HTML attribute
    n_bad = 150 if ctx.quick else 4000
    for _ in range(n_bad):
        cfg = gen_config(rng)
        ops = gen_history(rng, rng.randint(1, 8), bad_links=True)
        eval_history(ctx, cfg, ops, "badlink")
    ctx.flush()

    # ---- 4. malformed stream: unbalanced end_capture, exports on a non-recording console, empty link, odd templates
    n_mal = 200 if ctx.quick else 5000
    for _ in range(n_mal):
        cfg = gen_config(rng)
        r = rng.random()
        if r < 0.3:
            cfg["record"] = False
        ops = gen_history(rng, rng.randint(1, 10), bad_links=False, balanced=False)
        if r > 0.5:
            ops.insert(rng.randint(0, len(ops)), ("end",))
        if rng.random() < 0.3:
            ops.insert(rng.randint(0, len(ops)), ("print", [("t", "e", None, [(0, 1, "bold")])], {"style": "@emptylink"}))
        eval_history(ctx, cfg, ops, "malformed")
    ctx.flush()

    # ---- 4b. plain consoles (markup / emoji / highlight off): what print / out / rule / print() append is DERIVED by the model
    n_plain = 250 if ctx.quick else 8000
    for _ in range(n_plain):
        cfg = gen_config(rng)
        cfg["plain"] = True
        cfg["width"] = rng.choice([0, 1, 2, 3, 4, 5, 7, 10, 20, 80])
        ops = []
        depth = 0
        for _ in range(rng.randint(1, 8)):
            if rng.random() < 0.7:
                ops.append(gen_plain_op(rng))
            else:
                op = gen_op(rng, depth, False, True)
                if op[0] in ("print", "log", "rule", "out"):
                    op = gen_plain_op(rng)
                depth += {"begin": 1, "end": -1}.get(op[0], 0)
                ops.append(op)
        eval_history(ctx, cfg, ops, "plain")
    # every list of <= 2 strings <= 2 characters over the characters wrapping branches on, at every width 0..5
    alpha = ["a", " ", "\n", "\t", "あ"]
    strs = ["".join(t) for k in range(0, 3) for t in itertools.product(alpha, repeat=k)]
    n_ex = 0
    for w in range(0, 6):
        cfg = cfg_with(plain=True, width=w, color_system=None, force_terminal=False, record=False)
        for s1 in strs:
            for s2 in ([None] + strs[:6] if not ctx.quick or w in (1, 3) else [None]):
                objs = [("s", s1)] + ([("s", s2)] if s2 is not None else [])
                for kw in ({}, {"end": ""}, {"overflow": "ellipsis"}, {"no_wrap": True, "crop": False}):
                    eval_history(ctx, cfg, [("print", objs, kw)], "plain-small")
                    n_ex += 1
                eval_history(ctx, cfg, [("out", [o[1] for o in objs], {})], "plain-small")
        for chars in ["-", "ab", "あ", "a "]:
            eval_history(ctx, cfg, [("rule", ("s", ""), {"characters": chars})], "plain-small")
    ctx.note("plain_small", n_ex)
    # log(*strings) with the time and path columns on / off, two logs in a row (the second time cell is blank)
    for _ in range(120 if ctx.quick else 4000):
        cfg = cfg_with(plain=True, width=rng.choice([1, 5, 12, 16, 20, 27, 40, 80]), log_time=rng.random() < 0.6, log_path=rng.random() < 0.6,
                       color_system=rng.choice([None, "truecolor"]), force_terminal=rng.random() < 0.5, cm=False)
        ops = []
        for _ in range(rng.choice([1, 2, 3])):
            kw = {}
            if rng.random() < 0.25:
                kw["end"] = rng.choice(["", "\n\n"])
            if rng.random() < 0.25:
                kw["sep"] = rng.choice(["", ", "])
            ops.append(("log", [("s", rng.choice(PLAIN_WORDS + ["a longer message that has to be folded in its column", "x" * 30])) for _ in range(rng.choice([1, 1, 2, 3]))], kw))
        eval_history(ctx, cfg, ops, "plain-log")
    ctx.flush()

    # ---- 4c. a running Live display around prints, captures and exports
    n_live = 120 if ctx.quick else 4000
    for _ in range(n_live):
        cfg = gen_config(rng)
        cfg["force_terminal"] = rng.choice([True, True, True, False])
        cfg["width"] = rng.choice([8, 12, 20, 40])
        eval_history(ctx, cfg, gen_live_history(rng, rng.randint(1, 9)), "live")
    ctx.flush()

    # ---- 4e. several consoles alive together (different colour systems, same style definitions), histories interleaved
    fixed = [cfg_with(color_system="256"), cfg_with(color_system="truecolor")]
    fixed_ops = [[("print", [("t", "a", "on #ff8000", [])], {})], [("print", [("t", "b", "on #ff8000", [])], {}), ("text", False, True)]]
    eval_multi(ctx, fixed, fixed_ops, [0] * (1 + len(CLOSING)) + [1] * (4 + len(CLOSING)), "multi")  # one console after the other
    eval_multi(ctx, fixed, fixed_ops, [0, 1, 1, 1, 1] + [0] * len(CLOSING) + [1] * len(CLOSING), "multi")  # the first still holds its output
    for _ in range(250 if ctx.quick else 8000):
        cfgs, ops_lists = gen_multi(rng)
        eval_multi(ctx, cfgs, ops_lists, multi_schedule(rng, cfgs, ops_lists), "multi")
    ctx.flush()

    # ---- 4d. `with console:` blocks (enter / exit), also mixed with capture blocks and unbalanced
    n_ctx = 150 if ctx.quick else 4000
    for _ in range(n_ctx):
        cfg = gen_config(rng)
        ops = gen_history(rng, rng.randint(1, 8), bad_links=False, balanced=False)
        for _ in range(rng.randint(1, 3)):
            a = rng.randint(0, len(ops))
            ops.insert(a, ("enter",))
            if rng.random() < 0.8:
                ops.insert(rng.randint(a + 1, len(ops)), ("exit",))
        if rng.random() < 0.15:
            ops.insert(rng.randint(0, len(ops)), ("exit",))
        eval_history(ctx, cfg, ops, "bufferctx")
    ctx.flush()
    if _SCRATCH["dir"]:
        import shutil

        shutil.rmtree(_SCRATCH["dir"], ignore_errors=True)
        _SCRATCH["dir"] = None

    ctx.check(STATS["raised"] * 50 <= STATS["histories"], "print", dict(STATS), "more than 2% of the generated histories were dropped because rendering raised")

    # ---- 5. escape on every string <= 4 over the characters it branches on
    alpha = ["&", "<", ">", "a", ";", '"', "'"]
    for k in range(0, 5 if ctx.quick else 6):
        for t in itertools.product(alpha, repeat=k):
            s = "".join(t)
            real = s.replace("&", "&amp;").replace("<", "&lt;").replace(">", "&gt;")
            ctx.check(_html.unescape(real) == s or "&" in s, "escape", s, "html.unescape(escape(s)) != s")
            ctx.case("c15_escape_attr", [enc_str(s)], enc_str(_html.escape(s, quote=True)))
    ctx.flush()
    # ---- 6. code_format as a string (str.format scanner with its error branch), and the time column of consecutive logs
    format_cases(ctx, rng)
    logtime_cases(ctx, rng)
    ctx.rule = (
        "every history of <= %d operations (<= 3 on the last three configurations of the thorough tier) over 12 operations "
        "(print with <,>,&; adjacent equal styles; link; bell; line; begin/end capture; 4 exports) x %d configurations, each "
        "followed by 6 closing exports; + seeded random histories "
        "(<= 14 operations over print/log/rule/out/line/control/bell/clear/show_cursor/capture/export with Text, markup, Panel, "
        "Padding, Styled, Table, Control renderables) x random configurations; + links needing attribute escaping; + malformed "
        "(unbalanced end_capture, record=False, empty link); + plain consoles where the buffer appends of print/out/rule/print() are derived "
        "(random histories, and every list of <= 2 strings <= 2 characters over {a, space, newline, tab, wide} x widths 0..5 x 4 option sets) "
        "and the text of log(*strings) with the time / path columns on or off; "
        "+ histories around a running Live display; + `with console:` blocks mixed with captures, also unbalanced; save_text/save_html among "
        "the exports; + code_format as a string: every concatenation of <= 3 tokens (thorough: <= 4) over "
        "{ '{', '}', code, x, 0, <b>, &, stylesheet, ':', '!', '.', '[', foreground, space } and random concatenations of 31 pieces (fields, doubled and "
        "single braces, conversions, specs), on 3 records x 2 themes, clear and inline_styles random; + log calls under a clock following every "
        "0/1 sequence of <= 4 (thorough: 6) and random sequences over 5 datetimes (equal displays on different dates), around captures / exports. "
        "distinct = distinct canonical requests (one per history with 4 observations, one per derived append)"
        % (L, len(configs))
    )


def replay(ctx, case):
    inp = case.get("input")
    print("site:", case.get("site"))
    print("what:", case.get("what"))
    if isinstance(inp, dict) and "configs" in inp:
        before = len(ctx.failures)
        eval_multi(ctx, [dict(c) for c in inp["configs"]], [[_detuple(o) for o in ops] for ops in inp["ops"]], list(inp["schedule"]), "replay")
        for f in ctx.failures:
            print("FAIL:", f["site"], f["what"][:300])
        return len(ctx.failures) == before
    if isinstance(inp, dict) and "config" in inp:
        ops = [tuple(o) for o in inp["ops"]]
        # the recorded operations already contain the probes and closing exports
        cfg = dict(inp["config"])
        before = len(ctx.failures)
        _replay_history(ctx, cfg, ops)
        return len(ctx.failures) == before
    print("input:", inp)
    return False


def _replay_history(ctx, cfg, ops):
    global with_probes, CLOSING
    wp, cl = with_probes, CLOSING
    try:
        with_probes = lambda o, r: list(o)
        CLOSING = []
        eval_history(ctx, cfg, [_detuple(o) for o in ops], "replay")
    finally:
        with_probes, CLOSING = wp, cl
    for f in ctx.failures:
        print("FAIL:", f["site"], f["what"])


def _detuple(o):
    """JSON turned tuples into lists; descriptors are compared as tuples."""
    if isinstance(o, list):
        return tuple(_detuple(x) if not isinstance(x, dict) else x for x in o)
    return o


MANIFEST = {
    "text": "Lean 4 theorems (Props/C15.lean) over an executable model of Console's buffer / _check_buffer / _render_buffer / "
    "begin_capture / end_capture / `with console:` / line / control / bell / clear / show_cursor / export_text / export_html "
    "(Model/Console.lean), "
    "for operation histories of any length, every console configuration the code branches on (record, colour system None or "
    "not, terminal or not, dumb TERM, NO_COLOR, legacy_windows) and every style table: record_tracks_file (the record grows by "
    "exactly the buffers that are rendered for the file, in order) => export_text_eq_visible (exported text = text of the "
    "non-control pieces written to the file since the last clearing export); export_html_text (the {code} string with tags "
    "removed and the three entities decoded = the exported text, both inline_styles modes; unescape(escape s) = s proved at "
    "string level; simplify + filter_control lose only control segments); export_styled_decodes (same characters in the "
    "wrapper of their own segment's style; equal to the file's stream when colour is on); capture_returns_and_withholds (a "
    "block returns character for character what the same operations write outside a capture, nothing reaches the file "
    "while the depth is >= 1, nothing is recorded; capture_block_transparent: with the repaired marks a block at any depth "
    "returns its own output and leaves the enclosing block untouched); capture_nesting (ONE theorem: on every well-bracketed "
    "history of capture blocks AND `with console:` blocks, nested and interleaved in any way and possibly left open, the console "
    "refines a specification machine with one frame per open capture block plus the held-back output of open `with console:` "
    "blocks - each capture block returns exactly its own output, enclosing frames untouched, nothing reaches file or record "
    "meanwhile, held-back output is written as one write when the depth returns to zero - "
    "plus, for arbitrary unbalanced sequences, totality, depth arithmetic, no write at non-zero depth of either sign, and what "
    "a surplus end_capture returns); export_html_document (any code_format containing {code} once keeps the code intact; the "
    "document with tags removed is template text + escaped exported text + template text; default template obligations proved "
    "on the table translated from rich/console.py each run); export_html_stylesheet (one rule per distinct CSS rule in first-use "
    "order numbered r1..rn, numbering injective, every class looked up in the final table, stylesheet lines); clear_semantics; "
    "reachable_outside_empty; consoles_do_not_interfere (any interleaving of operations on any number of consoles: each "
    "console's state and answers are those of its own history run alone); export_styled_vs_file_without_colour (what the styled export means on NO_COLOR / colour-less "
    "consoles: the file shows the colourless / unstyled version of the same stream); export_html_document_default_decoded "
    "(whole default document, tags removed AND entities decoded = template text + exported text + template text; the template "
    "is checked to contain no '&' on the translated table); print_plain_segments + export_text_of_prints (for print of plain "
    "strings the derived segments carry exactly the C02 wrap of the joined text at the console width, lines joined by line "
    "feeds, then `end`; so export_text of a history of such prints is the concatenation of the wrapped strings - composed "
    "read-only from C05 render_view/inv_join, C02 wrap_lines_fit/wrap_fold_keeps_nonspace, C13 split_and_crop_refines and the "
    "C01 line/piece bridge); code_format AS A STRING (deepening round 4, Model/ConsoleFormat.lean: str.format's left-to-right scanner - doubled braces, "
    "single braces, unknown / numbered / empty fields - with its error branch, and the order 'format, then clear' of export_html): "
    "code_format_ok_iff (a document is returned exactly when the scan reaches the end and every field is one of the four keywords, and it is "
    "then exportHtml on the parsed template, so the template theorems speak about format strings), code_format_error_branch (KeyError names the "
    "first field that is neither a keyword nor a number; a failing format string fails for every value), code_format_doubled_braces, "
    "code_format_step (a raising format leaves the record alone even with clear=True), export_html_document_decoded (ANY template with {code} "
    "once: tags removed and entities decoded = text before [no '&' in it] + exported text + decoded text after; exact form without that "
    "assumption; witness old_amp_before_code_joins), export_html_document_format (the same for format strings); log_time_cells "
    "(LogRender._last_time: the time cell of a log call is blank iff its display equals the previous call's, any sequence of displays). Proved for "
    "the repaired variant, which is what /repo contains now (fixes 114bbe8, e488480, 1202b8a; b97fe77 for simplify); the witnesses "
    "old_capture_is_recorded, old_href_breaks_html, old_simplify_bell_in_html and nested_capture_steals (by evaluation) show rich 9.10.0 "
    "as found violating them. Tie: ~11k (quick) / ~130k (thorough; sum of the loop bounds in run()) histories per run executed on real "
    "rich.console.Console and on the model (file writes, every return value, final record, buffer and depth compared), plus the "
    "theorems' executable statements evaluated on rich's own outputs with independent oracles (terminal-stream tokenizer, "
    "html.parser, twin console).",
    "note": "Partial / assumed: (1) styles are opaque ids; style.render(text) = pre+text+post, bool(style), without_color, "
    "get_html_style, link are parameters read off the real Style objects per case (their meaning is C03/C06). (2) What "
    "print/log/rule/out append to the buffer (rendering, split_and_crop_lines) is an input observed on the real console; only "
    "for print of strings / out / title-less rule / print() on plain consoles is it derived in the model (Model/ConsolePrint.lean, "
    "compared with rich per operation; print_plain_segments proves what its characters are for the default options, "
    "end in {newline, empty}, width >= 2, and is conditional on the style reduction being defined, which the comparison shows "
    "always holds). log(*strings) is derived as text only (c15_log); its styles and every other renderable stay observed. (3) 'Visible text of the file' is stated on structured pieces (escape wrapper / text / control), and HTML tags on "
    "structured fragments for which the string-level stripTags is proved; the string-level reading of ANSI escapes is done by the "
    "harness tokenizer only. (4) Escape codes are compared exactly except for the random link ids. "
    "(5) `with console:` blocks (enterBuffer / exitBuffer) are part of capture_nesting; the harness's twin-console oracle for "
    "captures is not evaluated on histories that contain them (the correspondence is). A Live display is covered as the "
    "console calls rich makes for it; its own logic is C10's. In rich 9.10.0 as found (before fix 1202b8a) an inner end_capture returned the enclosing block's pending output (witness "
    "nested_capture_steals, finding nested-capture-steals). (6) The whole-document theorem is decoded (tags removed and entities decoded) for the default template and, since round 4, for an arbitrary "
    "code_format given as a string, provided the text before {code} ends outside a tag and contains no '&' (without the last condition: the exact "
    "right-fold form; a dangling '&' before {code} does join with the code, witness old_amp_before_code_joins). str.format is modelled for fields "
    "without conversion / format spec / attribute / index and ASCII field names (anything else answers `unmodelled`: ~7% of the generated format "
    "strings); exception messages are not compared, only the class and KeyError's key. The clock's strftime display is an input of log_time_cells; "
    "what else log(*renderables) appends (styles of the log columns, log_path's link, non-string renderables, justify=) stays observed. "
    "(7) Single thread, is_jupyter False, pager out of scope (Console.pager's buffer path is not modelled; rich 9.10.0 has no `quiet`); save_text/save_html are compared as export + file read back. "
    "Findings of this property, all repaired in /repo: capture-recorded (F17, fix 114bbe8), html-href-unescaped (fix e488480), "
    "nested-capture-steals (fix 1202b8a); the flag constants hold the repaired values: RECORD_IN_RENDER = 0, MERGE_CTL = 0 "
    "(C13's fix b97fe77), ESCAPE_HREF = 1, CAPTURE_MARKS = 1. No `known:` line exists for C15, so the check prints no "
    "KNOWN-FINDING line. (8) The seeded concurrency change C15-d1 (_check_buffer without _record_buffer_lock) is outside this "
    "single-threaded check (exit 0); it is caught by C11 with a concrete schedule.",
    "design_ref": "DESIGN.md section 7, C15",
}
