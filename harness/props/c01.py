"""C01 — rendered output never exceeds the available width.

Correspondence: the Lean composition model (Model/Layout.lean: `render`, `measure`, `smin` over the inductive renderable
trees `R`, built on the finished layers C02/C05/C07/C08/C13) vs real rich: random renderable trees (depth <= 4, every layout
option) are built as real objects, rendered with `Console.render(tree, options)` (NOT Console.print, whose final crop would
mask an overflowing child) and the concatenated segment text must equal the model's character for character.
Direct evaluation: on rich's own output no line is wider than W for every W >= the structural minimum (computed on the Python
side independently of the Lean model and cross-checked with it).
"""
import multiprocessing
import os

import lib_layout as L
from core import enc_str

PROPERTY = "C01"

# CODE VARIANT FLAGS — the values that match the code in /repo as it is now.  The composition layer has no defect flag of its own: it
# follows the flags of the layers it is built from (so a repair recorded there is picked up here without an edit): every imported flag
# holds its repaired value (FRAMES_VARIANT 0, TEXT_FLAGS "00000000", TABLE_FLAGS "0000000"; 1 = rich 9.10.0 as found, before the fix: commits).
# The `except` fallbacks are never taken in a normal run; their literals are the same repaired values.
try:  # frames (Model/Frames.lean `Variant`): bitmask 1 zeroWidthChild, 2 ruleRightRepeat, 4 rstripCountsChars, 8 columnsZeroCount; of the
    # further bits of props/c08.py the composition model reads 32 titleAtConsoleWidth and 64 ruleNoTitleEnd (Model/Layout.lean `Cfg`)
    from props.c08 import VARIANT as FRAMES_VARIANT
except Exception:  # pragma: no cover
    FRAMES_VARIANT = 0  # every frames defect is repaired in /repo
try:  # text / wrap (Model/Text.lean `Variant` x6, Model/Wrap.lean `justifyNeg`, `rstripChars`)
    from props.c02 import FLAGS as TEXT_FLAGS
except Exception:  # pragma: no cover
    TEXT_FLAGS = "00000000"  # every text / wrap defect is repaired in /repo
try:  # table (Model/Table.lean `Flags`, all seven, in the order of props/c07.py FLAGS: one flip there serves C07, C01 and C09)
    from props.c07 import FLAGS as _TF
    TABLE_FLAGS = "".join(str(int(x)) for x in _TF)
except Exception:  # pragma: no cover
    TABLE_FLAGS = "0000000"  # every table defect is repaired in /repo (Flags.allRepaired)
FRAMES_VARIANT = int(os.environ.get("VERIF_C01_FRAMES_VARIANT", FRAMES_VARIANT))
TEXT_FLAGS = os.environ.get("VERIF_C01_TEXT_FLAGS", TEXT_FLAGS)
TABLE_FLAGS = os.environ.get("VERIF_C01_TABLE_FLAGS", TABLE_FLAGS)
FLAGS = f"{FRAMES_VARIANT},{TEXT_FLAGS},{TABLE_FLAGS}"


def widths_for(rng, smin, quick, dense=12, top=200):
    ws = set(range(smin, smin + dense + 1))
    ws.update([max(1, smin - 1), max(1, smin - 2)])
    for _ in range(2 if quick else 4):
        ws.add(rng.randint(smin, top))
    ws.add(rng.choice([40, 60, 80, 100, 120, 200]))
    return sorted(ws)


def classify(e, dom):
    if dom == "f23":
        return "progressbar-no-newline"
    return None


def _job(args):
    """worker: (spec, console_width, opts, widths) -> {"cases": [(fn, args, impl, shape, sample)], "checks": [...], "notes": {...}}"""
    spec, cwidth, opts, widths = args[:4]
    shared = len(args) > 4 and args[4]
    console = L.make_console(cwidth)
    obj = L.guarded(lambda: L.build(spec)) if shared and not L.has_styled_rule(spec) else None
    if isinstance(obj, str):
        obj = None
    cases, checks, notes = [], [], {}

    def note(k):
        notes[k] = notes.get(k, 0) + 1

    tree = L.enc(spec, console)
    sm = L.smin(spec)
    dom = L.domain(spec, opts, console)
    cases.append(("layout_smin", [tree], str(sm), None, None))
    note("kind:" + spec[0])
    note("domain:" + dom.split(":")[0])
    note("depth:%d" % L.depth(spec))
    if obj is not None:
        note("shared-object")
        widths = list(widths)
        widths = widths[len(widths) // 2:] + widths[: len(widths) // 2]  # not monotone: a stale cached width would show
    general = True  # `Dom` depends on the width: recomputed for every w
    _unused = spec[0] == "TABLE" and any(co.get("width") is not None or co.get("min_width") is not None or co.get("no_wrap", False)
                                        for co, _h, _f, _cs in spec[2])
    for w in widths:
        console._verif_w = w
        if general:
            dom = L.domain(spec, opts, console)
        if obj is not None and w % 3 == 0:
            L.real_measure(console, spec, w, obj=obj)  # interleave measuring and rendering on the same object
        out = L.real_text(console, spec, opts, w, obj=obj)
        if out.startswith("err:"):
            impl = out
            note("render:" + out)
        else:
            impl = "ok:" + enc_str(out)
        cases.append(("layout_render", [FLAGS, L.env_enc(cwidth), L.enc_opts(opts), w, tree], impl, "w-smin=%d" % min(w - sm, 13) if w >= sm else "below",
                      f"Console({cwidth}).render({spec!r}, width={w}, {opts})"))
        if w >= sm and dom.startswith("floor:") and not out.startswith("err:"):
            # a table with min_width columns that meets the budget: at most `floorSum` cells wider than the offer (C07 width_bound_general)
            fl = int(dom[6:])
            lw = L.line_widths(out)
            okg = all(x <= w + fl for x in lw)
            checks.append((okg, "Table with min_width columns", (spec, cwidth, opts, w) if not okg else None,
                           f"a line is {max(lw)} cells wide with {w} available and min_width floors of {fl}", None))
            continue
        if w >= sm and dom.startswith("open"):
            # outside `Dom` through a NOT DISCHARGED condition only: no counterexample is known; a failure here is a new witness
            if not out.startswith("err:"):
                lw = L.line_widths(out)
                oko = all(x <= w for x in lw)
                checks.append((oko, "Console.render (outside Dom: condition not discharged, no counterexample known)",
                               (spec, cwidth, opts, w) if not oko else None,
                               f"a line is {max(lw)} cells wide with {w} available (structural minimum {sm})",
                               "progressbar-no-newline" if (not oko and dom == "open:f23") else None))
            continue
        if 1 <= w < sm and dom == "in" and not out.startswith("err:"):
            # BELOW the structural minimum (added in the fourth deepening round, with `collapseWidths_low` / `tableConsole_decomp_any`):
            # `render_fits_any` — inside `Dom` no line is wider than max(w, smin) = smin.  The oracle is the Python-side structural
            # minimum and rich's own output; a table / Columns offered less than one cell per column is judged here.
            lwb = L.line_widths(out)
            okb = all(x <= sm for x in lwb)
            note("below-minimum-evaluated")
            checks.append((okb, "Console.render below the structural minimum", (spec, cwidth, opts, w) if not okb else None,
                           f"a line is {max(lwb) if lwb else 0} cells wide with {w} available: wider than the structural minimum {sm}",
                           classify(spec, dom) if not okb else None))
        if w >= sm and dom != "out":
            if out.startswith("err:"):
                checks.append((False, "Console.render", (spec, cwidth, opts, w), f"rendering raised {out[4:]}", None))
                continue
            lw = L.line_widths(out)
            ok = all(x <= w for x in lw)
            checks.append((ok, "Console.render", (spec, cwidth, opts, w) if not ok else None,
                           f"a line is {max(lw)} cells wide with {w} available (structural minimum {sm})", classify(spec, dom) if not ok else None))
    return {"cases": cases, "checks": checks, "notes": notes}


def job(args):
    try:
        return _job(args)
    except BaseException as ex:  # noqa: BLE001 - building / encoding the tree on real rich raised: an observation, not a harness error
        if isinstance(ex, (KeyboardInterrupt, SystemExit)):
            raise
        return {"cases": [], "checks": [(False, "building or encoding the renderable", args[0], f"raised {type(ex).__name__}: {ex}", None)], "notes": {}}


def account(ctx, results):
    for r in results:
        for fn, args, impl, shape, sample in r["cases"]:
            ctx.case(fn, args, impl, shape=shape, sample=sample)
        for ok, site, inp, what, finding in r["checks"]:
            ctx.check(ok, site, inp, what, finding=finding)
        for k, n in r["notes"].items():
            ctx.note(k, n)


def boundary_specs():
    """Range-boundary characters of rich's width table (first / last code point of double-width and zero-width ranges, single-code-point
    ranges; `lib_layout.boundary_chars` picks them from the table): a comparison off by one in `_get_codepoint_cell_size` changes the width
    of exactly these (sixth seeded round: `>` became `>=`, the last code point of every range measured 1 — `Text("⭐" * 10)` at 10 is a
    20-cell line, borders pushed out) while CJK / emoji inside long ranges are unaffected.  A run of each double-width one at top level,
    and the characters inside every kind of frame."""
    T = lambda s, **kw: ("T", dict(plain=s, **kw))
    wide, zero = L.boundary_chars()
    out = [T(c * 10) for c in wide]
    out += [T("".join("a" + z for z in zero[i:i + 6]) + " b") for i in range(0, len(zero), 6)]
    mixed = [" ".join(wide[i:i + 4]) for i in range(0, len(wide), 4)]
    for i, m in enumerate(mixed):
        cell = T(m)
        out.append([("PANEL", {"title": wide[i]}, cell), ("TABLE", {}, [({}, T(wide[i]), T(""), [cell, T("x")]), ({}, T("h"), T(""), [T(m[::-1]), T("y")])]),
                    ("COLS", {}, [T(c) for c in m.split(" ")]), ("TREE", (T(m), "tree.line", True, [(cell, "tree.line", True, [])])),
                    ("PAD", (0, 1, 0, 2), True, T(m, overflow="ellipsis", no_wrap=True)), ("RULE", {"title": wide[i] + " t"}),
                    ("ALIGN", {"align": "center"}, T(m, overflow="crop", no_wrap=True)), ("GRP", True, [cell, T(m, justify="full")])][i % 8])
    return out


def corner_specs():
    """hand-written trees for the places an off-by-one hides: one representative per constructor at its structural minimum"""
    T = lambda s, **kw: ("T", dict(plain=s, **kw))
    cell = T("hello world あい")
    tbl = lambda **o: ("TABLE", dict(o), [({}, T("h1"), T("f1"), [cell, T("x")]), ({}, T("head two"), T(""), [T("😽 wide"), T("a\nb")])])
    out = [
        T(""), T("a"), T("あ"), T("ab cd ef"), T("supercalifragilistic あいうえお"), T("a\n\nb"), T("x y", justify="full"), T("a  b   c d", justify="full"),
        T("abc def", overflow="ellipsis"), T("abc def", overflow="crop", no_wrap=True), T("àb̀ c", justify="right"), T("tab\there"),
        ("PAD", (0, 1, 0, 1), True, cell), ("PAD", (1, 2, 1, 3), False, cell), ("PAD", (0, 0, 0, 4), False, T("")),
        ("PANEL", {}, cell), ("PANEL", {"title": "T"}, cell), ("PANEL", {"title": "long title", "expand": False}, T("a")),
        ("PANEL", {"padding": (0,), "title": "あい", "title_align": "left"}, T("a")), ("PANEL", {"width": 9}, cell),
        ("ALIGN", {"align": "center"}, cell), ("ALIGN", {"align": "right", "width": 5}, cell), ("ALIGN", {"align": "left", "pad": False}, T("ab")),
        ("CON", 5, cell), ("CON", None, cell), ("STY", cell), ("CAST", cell), ("OPQ", cell),
        ("GRP", True, [cell, T("b")]), ("GRP", False, []), ("GRP", True, [("PBAR", {"width": 5}), T("ccc dd")]),
        ("GRP", True, [T("ccc dd"), ("PBAR", {"width": 5})]),
        ("RULE", {}), ("RULE", {"title": "title"}), ("RULE", {"title": "あい", "align": "left"}), ("RULE", {"title": "t", "align": "right", "characters": "=*"}),
        ("BAR", {"size": 10, "begin": 2, "end": 5}), ("BAR", {"size": 10, "begin": 0.5, "end": 9.25, "width": 8}),
        ("PBAR", {"completed": 50}), ("PBAR", {"completed": 30, "width": 6}),
        tbl(), tbl(box=None), tbl(box="ASCII", show_edge=False), tbl(show_lines=True, show_footer=True), tbl(leading=2, box="SQUARE"),
        tbl(padding=(0, 0, 0, 0)), tbl(pad_edge=False, collapse_padding=True, padding=(1, 2, 1, 3)), tbl(expand=True), tbl(expand=True, min_width=30),
        tbl(title={"plain": "a title that is long"}, caption={"plain": "cap"}), tbl(show_header=False), tbl(width=20), tbl(min_width=25),
        ("TABLE", {}, [({"max_width": 4}, T("h"), T(""), [cell]), ({"justify": "right", "overflow": "fold"}, T("k"), T(""), [cell])]),
        ("TABLE", {"expand": True}, [({"ratio": 1}, T("h"), T(""), [cell]), ({"ratio": 2}, T("k"), T(""), [T("z")])]),
        ("TABLE", {}, [({"no_wrap": True}, T("h"), T(""), [cell]), ({"width": 3}, T("k"), T(""), [cell])]),
        ("TABLE", {"box": "ROUNDED"}, [({}, T("outer"), T(""), [tbl(box="SIMPLE")])]),
        ("COLS", {}, [T("one"), T("two two"), T("three 3 3"), T("あい")]), ("COLS", {"equal": True, "expand": True}, [T("one"), T("two two"), T("x")]),
        ("COLS", {"column_first": True, "align": "center"}, [T("a"), T("bb"), T("ccc"), T("dddd"), T("e")]),
        ("COLS", {}, [T(""), T(""), T(""), T(""), T("")]), ("COLS", {"right_to_left": True, "title": {"plain": "ttl"}}, [T("a b"), T("c")]),
        ("TREE", (T("root"), "tree.line", True, [(T("kid one"), "bold", True, [(cell, "tree.line", True, [])]), (T("k2\nl2"), "underline2", True, [])])),
        ("TREE", (T("root"), "tree.line", False, [(T("hidden"), "tree.line", True, [])])),
        ("PANEL", {"title": "p"}, ("TABLE", {}, [({}, T("a"), T(""), [("PANEL", {}, T("deep あ"))])])),
        ("PAD", (0, 1, 0, 1), False, ("COLS", {}, [("PANEL", {"expand": False}, T("x")), T("y z")])),
        ("S", "a plain str"), ("S", "[bold]marked[/bold] :smiley: 42"), ("PANEL", {"title": "styled", "title_styled": True}, ("S", "in a panel")),
        ("TABLE", {}, []), ("TABLE", {"expand": True, "title": {"plain": "ttl"}}, []), ("TABLE", {"box": None, "min_width": 9}, []),
        ("COLS", {"width": 6}, [T("one"), T("two two"), T("three 3 3"), T("あい")]), ("COLS", {"width": 0, "padding": (0,)}, [T("a"), T("b")]),
        ("COLS", {"width": 30, "expand": True}, [T("one"), T("two")]),
        ("TABLE", {"expand": True}, [({"ratio": 1}, T("r"), T(""), [T("x")]), ({}, T("wide"), T(""), [T("a considerably wider ordinary column here")])]),
        ("TABLE", {"expand": True, "box": None, "padding": (0, 0, 0, 0)}, [({"ratio": 2}, T("r"), T(""), [T("x")]), ({"ratio": 1}, T("q"), T(""), [T("yy")]), ({}, T("wide"), T(""), [T("wide wide wide wide")])]),
        ("RULE", {"title": "styled title", "title_styled": True}),
    ] + [
        # lines whose CHARACTER count equals a width while their CELL count does not (double-width and zero-width characters cancel
        # or do not): cropped / ellipsised / not wrapped at every width around len(text), exposed at top level and through the
        # pass-through containers (a `len(text) == total` shortcut in set_cell_size shows here)
        wrap(("T", dict(plain=txt, **kw)))
        for txt in ("ああ̀b", "あ̀あ̀ああ", "a😽​bあ", "ああああ", "àb̀c̀あい", "x あ̀あ̀ああ y",
                    # #code points == #cells although no character is one cell wide: [double-width base + zero-width combining] pairs
                    # (decomposed kana: か + U+3099), alone and mixed with one-cell characters
                    "がぎぐげご", "あ̀い̀う̀え̀", "😽​😽​😽​", "がaぎbぐ", "がぎ ぐげござ")
        for kw in (dict(overflow="crop", no_wrap=True), dict(overflow="ellipsis", no_wrap=True), dict(no_wrap=True), dict(overflow="crop"),
                   dict(overflow="ellipsis"))
        for wrap in (lambda e: e, lambda e: ("GRP", True, [e]), lambda e: ("ALIGN", {"align": "left"}, e), lambda e: ("CON", None, e),
                     lambda e: ("STY", e), lambda e: ("CON", 40, ("ALIGN", {"align": "right"}, e)))
    ] + boundary_specs() + [
        ("TABLE", {"expand": True}, [({"ratio": 1}, T("a"), T(""), [T("x")]), ({"ratio": 0}, T("b"), T(""), [T("y")]),
                                     ({}, T("c"), T(""), [T("long long long long long long long long text")])]),
        ("TABLE", {"expand": True, "box": None}, [({"ratio": 0}, T("b"), T(""), [T("y")]), ({"ratio": 2}, T("a"), T(""), [T("x x x x x x x x x x x x")])]),
    ]
    return out


def run(ctx):
    rng = ctx.rng
    quick = ctx.quick
    jobs = []
    # ---- A: one representative of every constructor, every width from 1 up densely around the structural minimum
    for spec in corner_specs():
        sm = L.smin(spec)
        ws = sorted(set(list(range(1, sm + 14)) + [30, 80]))
        for cwidth in (80, 20, (60, True, False, None), (60, False, True, "truecolor")):
            jobs.append((spec, cwidth, {}, ws if cwidth == 80 else ws[: sm + 6]))
    # ---- B: seeded random trees, depth <= 4, all options; console width != render width in a third of the cases
    n = 2600 if quick else 27000
    for i in range(n):
        d = rng.choice([1, 2, 2, 3, 3, 4])
        spec = L.gen_tree(rng, d)
        sm = L.smin(spec)
        if sm > 150:
            continue
        opts = {}
        if rng.random() < 0.15:
            opts["justify"] = rng.choice(["left", "center", "right", "full"])
        if rng.random() < 0.15:
            opts["overflow"] = rng.choice(["fold", "crop", "ellipsis", "ignore"])
        if rng.random() < 0.06:
            opts["no_wrap"] = True
        cwidth = rng.choice([80, 80, 40, 12, 200])
        if rng.random() < 0.25:  # ASCII-only / legacy-Windows consoles (box substitution, guides, rule characters), colour systems (progress bar)
            cwidth = (cwidth, rng.random() < 0.5, rng.random() < 0.5, rng.choice([None, "standard", "truecolor"]))
        ws = widths_for(rng, sm, quick, dense=12 if d <= 2 or not quick else 6)
        if quick:
            ws = ws if d <= 2 else rng.sample(ws, min(len(ws), 7))
        jobs.append((spec, cwidth, opts, sorted(ws), rng.random() < 0.3))
    ctx.note("jobs", len(jobs))
    procs = max(1, min(14, (os.cpu_count() or 2) - 1))
    with multiprocessing.get_context("fork").Pool(procs) as pool:
        chunk = []
        for res in pool.imap(job, jobs, chunksize=8):
            chunk.append(res)
            if len(chunk) >= 400:
                account(ctx, chunk)
                ctx.flush()
                chunk = []
        account(ctx, chunk)
    ctx.flush()
    ctx.rule = (
        "line widths of rich's output are measured by the harness's own first-match scan of rich/_cell_widths.py CELL_WIDTHS "
        "(lib_layout.cells: independent of rich.cells.cell_len / set_cell_size / chop_cells and of their caches); "
        "hand-written corner trees (one per constructor and option family; crop / ellipsis / no_wrap texts whose character count equals a width while "
        "their cell count does not; ratio=0 tables) x every width 1..smin+13 x four consoles (width 80, width 20, 60 ASCII-only, 60 legacy-Windows "
        "truecolor), then seeded random "
        "renderable trees (depth <= 4; text with spans/justify/overflow/no_wrap over ASCII, CJK, emoji, combining and zero-width code points, "
        "newlines, tabs; str renderables with markup; padding, panel, align, constrain, styled, __rich__ casts, measure-less objects, groups, rules, bars, "
        "progress bars, "
        "tables with every table/column option, columns, trees) x widths smin-2..smin+12 densely and up to 200 x console widths {12,40,80,200} "
        "(a quarter of them ASCII-only / legacy-Windows / with a colour system) x outer justify/overflow/no_wrap; distinct = distinct canonical requests"
    )
    ctx.assumptions += [
        "console: tab_size 8, safe_box on, no_color off, height 25; UTF-8 or ASCII-only encoding, legacy Windows on / off and the colour systems "
        "None / standard / truecolor are all generated and modelled (box substitution, tree guides, rule characters, progress bar)",
        "styles are opaque: only the text and its segmentation are modelled",
        "Bar/ProgressBar numbers are integers or dyadic fractions (exact in double arithmetic)",
        "C01's domain (lib_layout.domain; evaluated directly only there and for W >= the structural minimum; the correspondence covers everything), "
        "in exposed position: no text with effective overflow='ignore' or an end other than newline / '', every group member but the last ends "
        "its line (a ProgressBar followed by a sibling is classified as the known finding progressbar-no-newline), table title / caption not "
        "overflow='ignore' and ending in newline, tables with columns free to wrap (ratio columns included) or with width / min_width / no_wrap "
        "columns that meet the budget of C07 width_bound_general (a root table whose min_width binds is evaluated against W + the min_width floors; "
        "a nested one is skipped), no Columns(width=0); wider than the theorem's Dom: Constrain / Align at any inner width, Table(width=...) and "
        "Columns(width>=1) are evaluated everywhere",
    ]


def replay(ctx, case):
    print("site:", case.get("site"))
    print("input:", case.get("input"))
    print("what:", case.get("what"))
    inp = case.get("input")
    try:
        spec, cwidth, opts, w = inp if not isinstance(inp, str) else eval(inp)  # noqa: S307 - our own replay file
    except Exception:  # noqa: BLE001
        print("re-run `./check C01` (generators are seeded: VERIF_SEED=%s)" % case.get("seed"))
        return False
    console = L.make_console(cwidth)
    out = L.real_text(console, spec, opts, w)
    print("rendered:", repr(out))
    if not out.startswith("err:"):
        print("line widths:", L.line_widths(out), "available:", w, "structural minimum:", L.smin(spec))
    return False


MANIFEST = {
    "text": "Lean 4 theorems (Props/C01.lean; no bound on nesting depth, number of children / rows / columns, text length or width) about the "
    "executable composition model Model/Layout.lean: an inductive type of renderable trees (text | str | padding | panel | align | constrain | "
    "styled | __rich__ cast | measure-less object | group | rule | bar | progress bar | table | columns | tree, every layout option) whose "
    "`render` instantiates the oracles of the finished layers (Text.wrap C02, Text.render C05, frames C08, table algorithm C07, line shaping "
    "C13) with itself.  `render_fits` / `rendered_lines_fit`: by structural induction over the tree, for every options and every width w at or "
    "above the structural minimum `smin` (borders + padding + one cell, two with a double-width character, per innermost column), no line of "
    "Console.render's Segment stream is wider than w — for EVERY code variant of the lower layers except the as-found `leading` and the as-found "
    "panel-title width (before fixes dd342b5 / 0e1edf7), in particular for the fully repaired code now in /repo: containers that crop (padding, panel, table, columns, tree) need nothing of their children, the "
    "pass-through ones (group, styled, constrain, align, casts) use the induction hypothesis, text uses wrap/truncate (C02), tables — any "
    "number of columns, ratio columns included — use the width bound of `_calculate_column_widths` for columns free to wrap, or C07's "
    "`width_bound_general` for arbitrary columns within the budget (`table_general_bound`).  Every exclusion "
    "of the domain `Dom` carries a machine-checked witness that the bound fails there (`excluded_*`, `known_progressbar_in_group_overflows`, "
    "`old_ratio_zero_column_overflows`) or is marked NOT DISCHARGED (one left: Columns(width>=1)).  Tie: ~43k (quick) / ~600k (thorough) renderings of corner trees and "
    "seeded random trees (depth <= 4, all options, ASCII/CJK/emoji/combining/zero-width content, newlines, tabs, str renderables with markup, "
    "styled titles) compared character for character with real Console.render (not Console.print), widths smin-2..smin+12 densely and up to "
    "200, console widths 12..200, ASCII-only / legacy-Windows / colour consoles, objects re-rendered to expose kept state; smin computed "
    "independently in Python and cross-checked; the property evaluated directly on rich's own output on a domain WIDER than the theorem's "
    "(ratio tables, Constrain/Align at any width, Columns(width>=1), Table(width)).  Content alphabets include RANGE-BOUNDARY characters of "
    "rich's width table (first / last code point of double-width and zero-width ranges, single-code-point ranges: picked from the table by "
    "`lib_layout.boundary_chars`, 23 double-width + 25 zero-width) in 34 corner trees and in ~12 % of the random words; cell widths on the "
    "Python side come from a linear scan of CELL_WIDTHS as PARSED FROM THE SOURCE by harness/tables.py (nothing of rich.cells), so an "
    "off-by-one in `_get_codepoint_cell_size` (sixth seeded round: `>` -> `>=`) is a failing input on real rich, not only a mismatch.",
    "note": "Variant flags (imported from props/c08.py, c02.py, c07.py; current values, all repaired): FRAMES_VARIANT 0, TEXT_FLAGS 00000000, "
    "TABLE_FLAGS 0000000 (1 = rich 9.10.0 as found).  Findings: progressbar-no-newline (F23, known, not repaired: the check prints "
    "KNOWN-FINDING lines for it, site Console.render) and table-ratio-zero-column (found by this check, repaired by fix 75c2776, "
    "witness `old_ratio_zero_column_overflows`).  Domain `Dom` of the theorem: text/str not overflow='ignore' and end in {newline, ''}; "
    "every group member but the last ends its line; tables with columns free to wrap (any number of columns, ratios included) OR "
    "arbitrary columns (width / max_width / no_wrap) within C07's budget `tableBudget`, with the exact bound `table_general_bound` "
    "(available width + min_width floors) when a min_width binds; panels with ANY title (rendered as a Text at the panel's width); rules "
    "under every options incl. overflow='ignore'.  Each exclusion has a machine-checked witness (`excluded_*`).  `render_fits_any` bounds every line by max(W, smin) at EVERY width, so "
    "Constrain/Align put no condition on the width they hand down.  DISCHARGED in the fourth deepening round (was NOT DISCHARGED): a table with "
    "free columns, or Columns, OFFERED less than one cell per column (inside a Constrain/Align narrower than the child's structural minimum, "
    "Table(width) below its borders plus one cell per column, any zero / negative budget) — `collapse_below_one_cell_per_column` (the collapse "
    "loop levels every column to 0 or 1: invariant 'all >= 1 or all in {0,1}', unbounded induction over the while loop and over ratio_reduce), "
    "`column_widths_below_one_cell_per_column` (the re-measure hands every column exactly one cell, the padding block adds nothing, every flag "
    "variant), `free_table_below_one_cell_per_column` (no line wider than max(width laid out for, borders + one cell per column)), witness "
    "`below_minimum_table_is_borders_plus_columns` (11-cell lines in all three positions, confirmed on real rich); the two conditions are removed "
    "from `Dom` (table: no room condition; Columns: no 'one cell per item').  New direct evaluation: for every tree inside the Python domain "
    "rendered BELOW its structural minimum (~4.7k renderings per quick run) no line of rich's own output is wider than the structural minimum "
    "(`render_fits_any`).  STILL NOT DISCHARGED (no counterexample: evaluated directly in every run under its own site name, brute-forced over "
    "40k cases on real rich): Columns(width>=1) — needs the last-resort ratio_reduce path of fixed-width columns.  Outside the model (driver answers `unmodelled`; 0 requests on the code in /repo as it is now): a "
    "__rich__ that returns another __rich__ object, a raising expand_tabs; styles are not modelled (a str is modelled as the Text render_str "
    "makes of it; rule titles are one-line simple texts; the spans of a styled panel/rule title are not modelled — they only matter when an over-long line is cropped exactly at a zero-width character, seen once in 1.7M cases).  `Text.Inv` of the wrapped-and-joined text is checked at run time by the model; "
    "the panel title's end/no_wrap/overflow fields are re-asserted by a record update in the model.  smin reads Columns as one column per "
    "item.  Observation (C08's ground): a Rule truncates a Text title object in place.  Trusted: Lean kernel, axioms "
    "propext/Classical.choice/Quot.sound, translator, correspondence harness.",
    "design_ref": "DESIGN.md section 7, C01/C07/C08/C09",
}
