"""C10 — Live and progress displays leave a correct screen after any history.

Correspondence: the Lean state machine (Model/Live.lean) and terminal (Model/Term.lean) vs the real
rich Live / Progress / Status objects writing to a StringIO terminal: the characters written by every
single operation are tokenised (harness/term.py) and compared with the model's terminal operations,
together with the control state (started, hook depth, sys.stdout / sys.stderr proxy depth, restore slots,
recorded shape, task index); `with` blocks with an exception injected at every render-call index and at
every block position; the Lean `replay` vs the Python screen oracle; the Lean specification (wf / printed /
lastFrame, which the theorems are stated with) vs the independent Python tracker used below.

Direct evaluation (3d): the emitted characters of the real objects are replayed on the Python screen
oracle after *every* operation and compared with what an independent tracker says must be visible:
printed lines, then the last refreshed frame, nothing else; cursor never above the live region, never
clamped at the top of the window; cursor visible after stop; cleanup after every injected exception.
"""
import itertools

import lib_live as L
import term
from core import enc_bool, enc_opt, enc_str_list

PROPERTY = "C10"

# CODE VARIANT FLAGS — the value that matches the code in /repo as it is now (see Model/Live.lean `Cfg`); all three defects of
# rich 9.10.0 as found are repaired there (BARE_BYPASS: 0 is the repaired value; START_GUARD, RESET_SHAPE: 1 is the repaired value)
BARE_BYPASS = 0   # 1: console.print()/log() without arguments call Console.line() and bypass the render hooks (F19, as found); 0: repaired, fix b373465
START_GUARD = 1   # 0: as found, Progress.start() calls refresh() unprotected after installing hook / redirection / hidden cursor; 1: repaired, fix 4e4f7e5
RESET_SHAPE = 1   # 0: as found, stop() keeps _live_render._shape, so a later start() erases rows of finished output; 1: repaired, fix b4577f9


# ------------------------------------------------------------------------------------------------
# independent specification tracker (what must be on the screen) — shares nothing with the Lean model
# ------------------------------------------------------------------------------------------------
class Tracker:
    def __init__(self, cfg, reset_shape=None):
        self.cfg = cfg
        self.reset_shape = RESET_SHAPE if reset_shape is None else reset_shape
        self.P = []            # printed lines, in order
        self.F = []            # frame on display (as the user should see it)
        self.phase = "idle"    # idle | live | stopped
        self.lines = list(cfg.init) if cfg.kind == "live" else []   # current renderable (Live)
        self.status = list(cfg.init)
        self.tasks = {}        # id -> [desc, completed, visible]   (insertion ordered)
        self.table = []        # Progress: rows of the table built by the last refresh
        self.next_id = 0
        self.max_h = 0         # Progress pads its frame to the tallest one so far
        self.overflow = cfg.overflow
        self.fits = True       # every frame put on display so far fitted the screen
        self.ever_started = False
        self.restarted = False
        self.after_stop = None
        self.transient_ok = True   # every transient stop so far left one free row for its line feed

    # the frame the user is entitled to see for the current renderable
    def frame(self, final=False):
        c = self.cfg
        if c.kind == "progress":
            return list(self.table)
        if c.kind == "status":
            ls = [("⠋ " if i == 0 else "  ") + l for i, l in enumerate(self.status)]
        else:
            ls = [l[: c.width] for l in self.lines]
        ov = "visible" if final else self.overflow
        if len(ls) > c.height:
            if ov == "crop":
                ls = ls[: c.height]
            elif ov == "ellipsis":
                pad = c.width - 3
                ls = ls[: c.height - 1] + [" " * (pad // 2) + "..." + " " * (pad - pad // 2)]
        return ls

    def rebuild(self):
        """Progress.refresh() rebuilds the tasks table (also while the display is not live)."""
        self.table = [f"{d} {n}" for d, n, v in self.tasks.values() if v]

    def display(self, final=False):
        self.F = self.frame(final)
        h = len(self.F)
        if self.cfg.kind == "progress":
            self.max_h = max(self.max_h, h)
            h = self.max_h
        self.shown_h = h
        if h > self.cfg.height and not final:
            self.fits = False

    def finish_session(self):
        """What a stopped display left on the screen is finished output from now on."""
        if self.phase == "stopped" and self.after_stop is not None:
            self.P += self.after_stop
            self.F = []
            self.after_stop = None

    def op(self, op):
        """Update for one successful operation."""
        k = op[0]
        if self.phase == "stopped" and k in ("P", "B", "BL"):
            self.finish_session()
        live = self.phase == "live"
        if k == "S":
            if self.phase == "stopped":
                self.restarted = True
                self.finish_session()
                self.phase = "idle"
            if self.phase == "idle":
                self.phase = "live"
                self.ever_started = True
                if self.cfg.kind == "progress":
                    self.rebuild()
                    self.display()
        elif k == "X":
            if live:
                self.rebuild()
                self.display(final=True)
                self.final_h = self.shown_h
                if self.cfg.transient and self.shown_h + 1 > self.cfg.height:
                    self.transient_ok = False
                self.phase = "stopped"
                if self.cfg.transient:
                    # nothing stays (an empty final frame still costs the line feed stop() writes)
                    self.after_stop = [""] if self.shown_h == 0 else []
                else:
                    # the final frame stays as finished output (Progress: padded to its tallest height)
                    self.after_stop = (self.F + [""] * (self.shown_h - len(self.F))) if self.shown_h else [""]
                if self.cfg.transient:
                    self.F = []
                if self.reset_shape:
                        self.max_h = 0
        elif k in ("B", "BL"):
            self.P.append("")
            if live:
                self.display()
        elif k == "P":
            self.P.extend(op[3])
            if live:
                self.display()
        elif k == "R":
            self.rebuild()
            if live:
                self.display()
        elif k == "U":
            if self.cfg.kind == "live":
                self.lines = list(op[1])
                if op[2] and live:
                    self.display()
            else:
                self.status = list(op[1])
                if live:
                    self.display()
        elif k == "A":
            self.tasks[self.next_id] = [op[1], 0, op[2]]
            self.next_id += 1
            self.rebuild()
            if live:
                self.display()
        elif k == "V":
            self.tasks[op[1]][1] += op[2]
        elif k == "H":
            self.tasks[op[1]][2] = op[2]
            if op[3]:
                self.rebuild()
                if live:
                    self.display()
        elif k == "D":
            del self.tasks[op[1]]
        return True


def trim(rows):
    rows = [r.rstrip(" ") for r in rows]
    while rows and rows[-1] == "":
        rows.pop()
    return rows


def screen_ok(cfg, scr, tr):
    """The executable statement of `live_screen` on the real output."""
    want = tr.P + tr.F
    got = scr.text_rows()
    if cfg.kind == "live":
        # exact: printed ++ frame ++ blank rows (trailing spaces of printed lines are part of the line)
        return got[: len(want)] == want and all(r == "" for r in got[len(want) :])
    return trim(got) == trim(want)


# ------------------------------------------------------------------------------------------------
# running one history on the real objects
# ------------------------------------------------------------------------------------------------
def prepare(cfg, ops):
    """Attach to every P op the lines a plain console writes for it."""
    out = []
    for op in ops:
        if op[0] == "P":
            out.append(("P", op[1], op[2], L.plain_lines(cfg.width, cfg.height, cfg.color, "str" if op[2].startswith("py") else op[2], op[1])))
        else:
            out.append(op)
    return out


def enc_ops(cfg, ops):
    return "|".join(L.enc_op(op, cfg, op[3] if op[0] == "P" else None) for op in ops)


def run_history(ctx, cfg, ops, faults=None, styled=False, evaluate=True, tag=""):
    """Correspondence of a try/except-per-operation history + direct evaluation after every operation."""
    ops = prepare(cfg, ops)
    faults = faults or L.Faults()
    fenc = faults.enc()
    s = L.Session(cfg, faults, styled)
    per_op = []
    written = []
    tr = Tracker(cfg)
    scr = term.Screen(height=cfg.height)
    evaluating = evaluate and fenc == "-"
    fail = None
    try:
        for i, op in enumerate(ops):
            err, chars = s.apply_catch(op)
            toks = term.tokenize(chars)
            per_op.append(err + ";" + L.enc_tokens(toks))
            written.append(chars)
            top_before = len(tr.P)
            scr.mark()
            clamped0 = scr.clamped
            scr.feed(toks)
            if evaluating and err == "ok":
                tr.op(op)
                if not tr.fits:
                    evaluating = False
                    ctx.note("eval_stop:frame-taller-than-screen(visible)")
                    continue
                what = None
                if tr.phase == "stopped" and op[0] == "X" and cfg.transient and tr.after_stop is not None and tr.final_h + 1 > cfg.height:
                    # the final line feed scrolls the top of a screen-filling frame out of reach
                    ok = screen_ok(cfg, scr, tr)
                    ctx.check(ok, "Live.stop(transient, frame fills the screen)", (cfg, [o[:3] for o in ops[: i + 1]]), "remnant of the transient frame: " + repr(scr.text_rows()), finding="transient-final-frame-fills-screen")
                    evaluating = False
                    continue
                if not screen_ok(cfg, scr, tr):
                    what = f"screen shows {scr.text_rows()!r}, expected printed {tr.P!r} then frame {tr.F!r}"
                elif scr.min_row_since_mark < top_before and tr.phase != "idle":
                    what = f"cursor moved to row {scr.min_row_since_mark}, above the live region starting at row {top_before}"
                elif scr.clamped != clamped0:
                    what = "a cursor-up hit the top of the screen (the erase sequence is longer than what is on screen)"
                elif tr.phase == "stopped" and not scr.visible:
                    what = "cursor still hidden after stop"
                elif tr.phase == "live" and scr.visible:
                    what = "cursor visible while the display is live"
                elif scr.unknown:
                    what = "escape sequence outside the modelled subset"
                if what is not None and fail is None:
                    fail = (i, what)
                    evaluating = False
            elif evaluating and err != "err:KeyError":
                evaluating = False
        ctl = s.ctl()
    finally:
        s.close()
    if evaluate and fenc == "-":
        finding = None
        if fail is not None:
            # counterfactual classifiers: the same history with (a) the argument-less print routed through the
            # hook, (b) the recorded shape forgotten by stop() — the failure is attributed only if that alone cures it
            prefix = ops[: fail[0] + 1]
            bare = any(op[0] in ("B", "BL") for op in prefix)
            restart = any(a[0] == "X" for a in prefix) and any(b[0] == "S" for j, b in enumerate(prefix) if any(a[0] == "X" for a in prefix[:j]))
            if bare and _passes_with(cfg, prefix, True, False):
                finding = "bare-print-bypasses-hook"
            elif restart and _passes_with(cfg, prefix, False, True):
                finding = "restart-stale-shape"
            elif bare and restart and _passes_with(cfg, prefix, True, True):
                finding = "bare-print-bypasses-hook+restart-stale-shape"
        ctx.check(fail is None, f"{cfg.kind} history", (cfg, [o[:3] for o in ops[: (fail[0] + 1) if fail else 0]]), fail[1] if fail else "", finding=finding)
    ctx.case("live_run", [cfg.enc(BARE_BYPASS, START_GUARD, RESET_SHAPE), cfg.enc_init(), fenc, enc_ops(cfg, ops)], "|".join(per_op) + "#" + ctl,
             shape=f"{cfg.kind}:{tag}", sample=f"{cfg!r} faults={fenc} ops={[o[:3] for o in ops]!r}")
    for op in ops:
        ctx.note("op:" + op[0] + (":" + op[2] if op[0] == "P" else ""))
    ctx.note(f"len:{min(len(ops) // 5 * 5, 40)}")
    return "".join(written), ops, tr


def _passes_with(cfg, ops, replace_bare, reset_shape):
    ops2 = [("P", [""], "seg", [""]) if (replace_bare and op[0] in ("B", "BL")) else op for op in ops]
    s = L.Session(cfg)
    tr = Tracker(cfg, reset_shape=reset_shape or RESET_SHAPE)
    scr = term.Screen(height=cfg.height)
    try:
        for op in ops2:
            err, chars = s.apply_catch(op)
            if reset_shape and op[0] == "X":
                s.live_obj()._live_render._shape = None
                if cfg.kind != "progress":
                    s.live_obj().vertical_overflow = cfg.overflow
            scr.mark()
            top_before = len(tr.P)
            scr.write(chars)
            if err == "err:KeyError":
                continue
            if err != "ok":
                return False
            tr.op(op)
            if not screen_ok(cfg, scr, tr) or scr.clamped or (scr.min_row_since_mark < top_before and tr.phase != "idle"):
                return False
        return True
    finally:
        s.close()


def spec_case(ctx, cfg, ops):
    """Lean `wf / printed / lastFrame` (what the theorems talk about) vs the Python tracker, on a fault-free
    history in which `stop` is last or absent."""
    tr = Tracker(cfg)
    ok = True
    for i, op in enumerate(ops):
        try:
            if op[0] == "X" and i != len(ops) - 1:
                ok = False
            tr.op(op)
        except KeyError:
            return  # an operation raising KeyError: not wf, and the tracker has nothing to say
    wf = ok and tr.fits and cfg.height >= 1
    if wf and tr.phase == "stopped" and cfg.transient:
        wf = tr.final_h + 1 <= cfg.height
    if not wf:
        return False, [], []
    F = tr.F if cfg.kind == "live" else trim(tr.F)
    return wf, tr.P, F


def specm_case(cfg, ops):
    """Multi-session specification (Lean `wfM / finished / liveFrameOf`) from the independent tracker."""
    tr = Tracker(cfg, reset_shape=1)
    for op in ops:
        try:
            tr.op(op)
        except KeyError:
            return None
    wf = tr.fits and tr.transient_ok and cfg.height >= 1
    if not wf:
        return "0;0:"
    rows = tr.P + (tr.after_stop if tr.after_stop is not None else tr.F)
    return "1;" + enc_str_list(trim(rows))


def with_case(ctx, cfg, ops, faults, raise_at):
    ops = prepare(cfg, ops)
    chars, raised, ctl, restored, exc = L.run_with(cfg, ops, faults, raise_at)
    fenc = faults.enc()
    scr = term.replay(chars, cfg.height)
    # direct evaluation of `cleanup_on_exception`
    finding = None
    if not restored and cfg.kind == "progress" and ops and exc == "Boom":
        lv_started = ctl.split(",")[0] == "1"
        # narrow: the display never finished __enter__ (still marked started, the body wrote nothing)
        if lv_started:
            finding = "progress-start-refresh-raises-leaks"
    ctx.check(restored and scr.visible, f"with {cfg.kind}: cleanup", (cfg, [o[:3] for o in ops], fenc, raise_at),
              f"after the block: sys.stdout/sys.stderr restored and hook stack empty = {restored}, cursor visible = {scr.visible}, exception = {exc}", finding=finding)
    injected = raise_at is not None and raise_at <= len(ops)
    if injected and exc is None:
        ctx.check(False, f"with {cfg.kind}: propagation", (cfg, [o[:3] for o in ops], fenc, raise_at), "the exception raised by the body did not leave the block")
    ctx.case("live_with", [cfg.enc(BARE_BYPASS, START_GUARD, RESET_SHAPE), cfg.enc_init(), fenc, enc_ops(cfg, ops), enc_opt(raise_at)],
             L.enc_tokens(term.tokenize(chars)) + "#" + enc_bool(raised) + "#" + ctl, shape=f"{cfg.kind}:{'fault' if fenc != '-' else 'body'}",
             sample=f"with {cfg!r}: ops={[o[:3] for o in ops]!r} faults={fenc} raise_at={raise_at}")


# ------------------------------------------------------------------------------------------------
# generators
# ------------------------------------------------------------------------------------------------
def frames_pool(W, H):
    """One representative of every class the code branches on: no line, one line, empty lines inside / at the
    end, exactly the screen height, one more, many more, a line wider than the console."""
    return [
        [],
        ["a"],
        [""],
        ["ab", "c"],
        ["a", "", "b", ""],
        ["x" * (W + 3), "y"],
        [f"r{i}" for i in range(max(H - 1, 1))],
        [f"r{i}" for i in range(H)],
        [f"r{i}" for i in range(H + 1)],
        [f"t{i}" for i in range(H + 3)],
        ["long" * 3, "z"],
    ]


def user_pool(W):
    return [
        (["hello"], "seg"),
        (["one", "two"], "seg"),
        ([""], "seg"),
        (["w" * (W + 2)], "seg"),
        (["plain"], "str"),
        (["[bold]mark[/bold]up"], "str"),
        (["logged"], "log"),
        (["via", "stdout"], "py"),
        (["via stderr"], "pye"),
    ]


def rand_ops(rng, cfg, n, allow_bare, session=True, split_writes=True):
    """Seeded structured history.  `session`: start early, stop last (mostly); otherwise anything goes."""
    W, H = cfg.width, cfg.height
    fp = frames_pool(W, H)
    up = user_pool(W)
    ops = []
    started = False
    stopped = False
    ids = []
    next_id = 0
    for i in range(n):
        r = rng.random()
        if session and not started and not stopped and r < 0.5:
            ops.append(("S",)); started = True
            continue
        if not session and r < 0.08:
            ops.append(("S",)); started, stopped = True, False
            continue
        if not session and r < 0.14:
            ops.append(("X",)); started = False; stopped = True
            continue
        if r < 0.30:
            lines, how = rng.choice(up)
            if how == "py" and not (started and cfg.redirect_stdout):
                how = "str"
            if how == "pye" and not (started and cfg.redirect_stderr):
                how = "str"
            if how == "log" and rng.random() < 0.6:
                how = "seg"
            if how == "py" and split_writes and rng.random() < 0.4:
                # the same through two writes: the second line only completes with the second write
                ops.append(("P", lines, "py1"))
                ops.append(("P", [L.PENDING], "py2"))
            else:
                ops.append(("P", lines, how))
        elif r < 0.36 and allow_bare:
            ops.append(("B",) if rng.random() < 0.6 else ("BL",))
        elif r < 0.50:
            ops.append(("R",))
        elif cfg.kind == "live":
            ops.append(("U", rng.choice(fp), rng.random() < 0.6))
        elif cfg.kind == "status":
            ops.append(("U", rng.choice([["work"], ["more", "lines"], ["a", "bb", "ccc"], ["x"]]), True))
        else:
            q = rng.random()
            if q < 0.35 or not ids:
                ops.append(("A", rng.choice(["ab", "cdef", "g", "task"]), rng.random() < 0.85))
                ids.append(next_id); next_id += 1
            elif q < 0.55:
                ops.append(("V", rng.choice(ids), rng.choice([1, 3, 10])))
            elif q < 0.8:
                ops.append(("H", rng.choice(ids), rng.random() < 0.5, rng.random() < 0.6))
            elif q < 0.9:
                j = rng.choice(ids); ids.remove(j)
                ops.append(("D", j))
            else:
                ops.append(("V", next_id + 5, 1) if rng.random() < 0.5 else ("D", next_id + 7))  # unknown id -> KeyError
    if session:
        if not started:
            ops.insert(0, ("S",))
        if rng.random() < 0.85:
            ops.append(("X",))
    return ops


def corpus():
    two = ["L1", "L2"]
    return [
        # argument-less print / log under each kind of display
        (L.Cfg("live", False, 20, 6, init=two), [("S",), ("R",), ("B",), ("U", ["M1", "M2"], True), ("X",)]),
        (L.Cfg("live", True, 20, 6, init=two), [("S",), ("R",), ("BL",), ("R",), ("X",)]),
        (L.Cfg("progress", False, 20, 6), [("A", "aa", True), ("A", "bb", True), ("S",), ("B",), ("R",), ("X",)]),
        (L.Cfg("status", True, 20, 6, init=["work", "more"]), [("S",), ("R",), ("B",), ("R",), ("X",)]),
        # a stopped display started again
        (L.Cfg("live", False, 20, 10, init=["1", "2", "3"]), [("S",), ("R",), ("X",), ("P", ["b"], "seg"), ("S",), ("U", ["M"], True), ("X",)]),
        (L.Cfg("live", True, 20, 10, init=["1", "2", "3"]), [("P", ["p1"], "seg"), ("P", ["p2"], "seg"), ("P", ["p3"], "seg"), ("S",), ("R",), ("X",), ("S",), ("R",), ("X",)]),
        (L.Cfg("progress", False, 20, 10), [("A", "aa", True), ("A", "bb", True), ("A", "cc", True), ("S",), ("X",), ("P", ["between"], "seg"), ("S",), ("X",)]),
        (L.Cfg("progress", True, 20, 10), [("P", ["p1"], "seg"), ("P", ["p2"], "seg"), ("A", "aa", True), ("A", "bb", True), ("A", "cc", True), ("S",), ("X",), ("S",), ("X",)]),
        (L.Cfg("status", True, 20, 10, init=["a", "b", "c"]), [("P", ["p1"], "seg"), ("P", ["p2"], "seg"), ("S",), ("R",), ("X",), ("S",), ("R",), ("X",)]),
        # overflow mode after a restart: the configured crop must still apply
        (L.Cfg("live", False, 20, 2, overflow="crop", init=["1"]), [("S",), ("R",), ("X",), ("S",), ("U", ["a", "b", "c"], True), ("P", ["x"], "seg"), ("X",)]),
        # a transient display whose last frame fills the screen
        (L.Cfg("live", True, 12, 2, overflow="crop", init=["a", "b"]), [("S",), ("R",), ("X",)]),
        (L.Cfg("progress", True, 20, 2), [("A", "aa", True), ("A", "bb", True), ("S",), ("X",)]),
    ]


def configs(rng, quick):
    out = []
    for kind in ("live", "progress", "status"):
        for transient in (False, True):
            if kind == "status" and not transient:
                continue
            for ov in (("crop", "ellipsis", "visible") if kind == "live" else ("visible",)):
                for (W, H) in ((20, 4), (12, 2), (30, 7), (16, 1)):
                    out.append((kind, transient, ov, W, H))
    return out


def make_cfg(rng, kind, transient, ov, W, H, vary=True):
    init = rng.choice(frames_pool(W, H)) if kind == "live" else (rng.choice([["work"], ["two", "lines"]]) if kind == "status" else [])
    return L.Cfg(kind, transient, W, H, overflow=ov,
                 redirect_stdout=(rng.random() < 0.8) if vary else True,
                 redirect_stderr=(rng.random() < 0.8) if vary else True,
                 color=rng.choice([None, "standard"]) if vary else None, init=init)


def run(ctx):
    rng = ctx.rng
    ctx.assumptions += [
        "terminal = the VT100 subset of harness/term.py / Model/Term.lean (text, LF with ONLCR, CR, CUU n, EL 2, DECTCEM, SGR, OSC 8), no auto-wrap, window of `height` rows over an unbounded scroll-back",
        "the console is a terminal (force_terminal), not dumb, not Jupyter, not legacy Windows; auto_refresh=False (threads are C11's subject)",
        "the user renderable is a parameter: the list of plain one-cell-wide character lines it yields; user output of print/log is the list of lines a console without a live display writes for the same call",
        "Progress is driven with one column '{description} {completed}' and a frozen clock; Status with the frozen first spinner frame",
        "wf (Lean, decidable): height >= 1, no operation raises, stop only as the last operation, every displayed frame fits the screen (automatic for crop/ellipsis), transient final frame leaves one free row",
    ]
    cfgs = configs(rng, ctx.quick)
    depth = 3 if ctx.quick else 4

    # ---- 0. corpus: the minimal histories of past findings, first thing on every run
    for cfg, ops in corpus():
        run_history(ctx, cfg, ops, tag="corpus")
    ctx.flush()

    # ---- 1. bounded-exhaustive short sessions per kind (every op alphabet member at every position)
    n_ex = 0
    for (kind, transient, ov, W, H) in cfgs:
        small = (W, H) in ((20, 4), (12, 2))
        if ctx.quick:
            if not small:
                continue
            depth = 3
        else:
            depth = 4 if small else 3
        fp = frames_pool(W, H)
        if kind == "live":
            alpha = [("P", ["u"], "seg"), ("P", ["p", "q"], "seg"), ("R",), ("U", fp[3], True), ("U", fp[8], True), ("U", [], True), ("U", fp[4], False), ("U", fp[7], True), ("S",)]
        elif kind == "status":
            alpha = [("P", ["u"], "seg"), ("R",), ("U", ["more", "lines"], True), ("U", ["x"], True), ("S",)]
        else:
            alpha = [("P", ["u"], "seg"), ("R",), ("A", "ab", True), ("A", "cdef", False), ("V", 0, 3), ("H", 0, False, True), ("H", 0, True, False), ("D", 0), ("S",)]
        for d in range(depth + 1):
            for body in itertools.product(alpha, repeat=d):
                if ctx.quick and d == depth and rng.random() < 0.6:
                    continue
                cfg = L.Cfg(kind, transient, W, H, overflow=ov, init=fp[1] if kind == "live" else (["work"] if kind == "status" else []))
                pre = [("A", "t0", True)] if kind == "progress" and rng.random() < 0.5 else []
                run_history(ctx, cfg, pre + [("S",)] + list(body) + [("X",)], tag="exhaustive")
                n_ex += 1
    ctx.note("exhaustive_sessions", n_ex)
    ctx.flush()

    # ---- 2. seeded random sessions up to 40 operations, evaluated after every operation
    n_rand = 500 if ctx.quick else 12000
    spec_batch = []
    specm_batch = []
    outputs = []
    for j in range(n_rand):
        kind, transient, ov, W, H = rng.choice(cfgs)
        cfg = make_cfg(rng, kind, transient, ov, W, H)
        n = rng.choice([3, 6, 10, 20, 40]) if j % 3 else rng.randint(1, 40)
        allow_bare = rng.random() < 0.15
        ops = rand_ops(rng, cfg, n, allow_bare)
        chars, pops, tr = run_history(ctx, cfg, ops, styled=rng.random() < 0.3, tag="session")
        if j % 4 == 0:
            outputs.append((cfg.height, chars))
        if not any(o[0] == "X" for o in pops[:-1]):
            spec_batch.append((cfg, pops))
        specm_batch.append((cfg, pops))
    # arbitrary histories (restarts, stop in the middle, faults with try/except around every op): correspondence only
    for j in range(n_rand // 2):
        kind, transient, ov, W, H = rng.choice(cfgs)
        cfg = make_cfg(rng, kind, transient, ov, W, H)
        # (argument-less prints are mixed with restarts only once F19 is repaired: one cause per failing history)
        ops = rand_ops(rng, cfg, rng.randint(1, 40), BARE_BYPASS == 0 and rng.random() < 0.3, session=False)
        fl = L.Faults(exact=rng.sample(range(30), rng.randint(0, 4)), from_=rng.choice([None, None, rng.randint(0, 30)])) if kind != "status" and rng.random() < 0.6 else None
        chars, pops, _ = run_history(ctx, cfg, ops, faults=fl, evaluate=fl is None, tag="arbitrary")
        if j % 4 == 0:
            outputs.append((cfg.height, chars))
        if fl is None:
            specm_batch.append((cfg, pops))
    ctx.flush()

    # ---- 3. Lean replay vs Python screen oracle on the real streams (+ a few synthetic ones)
    for H, chars in outputs:
        scr = term.replay(chars, H)
        ctx.case("term_replay", [H, L.enc_tokens(term.tokenize(chars))],
                 enc_str_list(scr.text_rows()) + f";{scr.row};{scr.col};{enc_bool(scr.visible)}", shape="stream")
    for _ in range(300 if ctx.quick else 5000):
        H = rng.randint(1, 5)
        toks = []
        for _ in range(rng.randint(0, 25)):
            toks.append(rng.choice([("T", rng.choice(["a", "bc", "   ", "xyz"])), ("LF",), ("LF",), ("CR",), ("CUU", rng.choice([0, 1, 1, 2, 5])), ("EL2",), ("SHOW",), ("HIDE",)]))
        scr = term.Screen(height=H).feed(toks)
        ctx.case("term_replay", [H, L.enc_tokens(toks)], enc_str_list(scr.text_rows()) + f";{scr.row};{scr.col};{enc_bool(scr.visible)}", shape="synthetic")
    ctx.flush()

    # ---- 4. the specification the theorems are stated with == the tracker used for direct evaluation
    for cfg, pops in spec_batch:
        r = spec_case(ctx, cfg, pops)
        if r is None:
            continue
        wf, P, F = r
        ctx.case("live_spec", [cfg.enc(0, START_GUARD, RESET_SHAPE), cfg.enc_init(), enc_ops(cfg, pops)], _SpecAnswer(wf, P, F, cfg.kind), shape=f"{cfg.kind}:wf{int(wf)}")
    ctx.flush()

    for cfg, pops in specm_batch + [(c, prepare(c, o)) for c, o in corpus()]:
        ans = specm_case(cfg, pops)
        if ans is not None:
            ctx.case("live_specm", [cfg.enc(0, START_GUARD, 1), cfg.enc_init(), enc_ops(cfg, pops)], ans, shape=f"{cfg.kind}:wf{ans[0]}:{'multi' if sum(o[0] == 'X' for o in pops) > 1 else 'single'}")
    ctx.flush()

    # ---- 5. exceptions: every render-call index and every block position
    n_with = 60 if ctx.quick else 1500
    for j in range(n_with):
        kind, transient, ov, W, H = rng.choice(cfgs)
        cfg = make_cfg(rng, kind, transient, ov, W, H)
        # (no split writes here: a line left pending in the FileProxy when the block is left is outside wf —
        #  'prints end in a new line' — and outside the model)
        body = [o for o in rand_ops(rng, cfg, rng.randint(0, 8 if ctx.quick else 14), False, session=False, split_writes=False)]
        if kind == "progress" and rng.random() < 0.7:
            pass
        # number of fault-injectable calls in the fault-free run
        probe = L.Faults()
        L.run_with(cfg, prepare(cfg, body), probe, None)
        ncalls = probe.calls
        for pos in range(len(body) + 2):
            with_case(ctx, cfg, body, L.Faults(), pos)
        with_case(ctx, cfg, body, L.Faults(), None)
        if kind != "status":
            for k in range(ncalls + 1):
                with_case(ctx, cfg, body, L.Faults(exact=[k]), None)
                if k % 2 == 0:
                    with_case(ctx, cfg, body, L.Faults(from_=k), None)
        ctx.note(f"with:{kind}:calls{min(ncalls, 10)}")
    # Progress with tasks added before the block: the refresh inside start() is a render call too
    for j in range(20 if ctx.quick else 300):
        W, H = rng.choice([(20, 4), (30, 7)])
        cfg = make_cfg(rng, "progress", rng.random() < 0.5, "visible", W, H)
        _progress_prestart(ctx, cfg, rng)
    ctx.flush()
    ctx.rule = (
        "every session start;body;stop with body over a per-kind alphabet (prints, refresh, update to growing/shrinking/empty/"
        "screen-filling/too-tall frames, task add/advance/hide/show/remove, redundant start) up to length %d, for Live/Progress/Status x "
        "transient x crop/ellipsis/visible x screen sizes; seeded random histories up to 40 operations (sessions, and arbitrary ones with "
        "restarts and injected faults); with-blocks with an exception at every render-call index and every block position; "
        "distinct = distinct canonical requests (configuration + history)" % depth
    )


class _SpecAnswer:
    """Canonical answer of `live_spec` built from the tracker; frames of Progress are compared modulo the
    padding the Progress discipline adds (trailing spaces / trailing blank rows)."""

    def __init__(self, wf, P, F, kind):
        self.wf, self.P, self.F, self.kind = wf, P, F, kind

    def __str__(self):
        return enc_bool(self.wf) + ";" + enc_str_list(self.P) + ";" + enc_str_list(self.F)


def _progress_prestart(ctx, cfg, rng):
    """add tasks, then `with progress:` with a fault at every call index (the first ones fall inside start())."""
    ntasks = rng.randint(1, 3)
    body = prepare(cfg, rand_ops(rng, cfg, rng.randint(0, 5), False, session=False, split_writes=False))
    pre = [("A", f"t{i}", True) for i in range(ntasks)]
    for k in [None] + list(range(0, 2 * ntasks + 2)):
        faults = L.Faults(exact=[] if k is None else [k])
        s = L.Session(cfg, faults)
        try:
            exc = None
            for op in pre:
                s.apply_catch(op)
            try:
                with s.obj:
                    for op in body:
                        s.apply(op)
            except (L.Boom, KeyError) as e:
                exc = e
            restored = s.restored()
            chars = s.take()
            ctl = s.ctl()
        finally:
            s.close()
        scr = term.replay(chars, cfg.height)
        finding = None
        if not restored and isinstance(exc, L.Boom) and ctl.split(",")[0] == "1":
            finding = "progress-start-refresh-raises-leaks"
        ctx.check(restored and scr.visible, "with progress (tasks added before the block): cleanup", (cfg, pre, [o[:3] for o in body], faults.enc()),
                  f"after the block: io/hook restored = {restored}, cursor visible = {scr.visible}, exception = {type(exc).__name__ if exc else None}", finding=finding)
        ctx.case("live_pre_with", [cfg.enc(BARE_BYPASS, START_GUARD, RESET_SHAPE), cfg.enc_init(), faults.enc(), enc_ops(cfg, pre), enc_ops(cfg, body), "-"],
                 L.enc_tokens(term.tokenize(chars)) + "#" + enc_bool(exc is not None) + "#" + ctl, shape="leak" if not restored else "clean",
                 sample=f"{cfg!r}: {pre!r}; with progress: {[o[:3] for o in body]!r} faults={faults.enc()}")
        ctx.note("prestart:" + ("leak" if not restored else "clean"))


def replay(ctx, case):
    print("site:", case.get("site"))
    print("input:", case.get("input"))
    print("what:", case.get("what"))
    print("re-run `./check C10` to re-evaluate (the generators are seeded: VERIF_SEED=%s)" % case.get("seed"))
    return False


MANIFEST = {
    "text": "Lean 4 theorems (Props/C10.lean) about an executable state-machine model of rich/live.py, live_render.py, the live part of "
    "progress.py and status.py writing to a VT100-subset terminal with a window of `height` rows over an unbounded scroll-back: "
    "live_screen (for EVERY well-formed history, of any length, replaying what was written leaves exactly printed lines ++ last refreshed "
    "frame ++ blank rows; nothing after a transient stop), cursor_never_above_region (for every operation the cursor stays at or below the "
    "first row under the lines printed before it), cursor_visible_after_stop / stop_shows_cursor, shown_fits_of_crop, cleanup_on_exception "
    "(for EVERY fault predicate over render-call indices, every body, every raise position: hook depth, sys.stdout/sys.stderr proxies and "
    "restore slots, started flag and cursor visibility are restored and a body exception leaves the block), run_balanced. The theorems hold "
    "for the repaired code variants, which are what /repo contains now; machine-checked witnesses (decide) show that rich 9.10.0 as found broke them: "
    "old_bare_print_leaves_remnant (F19, before fix b373465), old_progress_start_leaks (before fix 4e4f7e5), old_restart_erases_printed_lines "
    "(before fix b4577f9); transient_frame_filling_screen_leaves_remnant is the witness of the known finding that remains. Tie: per-operation "
    "comparison of the characters real Live/Progress/Status objects write (tokenised by the independent harness/term.py) with the model's "
    "terminal operations plus the control state, ~9k histories per quick run / ~250k thorough (bounded-exhaustive sessions over a per-kind "
    "alphabet, seeded random histories up to 40 operations with restarts and injected faults, with-blocks with an exception at every "
    "render-call index and every block position), Lean replay vs Python screen oracle, Lean wf/printed/lastFrame vs an independent Python "
    "tracker; and the theorems' executable statements evaluated on rich's own output after every operation.",
    "note": "Partial: live_screen is proved for ONE session (stop only as the last operation); histories that start a stopped display again "
    "are covered by the model, the correspondence, direct evaluation and a witness, not by an unbounded theorem. wf excludes (explicitly, "
    "decidably) visible-overflow frames taller than the screen (documented by rich as not clearable; Progress has no overflow handling at all) "
    "and transient displays whose last frame leaves no free row (known finding, no small repair). Parameters, not modelled: what the user "
    "renderable yields (a list of plain one-cell-wide lines), user output of print/log (the lines a console without live display writes), "
    "Progress with one text column and a frozen clock, Status with its first spinner frame. Assumed: terminal console (force_terminal), not "
    "dumb / Jupyter / legacy Windows, auto_refresh=False (threads are C11), no terminal resize, no auto-wrap at the right margin, LF acts as "
    "CR LF (tty ONLCR). Trusted: Lean kernel; axioms propext/Classical.choice/Quot.sound; harness/term.py, lib_live.py and this module.",
    "design_ref": "DESIGN.md section 7, C10 (and section 8, F19)",
}
