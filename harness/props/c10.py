"""C10 — Live and progress displays leave a correct screen after any history.

Correspondence: the Lean state machine (Model/Live.lean) and terminal (Model/Term.lean) vs the real
rich Live / Progress / Status objects writing to a StringIO terminal: the characters written by every
single operation are tokenised (harness/term.py) and compared with the model's terminal operations,
together with the control state (started, hook depth, sys.stdout / sys.stderr proxy depth, restore slots,
recorded shape, task index); `with` blocks with an exception injected at every render-call index and at
every block position; the Lean `replay` vs the Python screen oracle; the Lean specification (wf / printed /
lastFrame and, for any number of sessions, wfM / finished / liveFrameOf, which the theorems are stated with)
vs the independent Python tracker used below.

Direct evaluation (3d): the emitted characters of the real objects are replayed on the Python screen
oracle after *every* operation and compared with what an independent tracker says must be visible:
printed lines, then the last refreshed frame, nothing else; cursor never above the live region, never
clamped at the top of the window; cursor visible after stop; cleanup after every injected exception.
"""
import itertools

import lib_live as L
import term
from core import enc_bool, enc_opt, enc_str_list

PROPERTY = "C10"

# CODE VARIANT FLAGS — the value that matches the code in /repo as it is now (see Model/Live.lean `Cfg`); all seven defects of
# rich 9.10.0 as found (the seventh: of its first repair) are repaired there (BARE_BYPASS: 0 is the repaired value; for the other six 1 is the repaired value)
BARE_BYPASS = 0   # 1: console.print()/log() without arguments call Console.line() and bypass the render hooks (F19, as found); 0: repaired, fix b373465
START_GUARD = 1   # 0: as found, Progress.start() calls refresh() unprotected after installing hook / redirection / hidden cursor; 1: repaired, fix 4e4f7e5
BLANK_FIX = 1     # 0: as found, restore_cursor() goes up `height` rows: a transient display with an empty last frame leaves a blank line; 1: repaired, fix bd10e80
FLUSH_FIX = 1     # 0: as found, stop() does not flush the FileProxy objects before its last refresh: text pending from print(..., end="") is written after the last frame; 1: repaired, fix 4c3921f
GUARD_BASE = 1    # 0: the guard of Progress.start as fix 4e4f7e5 wrote it, `except Exception:` — KeyboardInterrupt / SystemExit / GeneratorExit get past it; 1: `except BaseException:`, fix fc3f517
DISABLE_FIX = 1   # 0: as found, Progress(disable=True).stop() still writes its line feed (and, transient, goes back up); 1: repaired, fix 363ded9
RESET_SHAPE = 1   # 0: as found, stop() keeps _live_render._shape, so a later start() erases rows of finished output; 1: repaired, fix b4577f9


# ------------------------------------------------------------------------------------------------
# independent specification tracker (what must be on the screen) — shares nothing with the Lean model
# ------------------------------------------------------------------------------------------------
class Tracker:
    def __init__(self, cfg, reset_shape=None, blank_fix=True):
        self.cfg = cfg
        self.blank_fix = blank_fix   # True: the specification (a transient display leaves nothing); False: what the as-found code (before fix bd10e80) leaves
        self.reset_shape = RESET_SHAPE if reset_shape is None else reset_shape
        self.P = []            # printed lines, in order
        self.Pw = []           # the same as ROWS of a terminal that wraps at its right margin (a line wider than the console — crop=False,
        #                        soft_wrap=True, console.out — takes several rows; identical to P when every line fits)
        self.F = []            # frame on display (as the user should see it)
        self.phase = "idle"    # idle | live | stopped
        self.lines = list(cfg.init) if cfg.kind == "live" else []   # current renderable (Live)
        self.status = list(cfg.init)
        self.tasks = {}        # id -> [desc, completed, visible, total]   (insertion ordered)
        self.width = cfg.width # console width right now
        self.spin = "⠋"        # what the Status spinner shows right now (observed: opaque)
        self.spin_seq = None   # recorded spinner frames, one per render of the display
        self.spec_disable = True   # a disabled Progress writes nothing at stop (the specification)
        self.renders = 0
        self.table = []        # Progress: rows of the table built by the last refresh
        self.next_id = 0
        self.max_h = 0         # Progress pads its frame to the tallest one so far
        self.overflow = cfg.overflow
        self.fits = True       # every frame put on display so far fitted the screen
        self.ever_started = False
        self.restarted = False
        self.after_stop = None
        self.buf = {False: "", True: ""}   # text pending (no final new line) in the redirected stdout / stderr
        self.pending_at_stop = False
        self.transient_ok = True   # every transient stop so far left one free row for its line feed

    def emit(self, lines):
        """`lines` are printed: they join the printed lines; on the screen each takes the rows auto-wrap gives it."""
        lines = list(lines)
        self.P.extend(lines)
        for l in lines:
            self.Pw.extend(wrap_rows(l, self.width))

    # the frame the user is entitled to see for the current renderable
    def frame(self, final=False):
        c = self.cfg
        if c.kind == "progress":
            # one grid column, no_wrap, overflow "ellipsis": as wide as the widest row but not wider than the console
            colw = min(max([term.cell_len(r) for r in self.table] + [0]), self.width)
            return [r if term.cell_len(r) <= colw else term.crop_cells(r, colw - 1) + "…" for r in self.table]
        if c.kind == "status":
            ls = [((self.spin + " ") if i == 0 else "  ") + l for i, l in enumerate(self.status)]
        else:
            ls = [term.crop_cells(l, self.width) for l in self.lines]
        ov = "visible" if final else self.overflow
        if len(ls) > c.height:
            if ov == "crop":
                ls = ls[: c.height]
            elif ov == "ellipsis":
                pad = self.width - 3
                ls = ls[: c.height - 1] + [" " * (pad // 2) + "..." + " " * (pad - pad // 2)]
        return ls

    def rebuild(self):
        """Progress.refresh() rebuilds the tasks table (also while the display is not live)."""
        if not self.cfg.disable:
            self.table = [f"{d} {n}/{t}" for d, n, v, t in self.tasks.values() if v]

    def display(self, final=False):
        if self.spin_seq is not None and self.renders < len(self.spin_seq):
            self.spin = self.spin_seq[self.renders]     # replaying recorded spinner frames (specification runs)
        self.renders += 1
        self.F = self.frame(final)
        h = len(self.F)
        if self.cfg.kind == "progress":
            self.max_h = max(self.max_h, h)
            h = self.max_h
        self.shown_h = h
        if h > self.cfg.height and not final:
            self.fits = False

    def finish_session(self):
        """What a stopped display left on the screen is finished output from now on."""
        if self.phase == "stopped" and self.after_stop is not None:
            self.emit(self.after_stop)
            self.F = []
            self.after_stop = None

    def op(self, op):
        """Update for one successful operation."""
        k = op[0]
        if self.cfg.disable and k in ("R", "A", "H", "E", "ER", "T0", "T1"):
            # Progress(disable=True): refresh() does nothing; only the bookkeeping of the tasks happens
            k = {"R": "nop", "A": "A-", "H": "H-", "E": "E-", "ER": "E-", "T0": "E-", "T1": "E-"}[k]
        elif k in ("ER", "T0", "T1"):
            k = "E"
        if self.phase == "stopped" and k in ("P", "B", "BL"):
            self.finish_session()
        live = self.phase == "live"
        if k == "S":
            if self.phase == "stopped":
                self.restarted = True
                self.finish_session()
                self.phase = "idle"
            if self.phase == "idle":
                self.phase = "live"
                self.buf = {False: "", True: ""}
                self.ever_started = True
                if self.cfg.kind == "progress" and not self.cfg.disable:
                    self.rebuild()
                    self.display()
        elif k == "W":
            err, lines, tail = op[1], op[2], op[3]
            if live and self.cfg.terminal and (self.cfg.redirect_stderr if err else self.cfg.redirect_stdout):
                if lines:
                    self.emit([self.buf[err] + lines[0]] + list(lines[1:]))
                    self.buf[err] = tail
                    self.display()
                else:
                    self.buf[err] += tail
        elif k == "X":
            if live:
                # what print(..., end="") left pending is completed above the display, stdout first
                for e in (False, True):
                    if self.buf[e]:
                        self.pending_at_stop = True
                        self.emit([self.buf[e]])
                        self.buf[e] = ""
                        self.display()      # printed like any other line: the display is redrawn below it
                self.rebuild()
                self.display(final=True)
                self.final_h = self.shown_h
                if self.cfg.transient and max(self.shown_h, 1 if BLANK_FIX else 0) + 1 > self.cfg.height:
                    self.transient_ok = False
                self.phase = "stopped"
                if self.cfg.disable and self.spec_disable:
                    self.after_stop = []      # a disabled display has no frame: nothing, transient or not
                elif self.cfg.transient:
                    # nothing stays (`left_blank`: what the as-found code, before fix bd10e80, leaves for an empty last frame, used for wf/specm only)
                    self.after_stop = [""] if (self.shown_h == 0 and not self.blank_fix) else []
                else:
                    # the final frame stays as finished output (Progress: padded to its tallest height)
                    self.after_stop = (self.F + [""] * (self.shown_h - len(self.F))) if self.shown_h else [""]
                if self.cfg.transient:
                    self.F = []
                if self.reset_shape:
                        self.max_h = 0
        elif k in ("B", "BL"):
            self.emit([""])
            if live:
                self.display()
        elif k == "P":
            self.emit(op[3])
            if live:
                self.display()
        elif k == "R":
            self.rebuild()
            if live:
                self.display()
        elif k == "U":
            if self.cfg.kind == "live":
                self.lines = list(op[1])
                if op[2] and live:
                    self.display()
            else:
                self.status = list(op[1])
                if live:
                    self.display()
        elif k in ("A", "A-"):
            self.tasks[self.next_id] = [op[1], 0, op[2], op[3] if len(op) > 3 else 100]
            self.next_id += 1
            if k == "A":
                self.rebuild()
                if live:
                    self.display()
        elif k == "V":
            self.tasks[op[1]][1] += op[2]
        elif k in ("H", "H-"):
            self.tasks[op[1]][2] = op[2]
            if op[3] and k == "H":
                self.rebuild()
                if live:
                    self.display()
        elif k in ("E", "E-"):
            t = self.tasks[op[1]]
            o0 = op[0]
            kw = {"total": op[2]} if o0 == "T0" else ({"advance": 1} if o0 == "T1" else dict(op[2]))
            if o0 == "ER":
                kw.setdefault("completed", 0)
            if kw.get("total") is not None:
                t[3] = kw["total"]
            if kw.get("advance") is not None:
                t[1] += kw["advance"]
            if kw.get("completed") is not None:
                t[1] = kw["completed"]
            if kw.get("description") is not None:
                t[0] = kw["description"]
            if kw.get("visible") is not None:
                t[2] = kw["visible"]
            refresh = o0 in ("ER", "T1") or (o0 == "E" and op[3])
            if refresh and k == "E":
                self.rebuild()
                if live:
                    self.display()
        elif k == "Z":
            self.width = op[1]
        elif k == "D":
            del self.tasks[op[1]]
        return True


def wrap_rows(line, width):
    """The rows a terminal with auto-wrap at `width` cells shows for one written line (deferred wrap: a row may be
    filled exactly; a double-width character that does not fit any more goes to the next row)."""
    rows, cur, col = [], "", 0
    for ch in line:
        w = term.wcwidth(ch)
        if w <= 0:
            continue
        if col + w > width and col > 0:
            rows.append(cur)
            cur, col = "", 0
        cur += ch
        col += w
    rows.append(cur)
    return rows


STYLED_STREAMS = []   # real streams that carry SGR / OSC 8 sequences (filled by run_history, consumed by styled_stream_cases)
STYLED_CAP = 900


def styled_stream_cases(ctx):
    """`styles_are_zero_width` / `live_screen_styled` on real rich: for every styled stream the real objects wrote,
    (a) direct evaluation on the Python screen oracle: replaying the stream and replaying its style-free normal form leave
    the same rows, cursor and visibility; (b) Lean `plainOps` == Python `plain_ops` on the stream (the hypothesis of the
    styled theorems is what `live_run` compares); (c) Lean `replay` of the stream WITH its style operations == the oracle."""
    for H, W, chars in STYLED_STREAMS:
        toks = term.tokenize(chars)
        a = term.Screen(height=H, width_fn=term.wcwidth).feed(toks)
        b = term.Screen(height=H, width_fn=term.wcwidth).feed(term.plain_ops(toks))
        same = (a.text_rows(), a.row, a.col, a.visible) == (b.text_rows(), b.row, b.col, b.visible)
        ctx.check(same, "styles are zero-width", (H, chars), f"with styles {a.text_rows()!r} @({a.row},{a.col}), without {b.text_rows()!r} @({b.row},{b.col})")
        senc = L.enc_tokens_styled(toks)
        ctx.case("term_plain", [senc], L.enc_tokens(toks), shape="styled-stream")
        ctx.case("term_replay", [H, senc], enc_str_list(a.text_rows()) + f";{a.row};{a.col};{enc_bool(a.visible)}", shape="styled-stream")
        ctx.note("styled_stream:sgr-inside-line" if any(x[0] == "T" and y[0] == "SGR" and z[0] == "T" for x, y, z in zip(toks, toks[1:], toks[2:])) else "styled_stream:sgr-between-lines")
    ctx.flush()


def trim(rows):
    rows = [r.rstrip(" ") for r in rows]
    while rows and rows[-1] == "":
        rows.pop()
    return rows


def screen_ok(cfg, scr, tr):
    """The executable statement of `live_screen` on the real output."""
    want = tr.Pw + tr.F
    got = scr.text_rows()
    if cfg.kind == "live":
        # exact: printed ++ frame ++ blank rows (trailing spaces of printed lines are part of the line)
        return got[: len(want)] == want and all(r == "" for r in got[len(want) :])
    return trim(got) == trim(want)


# ------------------------------------------------------------------------------------------------
# running one history on the real objects
# ------------------------------------------------------------------------------------------------
def enc_cfg(cfg, spins="", faults=None, bare=None, reset=None):
    """The configuration as the driver reads it, with the code-variant flags of this module."""
    return cfg.enc(BARE_BYPASS if bare is None else bare, START_GUARD, RESET_SHAPE if reset is None else reset, BLANK_FIX, FLUSH_FIX, spins,
                   fault_base=bool(faults is not None and faults.base), guard_base=GUARD_BASE, disable_fix=DISABLE_FIX)


def prepare(cfg, ops):
    """Attach to every P op the lines a plain console writes for it."""
    out = []
    width = cfg.width
    for op in ops:
        if op[0] == "Z":
            width = op[1]
        if op[0] == "P" and len(op) == 3:
            out.append(("P", op[1], op[2], L.plain_lines(width, cfg.height, cfg.color, "str" if op[2].startswith("py") else op[2], op[1], cfg.terminal, cfg.dumb)))
        else:
            out.append(op)
    return out


def enc_ops(cfg, ops):
    return "|".join(L.enc_op(op, cfg, op[3] if op[0] == "P" else None) for op in ops)


def run_history(ctx, cfg, ops, faults=None, styled=False, evaluate=True, tag=""):
    """Correspondence of a try/except-per-operation history + direct evaluation after every operation."""
    ops = prepare(cfg, ops)
    faults = faults or L.Faults()
    fenc = faults.enc()
    s = L.Session(cfg, faults, styled)
    per_op = []
    written = []
    tr = Tracker(cfg)
    scr = term.Screen(height=cfg.height, width_fn=term.wcwidth, width=cfg.width)   # auto-wrap: what is wider than the terminal spills
    evaluating = evaluate and fenc == "-" and cfg.terminal and not cfg.dumb   # the screen property is about terminals
    fail = None
    try:
        for i, op in enumerate(ops):
            err, chars = s.apply_catch(op)
            if err.startswith("err:Other:"):
                ctx.check(False, f"{cfg.kind} history: only injected exceptions are raised", (cfg, [o[:3] for o in ops[: i + 1]], fenc),
                          f"operation {op[:3]!r} raised {err[10:]}, which nobody injected")
            toks = term.tokenize(chars)
            per_op.append(err + ";" + L.enc_tokens(toks))
            written.append(chars)
            top_before = len(tr.Pw)
            scr.mark()
            clamped0 = scr.clamped
            scr.feed(toks)
            if op[0] == "Z":
                scr.width = op[1]
            if s.spins:
                tr.spin = s.spins[-1]
            if evaluating and err == "ok":
                tr.op(op)
                if not tr.fits:
                    evaluating = False
                    ctx.note("eval_stop:frame-taller-than-screen(visible)")
                    continue
                what = None
                if tr.phase == "stopped" and op[0] == "X" and cfg.transient and tr.after_stop is not None and max(tr.final_h, 1) + 1 > cfg.height:
                    # the final line feed scrolls the top of a screen-filling frame out of reach
                    ok = screen_ok(cfg, scr, tr)
                    ctx.check(ok, "Live.stop(transient, frame fills the screen)", (cfg, [o[:3] for o in ops[: i + 1]]), "remnant of the transient frame: " + repr(scr.text_rows()), finding="transient-final-frame-fills-screen")
                    evaluating = False
                    continue
                if not screen_ok(cfg, scr, tr):
                    what = f"screen shows {scr.text_rows()!r}, expected printed {tr.P!r} then frame {tr.F!r}"
                elif scr.min_row_since_mark < top_before and tr.phase != "idle":
                    what = f"cursor moved to row {scr.min_row_since_mark}, above the live region starting at row {top_before}"
                elif scr.clamped != clamped0:
                    what = "a cursor-up hit the top of the screen (the erase sequence is longer than what is on screen)"
                elif tr.phase == "stopped" and not scr.visible:
                    what = "cursor still hidden after stop"
                elif tr.phase == "live" and scr.visible:
                    what = "cursor visible while the display is live"
                elif scr.unknown:
                    what = "escape sequence outside the modelled subset"
                if what is not None and fail is None:
                    fail = (i, what)
                    evaluating = False
            elif evaluating and err != "err:KeyError":
                evaluating = False
        ctl = s.ctl()
        spins = "".join(s.spins)
    finally:
        s.close()
    if evaluate and fenc == "-":
        finding = None
        if fail is not None:
            # counterfactual classifiers: the same history with (a) the argument-less print routed through the
            # hook, (b) the recorded shape forgotten by stop() — the failure is attributed only if that alone cures it
            prefix = ops[: fail[0] + 1]
            bare = any(op[0] in ("B", "BL") for op in prefix)
            restart = any(a[0] == "X" for a in prefix) and any(b[0] == "S" for j, b in enumerate(prefix) if any(a[0] == "X" for a in prefix[:j]))
            if cfg.transient and not BLANK_FIX and any(a[0] == "X" for a in prefix) and _passes_with(cfg, prefix, False, False, blank=True):
                finding = "transient-empty-frame-leaves-blank-line"
            elif not FLUSH_FIX and any(a[0] == "W" for a in prefix) and _passes_with(cfg, prefix, False, False, flush=True):
                finding = "pending-partial-line-flushed-after-last-frame"
            elif cfg.disable and not DISABLE_FIX and any(a[0] == "X" for a in prefix) and _passes_with(cfg, prefix, False, False, quiet_stop=True):
                finding = "disabled-progress-stop-writes-newline"
            elif bare and _passes_with(cfg, prefix, True, False):
                finding = "bare-print-bypasses-hook"
            elif restart and _passes_with(cfg, prefix, False, True):
                finding = "restart-stale-shape"
            elif bare and restart and _passes_with(cfg, prefix, True, True):
                finding = "bare-print-bypasses-hook+restart-stale-shape"
        ctx.check(fail is None, f"{cfg.kind} history", (cfg, [o[:3] for o in ops[: (fail[0] + 1) if fail else 0]]), fail[1] if fail else "", finding=finding)
    ctx.case("live_run", [enc_cfg(cfg, spins, faults), cfg.enc_init(), fenc, enc_ops(cfg, ops)], "|".join(per_op) + "#" + ctl,
             shape=f"{cfg.kind}:{tag}", sample=f"{cfg!r} faults={fenc} ops={[o[:3] for o in ops]!r}")
    for op in ops:
        ctx.note("op:" + op[0] + (":" + op[2] if op[0] == "P" else ""))
    ctx.note(f"len:{min(len(ops) // 5 * 5, 40)}")
    tr.spins = spins
    if len(STYLED_STREAMS) < STYLED_CAP and "\x1b[" in "".join(written) and any(t[0] in ("SGR", "OSC8") for w in written for t in term.tokenize(w)):
        STYLED_STREAMS.append((cfg.height, cfg.width, "".join(written)))
    if evaluate and fenc == "-" and not cfg.terminal and cfg.kind == "live":
        _file_check(ctx, cfg, ops, "".join(written))
    return "".join(written), ops, tr


def _file_check(ctx, cfg, ops, text):
    """A Live writing to a file (not a terminal): what the file holds after a history without restart is the
    printed lines and then — once, at stop, unless transient — the last frame; no control codes at all."""
    if sum(o[0] == "S" for o in ops) > 1 and any(o[0] == "X" for o in ops):
        return
    tr = Tracker(cfg)
    want = []
    for idx, op in enumerate(ops):
        if op[0] == "W":
            continue              # stdout / stderr are not redirected when the console is not a terminal
        if op[0] == "Z":
            tr.width = op[1]
        was_live = tr.phase == "live"
        if op[0] == "P":
            want += op[3]
        elif op[0] in ("B", "BL"):
            want.append("")
        elif op[0] == "U":
            tr.lines = list(op[1])
        tr_phase_before = tr.phase
        if op[0] in ("S", "X"):
            tr.op(op)
        if op[0] == "X" and was_live and not cfg.transient:
            frame = [term.crop_cells(l, tr.width) for l in tr.lines]
            ctx.note("file:final-frame")
            want_text = "".join(l + "\n" for l in want) + "\n".join(frame)
            want = None
            rest = [o for o in ops[idx + 1:] if o[0] in ("P", "B", "BL")]
            want_text += "".join(l + "\n" for o in rest for l in (o[3] if o[0] == "P" else [""]))
            ctx.check(text == want_text and "\x1b" not in text, "Live on a file", (cfg, [o[:3] for o in ops]),
                      f"file holds {text!r}, expected {want_text!r}")
            return
    want_text = "".join(l + "\n" for l in want)
    ctx.check(text == want_text and "\x1b" not in text, "Live on a file", (cfg, [o[:3] for o in ops]), f"file holds {text!r}, expected {want_text!r}")


def _passes_with(cfg, ops, replace_bare, reset_shape, blank=False, flush=False, quiet_stop=False):
    ops2 = [("P", [""], "seg", [""]) if (replace_bare and op[0] in ("B", "BL")) else op for op in ops]
    s = L.Session(cfg)
    tr = Tracker(cfg, reset_shape=reset_shape or RESET_SHAPE)
    scr = term.Screen(height=cfg.height, width_fn=term.wcwidth, width=cfg.width)
    if blank:
        # counterfactual: restore_cursor() goes up at least one row
        from rich.control import Control
        lr = s.live_obj()._live_render
        lr.restore_cursor = lambda: Control("") if lr._shape is None else Control("\r" + "\x1b[1A\x1b[2K" * max(lr._shape[1], 1))
    try:
        for op in ops2:
            if flush and op[0] == "X":
                # counterfactual: stop() flushes the proxies before its last refresh
                import sys as _sys
                for stream in (_sys.stdout, _sys.stderr):
                    if isinstance(stream, L.FileProxy):
                        stream.flush()
            if quiet_stop and op[0] == "X" and cfg.disable:
                # counterfactual: the stop() of a disabled Progress writes no line feed and erases nothing
                s.console.line = lambda *a, **k: None
                was_transient, s.obj.transient = s.obj.transient, False
                err, chars = s.apply_catch(op)
                del s.console.line
                s.obj.transient = was_transient
            else:
                err, chars = s.apply_catch(op)
            if op[0] == "Z":
                scr.width = op[1]
            if reset_shape and op[0] == "X":
                s.live_obj()._live_render._shape = None
                if cfg.kind != "progress":
                    s.live_obj().vertical_overflow = cfg.overflow
            scr.mark()
            top_before = len(tr.Pw)
            scr.write(chars)
            if err == "err:KeyError":
                continue
            if err != "ok":
                return False
            if s.spins:
                tr.spin = s.spins[-1]
            tr.op(op)
            if not screen_ok(cfg, scr, tr) or scr.clamped or (scr.min_row_since_mark < top_before and tr.phase != "idle"):
                return False
        return True
    finally:
        s.close()


def spec_case(ctx, cfg, ops, spins=""):
    """Lean `wf / printed / lastFrame` (what the theorems talk about) vs the Python tracker, on a fault-free
    history in which `stop` is last or absent."""
    tr = Tracker(cfg)
    tr.spin_seq = spins if cfg.kind == "status" else None
    ok = True
    for i, op in enumerate(ops):
        try:
            if op[0] == "X" and i != len(ops) - 1:
                ok = False
            tr.op(op)
        except KeyError:
            return  # an operation raising KeyError: not wf, and the tracker has nothing to say
    wf = ok and tr.fits and cfg.height >= 1 and cfg.terminal and not cfg.dumb and not cfg.disable
    if wf and tr.phase == "stopped" and cfg.transient:
        wf = max(tr.final_h, 1 if BLANK_FIX else 0) + 1 <= cfg.height
    if not wf:
        return False, [], []
    F = tr.F if cfg.kind == "live" else trim(tr.F)
    return wf, tr.P, F


def specm_case(cfg, ops, spins=""):
    """Multi-session specification (Lean `wfM / finished / liveFrameOf`) from the independent tracker."""
    tr = Tracker(cfg, reset_shape=1, blank_fix=bool(BLANK_FIX))
    tr.spin_seq = spins if cfg.kind == "status" else None
    for op in ops:
        try:
            tr.op(op)
        except KeyError:
            return None
    wf = tr.fits and tr.transient_ok and cfg.height >= 1 and cfg.terminal and not cfg.dumb and not cfg.disable
    if not wf:
        return "0;0:"
    rows = tr.P + (tr.after_stop if tr.after_stop is not None else tr.F)
    return "1;" + enc_str_list(trim(rows))


def with_case(ctx, cfg, ops, faults, raise_at, body_exc=None, prepared=False, tag=""):
    if not prepared:
        ops = prepare(cfg, ops)
    body_exc = body_exc or L.BodyError
    chars, raised, ctl, restored, exc, spins, after = L.run_with(cfg, ops, faults, raise_at, body_exc)
    fenc = faults.enc()
    toks = term.tokenize(chars)
    scr = term.Screen(height=cfg.height).feed(toks)
    inp = (cfg, [o[:3] for o in ops], fenc + ":" + faults.exc.__name__, raise_at)
    # direct evaluation of `cleanup_on_exception`, clause by clause
    finding = None
    if not restored and cfg.kind == "progress" and exc in ("Boom", "BoomKI", "BoomSE", "BoomGE"):
        lv_started = ctl.split(",")[0] == "1"
        # narrow: the display never finished __enter__ (still marked started, the body wrote nothing)
        if lv_started:
            finding = "progress-start-refresh-raises-leaks" if exc == "Boom" else "progress-start-guard-misses-baseexception"
    ctx.check(restored and scr.visible, f"with {cfg.kind}: cleanup", inp,
              f"after the block: sys.stdout/sys.stderr restored and hook stack empty = {restored}, cursor visible = {scr.visible}, exception = {exc}", finding=finding)
    injected = raise_at is not None and raise_at <= len(ops)
    if injected and exc is None:
        ctx.check(False, f"with {cfg.kind}: propagation", inp, "the exception raised by the body did not leave the block")
    # the exception that leaves the block is one that was injected (renderable / column, body, unknown task id),
    # never one the teardown produced itself
    allowed = {faults.exc.__name__, body_exc.__name__, "KeyError", None}
    ctx.check(exc in allowed, f"with {cfg.kind}: the injected exception propagates", inp,
              f"{exc} left the block; injected: {sorted(a for a in allowed if a)}")
    if restored and cfg.terminal and not cfg.dumb and finding is None:
        hides = sum(t[0] == "HIDE" for t in toks)
        shows = sum(t[0] == "SHOW" for t in toks)
        ctx.check(shows == hides, f"with {cfg.kind}: cursor shown once per start", inp,
                  f"the cursor was hidden {hides} time(s) and shown {shows} time(s)")
        ctx.check(after == "after\n", f"with {cfg.kind}: prints after the block are plain", inp,
                  f"a print right after the block wrote {after!r}")
    ctx.case("live_with", [enc_cfg(cfg, spins, faults), cfg.enc_init(), fenc, enc_ops(cfg, ops), enc_opt(raise_at)],
             L.enc_tokens(toks) + "#" + enc_bool(raised) + "#" + ctl, shape=f"{cfg.kind}:{'fault' if fenc != '-' else 'body'}{tag}",
             sample=f"with {cfg!r}: ops={[o[:3] for o in ops]!r} faults={fenc} raise_at={raise_at}")


def stop_in_block_cases(ctx, rng, quick):
    """`with display:` bodies that call stop() / start() themselves, with the failure injected exactly at the
    refresh that stop (or Progress.start) makes — the teardown runs while an exception is in flight, and the
    `with` statement's own stop() follows it.  Live and Progress, transient on / off."""
    n = 0
    for kind in ("live", "progress"):
        for transient in (False, True):
            for (W, H) in ((20, 4),) if quick else ((20, 4), (30, 7)):
                if kind == "live":
                    heads = [[], [("R",)], [("P", ["u"], "seg"), ("U", ["a", "b"], True)]]
                else:
                    heads = [[("A", "ab", True, 100)], [("A", "ab", True, 100), ("A", "cd", True, 5), ("R",)],
                             [("A", "ab", True, 100), ("P", ["u"], "seg"), ("H", 0, False, True), ("A", "g", True, 100)]]
                tails = [[], [("P", ["v"], "seg")], [("S",), ("R",)], [("S",), ("P", ["v"], "seg"), ("X",)], [("X",)]]
                for head in heads:
                    for tail in tails:
                        cfg = L.Cfg(kind, transient, W, H, overflow="ellipsis", init=["F1", "F2"] if kind == "live" else [])
                        body = prepare(cfg, head + [("X",)] + tail)
                        probe = []
                        L.run_with(cfg, body, L.Faults(), None, probe=probe)
                        for i, op in enumerate(body):
                            if op[0] not in ("X", "S") or probe[i + 1] == probe[i]:
                                continue        # this stop / start makes no injectable call
                            for k in sorted({probe[i], probe[i + 1] - 1}):      # its first and its last call
                                for exc_cls in ((L.Boom, L.BoomKI) if quick else (L.Boom, L.BoomKI, L.BoomSE, L.BoomGE)):
                                    with_case(ctx, cfg, body, L.Faults(exact=[k], exc=exc_cls), None, prepared=True, tag=":stop-in-block")
                                    n += 1
                                with_case(ctx, cfg, body, L.Faults(from_=k), None, prepared=True, tag=":stop-in-block")
                                n += 1
                        # and the body itself raising right after its own stop()
                        with_case(ctx, cfg, body, L.Faults(), len(head) + 1, rng.choice([L.BodyError, L.BodyKI]), prepared=True, tag=":stop-in-block")
    ctx.note("stop_in_block_cases", n)


# ------------------------------------------------------------------------------------------------
# generators
# ------------------------------------------------------------------------------------------------
def frames_pool(W, H):
    """One representative of every class the code branches on: no line, one line, empty lines inside / at the
    end, exactly the screen height, one more, many more, a line wider than the console."""
    return [
        [],
        ["a"],
        [""],
        ["ab", "c"],
        ["a", "", "b", ""],
        ["x" * (W + 3), "y"],
        [f"r{i}" for i in range(max(H - 1, 1))],
        [f"r{i}" for i in range(H)],
        [f"r{i}" for i in range(H + 1)],
        [f"t{i}" for i in range(H + 3)],
        ["long" * 3, "z"],
        ["あい", "aあ"],                      # double-width characters
        ["a" + "あ" * (W // 2 + 1), "日本"],    # ... one of them straddling the right edge when cropped
        ["あ" * (W // 2 + 2)],
    ]


def user_pool(W):
    return [
        (["hello"], "seg"),
        (["one", "two"], "seg"),
        ([""], "seg"),
        (["w" * (W + 2)], "seg"),
        (["plain"], "str"),
        (["日本語 ok"], "seg"),
        (["x" + "あ" * (W // 2 + 1)], "seg"),
        (["[bold]mark[/bold]up"], "str"),
        (["logged"], "log"),
        (["via", "stdout"], "py"),
        (["via stderr"], "pye"),
    ]


LONG = "abcdefghijklmnopqr"


def opt_texts(W):
    """Texts for the print / log option variants: one representative of every class the option handling branches on —
    short; just under / exactly / just over the console width; much longer (one word, and words that wrap); double-width
    text that straddles the edge; markup + emoji code + highlightable tokens; two lines."""
    return [
        "hi there",
        "x" * (W - 2),
        "w" * W,
        "ab " * ((W + 4) // 3),
        "L" * (2 * W + 3),
        "日本語 の " + "あ" * (W // 2),
        "[bold]mark[/bold] :smiley: 1 'q'",
        "two\nlines " + "y" * (W - 7),
    ]


def option_print_cases(ctx, quick):
    """Bounded-exhaustive: every print / log option variant (lib_live.PRINT_HOWS) x every text class x Live / Progress
    (three tasks) / Status x transient, once right after a refresh and once more after the frame changed — correspondence
    with the model (told what a console without display writes for the same call) and the screen oracle after every operation."""
    n = 0
    screens = ((20, 5),) if quick else ((20, 5), (12, 4), (40, 6))
    for (W, H) in screens:
        texts = opt_texts(W)
        for kind, transient in (("live", False), ("live", True), ("progress", False), ("progress", True), ("status", True)):
            for hi, how in enumerate(L.PRINT_HOWS):
                for ti, text in enumerate(texts):
                    lines = text.split("\n")
                    color = "standard" if (hi + ti + transient) % 2 else None      # with and without a colour system (no SGR at all without)
                    p = ("P", lines, how)
                    q = ("P", [texts[(ti + 3) % len(texts)].split("\n")[0]], how)
                    if kind == "live":
                        cfg = L.Cfg(kind, transient, W, H, overflow="ellipsis", init=["F1", "F2"], color=color)
                        ops = [("S",), ("R",), p, ("U", ["G1", "G2", "G3"], True), q, ("X",)]
                    elif kind == "progress":
                        cfg = L.Cfg(kind, transient, W, H, color=color)
                        ops = [("A", "ab", True, 100), ("A", "cdef", True, 5), ("S",), ("A", "g", True, 50), p, ("V", 0, 3), q, ("X",)]
                    else:
                        cfg = L.Cfg(kind, transient, W, H, init=["work"], color=color)
                        ops = [("S",), ("R",), p, ("U", ["more", "lines"], True), q, ("X",)]
                    run_history(ctx, cfg, ops, styled=(n % 3 == 0), tag="options")
                    n += 1
    ctx.note("option_print_sessions", n)


def rand_ops(rng, cfg, n, allow_bare, session=True, split_writes=True, resize=True):
    """Seeded structured history.  `session`: start early, stop last (mostly); otherwise anything goes."""
    W, H = cfg.width, cfg.height
    fp = frames_pool(W, H)
    up = user_pool(W)
    ops = []
    started = False
    stopped = False
    ids = []
    next_id = 0
    pend = {False: 0, True: 0}   # upper bound of what is pending in the stdout / stderr proxy
    tasks = {}                   # id -> [description, visible]  (what the generator needs to keep rows within the width)
    tracked = set()
    curw = W                     # the narrowest the console has been
    for i in range(n):
        r = rng.random()
        if session and not started and not stopped and r < 0.5:
            ops.append(("S",)); started = True; pend = {False: 0, True: 0}
            continue
        if not session and r < 0.08:
            if not started:
                pend = {False: 0, True: 0}      # new proxies (a start() of a running display changes nothing)
            ops.append(("S",)); started, stopped = True, False
            continue
        if not session and r < 0.14:
            ops.append(("X",)); started = False; stopped = True; pend = {False: 0, True: 0}
            continue
        if r < 0.30:
            lines, how = rng.choice(up)
            if rng.random() < 0.3:
                # print / log OPTION variety: style=, justify=, end=, soft_wrap, crop=False, no_wrap, overflow, markup / highlight /
                # emoji toggles, several objects + sep, console.log(style= / justify=), console.out, console.rule — on texts near and
                # beyond the console width (the model is told what a console without display writes for the same call)
                how = rng.choice(sorted(L.PRINT_HOWS))
                lines = rng.choice(opt_texts(curw if rng.random() < 0.7 else W)).split("\n")
            if how == "log" and rng.random() < 0.6:
                how = "seg"
            if how in ("py", "pye") and pend[how == "pye"] + len(lines[0]) > curw:
                how = "seg"      # the stream writes are not wrapped by the harness: keep them within the width
            if how in ("py", "pye"):
                # the same as raw writes to the stream: complete lines, then (sometimes) text without a new line
                # that a later write completes — or that is still pending when the display stops
                err = how == "pye"
                if split_writes and pend[err] + 10 <= curw and rng.random() < 0.6:
                    ops.append(("W", err, list(lines), "ta"))
                    pend[err] = 2
                    if rng.random() < 0.75:
                        more = rng.random() < 0.3 and pend[err] + 12 <= curw
                        ops.append(("W", err, [] if more else ["il"], "ta" if more else ""))
                        pend[err] = 4 if more else 0
                else:
                    ops.append(("W", err, list(lines), ""))
                    pend[err] = 0
            else:
                ops.append(("P", lines, how))
        elif r < 0.36 and allow_bare:
            ops.append(("B",) if rng.random() < 0.6 else ("BL",))
        elif r < 0.50:
            ops.append(("R",))
        elif r < 0.53 and resize:
            # the console width changes between refreshes
            if cfg.kind == "live":
                w = rng.choice([8, 12, 20, 30])
            elif cfg.kind == "status":
                w = rng.choice([16, 20, 30])
            else:
                w = rng.choice([20, 24, 30])
            if max(pend.values()) > 0:
                w = max(w, 16)   # what is pending in a proxy plus the line that completes it must still fit
            ops.append(("Z", w))
            curw = min(curw, w)
        elif cfg.kind == "live":
            ops.append(("U", rng.choice(fp), rng.random() < 0.6))
        elif cfg.kind == "status":
            ops.append(("U", rng.choice([["work"], ["more", "lines"], ["a", "bb", "ccc"], ["x"], ["あ", "b"]]), True))
        else:
            q = rng.random()
            short = ["ab", "cdef", "g", "task", "あい"]
            wide_ok = True      # rows wider than the console are truncated with an ellipsis (modelled)
            if q < 0.25 or not ids:
                d = LONG if (wide_ok and rng.random() < 0.25) else rng.choice(short)
                vis = rng.random() < 0.85
                ops.append(("A", d, vis, rng.choice([100, 100, 50, 5])))
                ids.append(next_id); tasks[next_id] = [d, vis]; next_id += 1
            elif q < 0.40:
                ops.append(("V", rng.choice(ids), rng.choice([1, 3, 10])))
            elif q < 0.55:
                j = rng.choice(ids)
                vis = rng.random() < 0.5 and (len(tasks[j][0]) <= 8 or wide_ok)
                ops.append(("H", j, vis, rng.random() < 0.6)); tasks[j][1] = vis
            elif q < 0.66:
                j = rng.choice(ids)
                kw = {}
                if rng.random() < 0.4: kw["total"] = rng.choice([5, 50, 100])
                if rng.random() < 0.4: kw["advance"] = rng.choice([1, 2])
                if rng.random() < 0.3: kw["completed"] = rng.choice([0, 7, 42])
                if rng.random() < 0.4: kw["description"] = rng.choice(short); tasks[j][0] = kw["description"]
                if rng.random() < 0.3 and len(tasks[j][0]) <= 8: kw["visible"] = rng.random() < 0.6; tasks[j][1] = kw["visible"]
                ops.append(("E", j, kw, rng.random() < 0.5))
            elif q < 0.72:
                j = rng.choice(ids)
                kw = {}
                if rng.random() < 0.4: kw["total"] = rng.choice([5, 50])
                if rng.random() < 0.3: kw["completed"] = rng.choice([1, 9])
                if rng.random() < 0.3: kw["description"] = rng.choice(short); tasks[j][0] = kw["description"]
                ops.append(("ER", j, kw))
            elif q < 0.78:
                j = rng.choice(ids)
                ops.append(("T0", j, rng.choice([2, 3])))
                tracked.add(j)
            elif q < 0.86:
                j = rng.choice(sorted(tracked)) if tracked else rng.choice(ids)
                ops.append(("T1", j) if j in tracked else ("V", j, 1))
            elif q < 0.93:
                j = rng.choice(ids); ids.remove(j); tasks.pop(j, None); tracked.discard(j)
                ops.append(("D", j))
            else:
                ops.append(("V", next_id + 5, 1) if rng.random() < 0.5 else ("D", next_id + 7))  # unknown id -> KeyError
    if session:
        if not started:
            ops.insert(0, ("S",))
        if rng.random() < 0.85:
            ops.append(("X",))
    return ops


def corpus():
    two = ["L1", "L2"]
    return [
        # argument-less print / log under each kind of display
        (L.Cfg("live", False, 20, 6, init=two), [("S",), ("R",), ("B",), ("U", ["M1", "M2"], True), ("X",)]),
        (L.Cfg("live", True, 20, 6, init=two), [("S",), ("R",), ("BL",), ("R",), ("X",)]),
        (L.Cfg("progress", False, 20, 6), [("A", "aa", True), ("A", "bb", True), ("S",), ("B",), ("R",), ("X",)]),
        (L.Cfg("status", True, 20, 6, init=["work", "more"]), [("S",), ("R",), ("B",), ("R",), ("X",)]),
        # a stopped display started again
        (L.Cfg("live", False, 20, 10, init=["1", "2", "3"]), [("S",), ("R",), ("X",), ("P", ["b"], "seg"), ("S",), ("U", ["M"], True), ("X",)]),
        (L.Cfg("live", True, 20, 10, init=["1", "2", "3"]), [("P", ["p1"], "seg"), ("P", ["p2"], "seg"), ("P", ["p3"], "seg"), ("S",), ("R",), ("X",), ("S",), ("R",), ("X",)]),
        (L.Cfg("progress", False, 20, 10), [("A", "aa", True), ("A", "bb", True), ("A", "cc", True), ("S",), ("X",), ("P", ["between"], "seg"), ("S",), ("X",)]),
        (L.Cfg("progress", True, 20, 10), [("P", ["p1"], "seg"), ("P", ["p2"], "seg"), ("A", "aa", True), ("A", "bb", True), ("A", "cc", True), ("S",), ("X",), ("S",), ("X",)]),
        (L.Cfg("status", True, 20, 10, init=["a", "b", "c"]), [("P", ["p1"], "seg"), ("P", ["p2"], "seg"), ("S",), ("R",), ("X",), ("S",), ("R",), ("X",)]),
        # overflow mode after a restart: the configured crop must still apply
        (L.Cfg("live", False, 20, 2, overflow="crop", init=["1"]), [("S",), ("R",), ("X",), ("S",), ("U", ["a", "b", "c"], True), ("P", ["x"], "seg"), ("X",)]),
        # text without a new line pending in the redirected stdout / stderr when the display stops
        (L.Cfg("live", False, 30, 8, init=["F1", "F2"]), [("S",), ("R",), ("W", False, [], "Downloading..."), ("X",)]),
        (L.Cfg("live", True, 30, 8, init=["F1", "F2"]), [("S",), ("R",), ("W", True, ["done"], "more"), ("X",)]),
        (L.Cfg("progress", False, 30, 8), [("A", "task", True), ("S",), ("W", False, [], "working"), ("X",)]),
        # a transient display whose last frame is empty, followed by more output
        (L.Cfg("live", True, 20, 6, init=[]), [("S",), ("P", ["a"], "seg"), ("X",), ("P", ["b"], "seg")]),
        (L.Cfg("progress", True, 20, 6), [("S",), ("P", ["a"], "seg"), ("X",), ("P", ["b"], "seg")]),
        # the console gets narrower than the widest frame so far (LiveRender: min(max_width, previous width))
        (L.Cfg("progress", False, 30, 7), [("A", LONG, True, 100), ("S",), ("H", 0, False, True), ("Z", 20), ("A", "ab", True, 100), ("P", ["x"], "seg"), ("X",)]),
        (L.Cfg("live", False, 30, 7, init=["w" * 28, "b"]), [("S",), ("R",), ("Z", 12), ("R",), ("P", ["x"], "seg"), ("Z", 30), ("R",), ("X",)]),
        # Progress(disable=True): nothing is drawn, whatever happens to the tasks
        (L.Cfg("progress", False, 30, 7, disable=True), [("A", "ab", True, 100), ("S",), ("R",), ("P", ["x"], "seg"), ("V", 0, 3), ("R",), ("P", ["y"], "seg"), ("X",)]),
        # a file / a dumb terminal: the last frame is written once, at stop, unless transient
        (L.Cfg("live", False, 30, 7, init=["F1", "F2"], terminal=False), [("S",), ("R",), ("P", ["x"], "seg"), ("U", ["G1"], True), ("X",), ("P", ["y"], "seg")]),
        (L.Cfg("live", True, 30, 7, init=["F1", "F2"], terminal=False), [("S",), ("R",), ("P", ["x"], "seg"), ("X",)]),
        (L.Cfg("live", False, 30, 7, init=["F1", "F2"], dumb=True), [("S",), ("R",), ("P", ["x"], "seg"), ("U", ["G1"], True), ("X",)]),
        (L.Cfg("progress", False, 30, 7, terminal=False), [("A", "ab", True, 100), ("S",), ("R",), ("P", ["x"], "seg"), ("X",)]),
        (L.Cfg("progress", False, 30, 7, dumb=True), [("A", "ab", True, 100), ("S",), ("R",), ("P", ["x"], "seg"), ("X",)]),
        # Progress.update / reset / track
        (L.Cfg("progress", False, 30, 7), [("A", "ab", True, 100), ("S",), ("E", 0, {"total": 5, "advance": 2, "completed": 7, "description": "cd"}, True),
                                            ("ER", 0, {"total": 50}), ("T0", 0, 2), ("T1", 0), ("T1", 0), ("T1", 0), ("X",)]),
        # Progress(disable=True) around other output: nothing may appear, transient or not
        (L.Cfg("progress", False, 30, 7, disable=True), [("P", ["a"], "seg"), ("A", "t0", True, 100), ("S",), ("X",), ("P", ["b"], "seg")]),
        (L.Cfg("progress", True, 30, 7, disable=True), [("P", ["a"], "seg"), ("S",), ("P", ["m"], "seg"), ("X",), ("P", ["b"], "seg")]),
        # rows wider than the console: truncated with an ellipsis (and a narrower console afterwards)
        (L.Cfg("progress", False, 20, 7), [("A", LONG, True, 100), ("S",), ("A", "ab", True, 5), ("V", 0, 7), ("R",), ("Z", 12), ("R",), ("P", ["x"], "seg"), ("X",)]),
        (L.Cfg("progress", False, 12, 7), [("A", "あいうえおかきく", True, 100), ("S",), ("R",), ("X",)]),
        # a transient display whose last frame fills the screen
        (L.Cfg("live", True, 12, 2, overflow="crop", init=["a", "b"]), [("S",), ("R",), ("X",)]),
        (L.Cfg("progress", True, 20, 2), [("A", "aa", True), ("A", "bb", True), ("S",), ("X",)]),
    ]


def configs(rng, quick):
    out = []
    for kind in ("live", "progress", "status"):
        for transient in (False, True):
            if kind == "status" and not transient:
                continue
            for ov in (("crop", "ellipsis", "visible") if kind == "live" else ("visible",)):
                for (W, H) in ((20, 4), (12, 2), (30, 7), (16, 1)):
                    out.append((kind, transient, ov, W, H))
    return out


def make_cfg(rng, kind, transient, ov, W, H, vary=True, consoles=False):
    init = rng.choice(frames_pool(W, H)) if kind == "live" else (rng.choice([["work"], ["two", "lines"]]) if kind == "status" else [])
    terminal, dumb, disable = True, False, False
    if consoles:
        # the other consoles: a file, a dumb terminal; a disabled Progress
        c = rng.random()
        if c < 0.35:
            terminal = False
        elif c < 0.6:
            dumb = True
        disable = kind == "progress" and (c >= 0.6 or rng.random() < 0.3)
    return L.Cfg(kind, transient, W, H, overflow=ov,
                 redirect_stdout=(rng.random() < 0.8) if vary else True,
                 redirect_stderr=(rng.random() < 0.8) if vary else True,
                 color=rng.choice([None, "standard"]) if vary else None, init=init,
                 terminal=terminal, dumb=dumb, disable=disable)


def run(ctx):
    rng = ctx.rng
    del STYLED_STREAMS[:]
    ctx.assumptions += [
        "terminal = the VT100 subset of harness/term.py / Model/Term.lean (text, LF with ONLCR, CR, CUU n, EL 2, DECTCEM, SGR, OSC 8), no auto-wrap, window of `height` rows over an unbounded scroll-back; a double-width character occupies two cells",
        "consoles: terminal (force_terminal), dumb terminal (TERM=dumb), file (not a terminal); not Jupyter, not legacy Windows; auto_refresh=False (threads are C11's subject); the screen theorems are about terminals that are not dumb with the display not disabled (Cfg.plain)",
        "the user renderable is a parameter: the list of lines it yields (cell widths from rich/_cell_widths.py on the model side, from the Unicode East Asian Width property on the oracle side; zero-width characters are not generated); user output of print/log is the list of lines a console without a live display writes for the same call",
        "Progress is driven with one column '{description} {completed}/{total}' and a frozen clock; a row wider than the console is truncated by Text.truncate(overflow='ellipsis') (the Text model of C05, Lemmas/LiveText.lean)",
        "Status: what the spinner cell shows at each render is observed at Spinner.__rich_console__ and handed to the model (opaque function of the render count); the clock advances 50 ms per reading",
        "FileProxy: CPython reference counting is assumed (a proxy dropped by _disable_redirect_io is closed, hence flushed, at once — unless the exception in flight was raised inside its flush())",
        "wf (Lean, decidable): Cfg.plain, height >= 1, no operation raises, stop only as the last operation (wfM: anywhere), every displayed frame fits the screen (automatic for crop/ellipsis; including the redraws of the two flushes of the repaired stop), a transient display leaves one free row",
        "direct evaluation replays on a terminal WITH auto-wrap at the console width (a frame padded wider than the terminal spills into the next row); the Lean terminal has none, which is the same thing as long as nothing wider than the console is written",
        "exceptions: Exception subclasses and the three BaseException-only classes (KeyboardInterrupt, SystemExit, GeneratorExit) are raised by the renderable / column and by the body",
    ]
    cfgs = configs(rng, ctx.quick)
    depth = 3 if ctx.quick else 4

    # ---- 0. corpus: the minimal histories of past findings, first thing on every run
    for cfg, ops in corpus():
        run_history(ctx, cfg, ops, tag="corpus")
    ctx.flush()

    # ---- 1. bounded-exhaustive short sessions per kind (every op alphabet member at every position)
    n_ex = 0
    for (kind, transient, ov, W, H) in cfgs:
        small = (W, H) in ((20, 4), (12, 2))
        if ctx.quick:
            if not small:
                continue
            depth = 3
        else:
            depth = 4 if small else 3
        fp = frames_pool(W, H)
        if kind == "live":
            alpha = [("P", ["u"], "seg"), ("P", ["p", "q"], "seg"), ("R",), ("U", fp[3], True), ("U", fp[8], True), ("U", [], True), ("U", fp[4], False), ("U", fp[7], True), ("S",)]
        elif kind == "status":
            alpha = [("P", ["u"], "seg"), ("R",), ("U", ["more", "lines"], True), ("U", ["x"], True), ("S",)]
        else:
            alpha = [("P", ["u"], "seg"), ("R",), ("A", "ab", True, 100), ("A", "cdef", False, 5), ("V", 0, 3), ("H", 0, False, True), ("E", 0, {"description": "xy", "total": 50}, True), ("ER", 0, {}), ("D", 0), ("S",)]
        for d in range(depth + 1):
            for body in itertools.product(alpha, repeat=d):
                if ctx.quick and d == depth and rng.random() < 0.6:
                    continue
                cfg = L.Cfg(kind, transient, W, H, overflow=ov, init=fp[1] if kind == "live" else (["work"] if kind == "status" else []))
                pre = [("A", "t0", True)] if kind == "progress" and rng.random() < 0.5 else []
                run_history(ctx, cfg, pre + [("S",)] + list(body) + [("X",)], tag="exhaustive")
                n_ex += 1
    ctx.note("exhaustive_sessions", n_ex)
    ctx.flush()

    # ---- 1b. bounded-exhaustive print / log option variants under every kind of display
    option_print_cases(ctx, ctx.quick)
    ctx.flush()

    # ---- 2. seeded random sessions up to 40 operations, evaluated after every operation
    n_rand = 500 if ctx.quick else 12000
    spec_batch = []
    specm_batch = []
    outputs = []
    for j in range(n_rand):
        kind, transient, ov, W, H = rng.choice(cfgs)
        cfg = make_cfg(rng, kind, transient, ov, W, H)
        n = rng.choice([3, 6, 10, 20, 40]) if j % 3 else rng.randint(1, 40)
        allow_bare = rng.random() < 0.15
        ops = rand_ops(rng, cfg, n, allow_bare)
        chars, pops, tr = run_history(ctx, cfg, ops, styled=rng.random() < 0.3, tag="session")
        if j % 4 == 0:
            outputs.append((cfg.height, chars))
        if not any(o[0] == "X" for o in pops[:-1]):
            spec_batch.append((cfg, pops, tr.spins))
        specm_batch.append((cfg, pops, tr.spins))
    # arbitrary histories (restarts, stop in the middle, faults with try/except around every op): correspondence only
    for j in range(n_rand // 2):
        kind, transient, ov, W, H = rng.choice(cfgs)
        cfg = make_cfg(rng, kind, transient, ov, W, H)
        # (argument-less prints are mixed with restarts only once F19 is repaired: one cause per failing history)
        ops = rand_ops(rng, cfg, rng.randint(1, 40), BARE_BYPASS == 0 and rng.random() < 0.3, session=False)
        fl = L.Faults(exact=rng.sample(range(30), rng.randint(0, 4)), from_=rng.choice([None, None, rng.randint(0, 30)]), exc=rng.choice([L.Boom, L.Boom, L.BoomKI, L.BoomSE, L.BoomGE])) if kind != "status" and rng.random() < 0.6 else None
        chars, pops, tr = run_history(ctx, cfg, ops, faults=fl, evaluate=fl is None, tag="arbitrary")
        if j % 4 == 0:
            outputs.append((cfg.height, chars))
        if fl is None:
            specm_batch.append((cfg, pops, tr.spins))
    # the other consoles — a file, a dumb terminal — and Progress(disable=True): correspondence, and for a Live on a
    # file the direct check that the file holds the printed lines and (once, at stop) the last frame
    for j in range(n_rand // 3):
        kind, transient, ov, W, H = rng.choice(cfgs)
        cfg = make_cfg(rng, kind, transient, ov, W, H, consoles=True)
        ops = rand_ops(rng, cfg, rng.randint(1, 30), BARE_BYPASS == 0 and rng.random() < 0.2, session=rng.random() < 0.7)
        fl = L.Faults(exact=rng.sample(range(20), rng.randint(0, 3))) if kind != "status" and rng.random() < 0.3 else None
        run_history(ctx, cfg, ops, faults=fl, evaluate=fl is None, tag="consoles:" + ("file" if not cfg.terminal else "dumb" if cfg.dumb else "disable" if cfg.disable else "plain"))
    ctx.flush()

    # ---- 3. Lean replay vs Python screen oracle on the real streams (+ a few synthetic ones)
    for H, chars in outputs:
        scr = term.replay(chars, H, width_fn=term.wcwidth)
        ctx.case("term_replay", [H, L.enc_tokens(term.tokenize(chars))],
                 enc_str_list(scr.text_rows()) + f";{scr.row};{scr.col};{enc_bool(scr.visible)}", shape="stream")
    for _ in range(300 if ctx.quick else 5000):
        H = rng.randint(1, 5)
        toks = []
        for _ in range(rng.randint(0, 25)):
            toks.append(rng.choice([("T", rng.choice(["a", "bc", "   ", "xyz", "あ", "aあb"])), ("LF",), ("LF",), ("CR",), ("CUU", rng.choice([0, 1, 1, 2, 5])), ("EL2",), ("SHOW",), ("HIDE",)]))
        scr = term.Screen(height=H, width_fn=term.wcwidth).feed(toks)
        ctx.case("term_replay", [H, L.enc_tokens(toks)], enc_str_list(scr.text_rows()) + f";{scr.row};{scr.col};{enc_bool(scr.visible)}", shape="synthetic")
    ctx.flush()

    # ---- 3b. styled streams: styles are zero-width (direct), Lean plainOps / replay with style operations vs the oracle
    styled_stream_cases(ctx)

    # ---- 4. the specification the theorems are stated with == the tracker used for direct evaluation
    for cfg, pops, spins in spec_batch:
        r = spec_case(ctx, cfg, pops, spins)
        if r is None:
            continue
        wf, P, F = r
        ctx.case("live_spec", [enc_cfg(cfg, spins, bare=0), cfg.enc_init(), enc_ops(cfg, pops)], _SpecAnswer(wf, P, F, cfg.kind), shape=f"{cfg.kind}:wf{int(wf)}")
        if cfg.kind != "progress" and cfg.overflow != "visible":
            # crop / ellipsis: the frame-height clauses of wf are automatic (`wfOps_of_crop`): wfNoFit == wf == the tracker's wf
            ctx.case("live_nofit", [enc_cfg(cfg, spins, bare=0), cfg.enc_init(), enc_ops(cfg, pops)], enc_bool(wf) + ";" + enc_bool(wf), shape=f"{cfg.kind}:{cfg.overflow}:wf{int(wf)}")
    ctx.flush()

    for cfg, pops, spins in specm_batch + [(c, prepare(c, o), "") for c, o in corpus() if c.kind != "status"]:
        ans = specm_case(cfg, pops, spins)
        if ans is not None:
            ctx.case("live_specm", [enc_cfg(cfg, spins, bare=0, reset=1), cfg.enc_init(), enc_ops(cfg, pops)], ans, shape=f"{cfg.kind}:wf{ans[0]}:{'multi' if sum(o[0] == 'X' for o in pops) > 1 else 'single'}")
    ctx.flush()

    # ---- 5. exceptions: every render-call index and every block position
    n_with = 60 if ctx.quick else 1500
    for j in range(n_with):
        kind, transient, ov, W, H = rng.choice(cfgs)
        cfg = make_cfg(rng, kind, transient, ov, W, H)
        # (no split writes here — a generator choice from before fix 4c3921f, when a line left pending in the FileProxy
        #  at the end of the block was outside wf and outside the model; pending text is modelled now (Op.write, FLUSH_FIX)
        #  and exercised by the session / arbitrary histories of step 2, which do split their writes)
        body = [o for o in rand_ops(rng, cfg, rng.randint(0, 8 if ctx.quick else 14), False, session=False, split_writes=False)]
        if kind == "progress" and rng.random() < 0.7:
            pass
        # number of fault-injectable calls in the fault-free run
        probe = L.Faults()
        L.run_with(cfg, prepare(cfg, body), probe, None)
        ncalls = probe.calls
        # the classes of exception: an Exception, and the three that only derive from BaseException
        body_exc = rng.choice([L.BodyError, L.BodyKI])
        exc_cls = rng.choice([L.Boom, L.Boom, L.BoomKI, L.BoomSE, L.BoomGE])
        for pos in range(len(body) + 2):
            with_case(ctx, cfg, body, L.Faults(), pos, body_exc)
        with_case(ctx, cfg, body, L.Faults(), None)
        if kind != "status":
            for k in range(ncalls + 1):
                with_case(ctx, cfg, body, L.Faults(exact=[k], exc=exc_cls), None)
                if k % 2 == 0:
                    with_case(ctx, cfg, body, L.Faults(from_=k, exc=exc_cls), None)
        ctx.note(f"with:exc:{exc_cls.__name__}/{body_exc.__name__}")
        ctx.note(f"with:{kind}:calls{min(ncalls, 10)}")
    # explicit stop() / start() inside the block, failing at their own refresh
    stop_in_block_cases(ctx, rng, ctx.quick)
    # Progress with tasks added before the block: the refresh inside start() is a render call too
    for j in range(20 if ctx.quick else 300):
        W, H = rng.choice([(20, 4), (30, 7)])
        cfg = make_cfg(rng, "progress", rng.random() < 0.5, "visible", W, H)
        _progress_prestart(ctx, cfg, rng)
    ctx.flush()
    ctx.rule = (
        "every session start;body;stop with body over a per-kind alphabet (prints, refresh, update to growing/shrinking/empty/"
        "screen-filling/too-tall frames, task add/advance/hide/show/remove, redundant start) up to length %d, for Live/Progress/Status x "
        "transient x crop/ellipsis/visible x screen sizes; seeded random histories up to 40 operations (sessions, and arbitrary ones with "
        "restarts and injected faults); every print / log option variant x text class x display kind x transient (1b); with-blocks with an exception at every render-call index and every block position; "
        "distinct = distinct canonical requests (configuration + history)" % depth
    )


class _SpecAnswer:
    """Canonical answer of `live_spec` built from the tracker; frames of Progress are compared modulo the
    padding the Progress discipline adds (trailing spaces / trailing blank rows)."""

    def __init__(self, wf, P, F, kind):
        self.wf, self.P, self.F, self.kind = wf, P, F, kind

    def __str__(self):
        return enc_bool(self.wf) + ";" + enc_str_list(self.P) + ";" + enc_str_list(self.F)


def _progress_prestart(ctx, cfg, rng):
    """add tasks, then `with progress:` with a fault at every call index (the first ones fall inside start())."""
    ntasks = rng.randint(1, 3)
    body = prepare(cfg, rand_ops(rng, cfg, rng.randint(0, 5), False, session=False, split_writes=False))
    pre = [("A", f"t{i}", True) for i in range(ntasks)]
    exc_cls = rng.choice([L.Boom, L.Boom, L.BoomKI, L.BoomSE, L.BoomGE])
    for k in [None] + list(range(0, 2 * ntasks + 2)):
        faults = L.Faults(exact=[] if k is None else [k], exc=exc_cls)
        s = L.Session(cfg, faults)
        try:
            exc = None
            for op in pre:
                s.apply_catch(op)
            try:
                with s.obj:
                    for op in body:
                        s.apply(op)
            except L.BOOMS + (KeyError,) as e:
                exc = e
            restored = s.restored()
            chars = s.take()
            ctl = s.ctl()
        finally:
            s.close()
        scr = term.replay(chars, cfg.height)
        finding = None
        if not restored and isinstance(exc, L.BOOMS) and ctl.split(",")[0] == "1":
            finding = "progress-start-refresh-raises-leaks" if isinstance(exc, L.Boom) else "progress-start-guard-misses-baseexception"
        ctx.check(restored and scr.visible, "with progress (tasks added before the block): cleanup", (cfg, pre, [o[:3] for o in body], faults.enc()),
                  f"after the block: io/hook restored = {restored}, cursor visible = {scr.visible}, exception = {type(exc).__name__ if exc else None}", finding=finding)
        ctx.case("live_pre_with", [enc_cfg(cfg, "", faults), cfg.enc_init(), faults.enc(), enc_ops(cfg, pre), enc_ops(cfg, body), "-"],
                 L.enc_tokens(term.tokenize(chars)) + "#" + enc_bool(exc is not None) + "#" + ctl, shape="leak" if not restored else "clean",
                 sample=f"{cfg!r}: {pre!r}; with progress: {[o[:3] for o in body]!r} faults={faults.enc()}")
        ctx.note("prestart:" + ("leak" if not restored else "clean"))


def replay(ctx, case):
    print("site:", case.get("site"))
    print("input:", case.get("input"))
    print("what:", case.get("what"))
    print("re-run `./check C10` to re-evaluate (the generators are seeded: VERIF_SEED=%s)" % case.get("seed"))
    return False


MANIFEST = {
    "text": "Lean 4 theorems (Props/C10.lean) about an executable state-machine model of rich/live.py, live_render.py, the live part of "
    "progress.py, status.py and the FileProxy buffers, writing to a VT100-subset terminal with a window of `height` rows over an unbounded "
    "scroll-back (rows of cells: double-width characters take two): live_screen (for EVERY well-formed single-session history, of any length, "
    "replaying what was written leaves exactly printed lines ++ last refreshed frame ++ blank rows; nothing after a transient stop), "
    "live_screen_sessions (the same for any number of start/stop sessions on the same display object, prints between sessions included: "
    "finished output ++ frame of the running session), cursor_never_above_region(_sessions), cursor_visible_after_stop / stop_shows_cursor / "
    "cursor_hidden_iff_started (every history, every fault predicate, every console kind), shown_fits_of_crop, cleanup_on_exception (for EVERY "
    "fault predicate over render-call indices, every body, every raise position: hook depth, sys.stdout/sys.stderr proxies and restore slots, "
    "started flag and cursor visibility are restored and a body exception leaves the block), init_balanced / run_balanced, "
    "stream_writes_print_complete_lines (the redirected streams hand the console the complete lines of the character stream, however it was "
    "chunked into writes), progress_row_truncation (an over-wide Progress row is cut as Text.truncate of the C05 Text model cuts it); "
    "styled output (deepening 4): styles_are_zero_width (replaying a stream and replaying its style-free normal form plainOps — SGR / OSC 8 "
    "dropped, adjacent text runs merged — leave the same rows, cursor and cursor visibility from every screen), and live_screen_styled / "
    "live_screen_sessions_styled / cursor_visible_after_stop_styled (the screen theorems for EVERY stream whose plainOps is that of the model's "
    "emission, i.e. print(style=...) and styles splitting a line are inside the statement; the hypothesis is exactly what live_run compares); "
    "live_screen_crop / cursor_never_above_region_crop (Live / Status with vertical_overflow crop or ellipsis: the screen theorem with NO hypothesis "
    "on frame heights — wfOpsNoFit = wfOps without the fits / flushFits clauses; only stop changes the overflow mode, step_overflow; tied by "
    "live_nofit: Lean wfNoFit == wf == the tracker's wf on ~280 crop / ellipsis sessions per quick run). "
    "The theorems hold for the repaired code "
    "variants; machine-checked witnesses (decide) show the code as found breaks them: old_bare_print_leaves_remnant (F19), old_progress_start_leaks, "
    "old_restart_erases_printed_lines, old_transient_empty_frame_leaves_blank_line, old_pending_text_flushed_after_last_frame, "
    "old_start_guard_misses_base_exception, old_disabled_progress_writes_newline, and the known "
    "finding transient_frame_filling_screen_leaves_remnant. Tie: per-operation comparison of the characters real Live/Progress/Status objects "
    "write (tokenised by the independent harness/term.py) with the model's terminal operations plus the control state (started, hook depth, proxy "
    "depths, restore slots, shape, task index, overflow mode, pending proxy text), ~10k histories per quick run / ~230k thorough: bounded-exhaustive "
    "sessions over a per-kind alphabet, seeded random histories up to 40 operations (restarts, injected faults, stream writes with pending "
    "text, console resize, Progress.update/reset/track, wide characters, files / dumb terminals / disabled Progress), with-blocks with an exception "
    "at every render-call index and every block position, Lean replay vs Python screen oracle, Lean wf/printed/lastFrame and "
    "wfM/finished/liveFrameOf vs an independent Python tracker; and the theorems' executable statements evaluated on rich's own output after "
    "every operation (plus, for a Live on a file: the file holds the printed lines and, once, the last frame). Print / log OPTION variety "
    "(round-g gap, Segment.apply_style dropping is_control on the style= path): 37 ways of printing (lib_live.PRINT_HOWS: style= as str / Style / on a "
    "renderable / with several objects, justify right / center / full, end='\\n\\n' and other ends, soft_wrap, crop=False, no_wrap, overflow "
    "ellipsis / fold, markup / highlight / emoji toggles, sep, console.log(style= / justify= / several objects), console.out(+style), console.rule "
    "(title, none, align / characters, style)) x 8 text classes (short, width-2, width, over the width with and without spaces, 2*width+3, "
    "double-width beyond the edge, markup+emoji+highlightable, two lines) x Live / Progress with three tasks / Status x transient, with and without a "
    "colour system: 1,480 bounded-exhaustive sessions per quick run (4,440 thorough, three screens) + the same variants in ~30% of the prints of "
    "the seeded random histories and with-blocks; the model is told the lines a console WITHOUT display writes for the very same call, the screen "
    "oracle (auto-wrap at the console width: an over-wide printed line occupies several rows) judges after every operation. term_plain (Lean "
    "plainOps vs harness/term.py plain_ops) and term_replay with style operations on every styled real stream (up to 900 per run), plus the "
    "direct evaluation 'styles are zero-width' on the Python oracle.",
    "note": "wf excludes (explicitly, decidably): visible-overflow frames taller than the screen (documented by rich as not clearable; Progress has "
    "no overflow handling at all), transient displays whose last frame leaves no free row (known finding transient-final-frame-fills-screen, no "
    "small repair: the one finding for which the check prints KNOWN-FINDING lines), prints that do "
    "not end in a new line (console.print(end='') shares its row with the first frame line and is erased with it: by design of the hook, see "
    "Props/C10.lean), Console.line() / Console.control() called by user code under a display (they bypass the render hooks: console.line() "
    "after a refresh leaves a frame remnant exactly as the as-found print() did — observed on real rich, NOT in the op grammar, Live.stop itself "
    "relies on line() bypassing the hook), print(width=n) (re-renders the frame at width n; not generated), lines wider than the console in the "
    "Lean terminal (no auto-wrap there; the harness oracle wraps), consoles that are not plain terminals (files, dumb terminals, Progress(disable=True): modelled and tied, outside the screen "
    "property). NOT excluded: text still pending in a FileProxy when stop is called — live_screen and live_screen_sessions are stated for the "
    "repaired stop (hypothesis flushFix = true, fix 4c3921f), which prints pending text above the last frame; wf only asks that the frames redrawn "
    "by those two prints fit the screen (flushFits). live_screen_sessions additionally needs resetShape = true; all screen theorems need "
    "bareBypass = false; cleanup_on_exception needs kind != progress or Cfg.guards (startGuard, and guardBase for BaseException-only faults). "
    "Code variant flags, current values (= /repo with fixes b373465, 4e4f7e5, b4577f9, bd10e80, 4c3921f, fc3f517, 363ded9; every one is the "
    "repaired value): BARE_BYPASS = 0, START_GUARD = 1, RESET_SHAPE = 1, BLANK_FIX = 1, FLUSH_FIX = 1, GUARD_BASE = 1, DISABLE_FIX = 1. "
    "Parameters, not modelled: what the user renderable yields, user output of print/log (the lines a console without live display "
    "writes), the Progress column (one text column, frozen clock; over-wide rows truncated as Text.truncate does), the Status spinner frames "
    "(observed). Assumed: CPython reference counting for FileProxy objects; auto_refresh=False (threads are C11); no auto-wrap at the right "
    "margin, LF acts as CR LF (tty ONLCR); not Jupyter, not legacy Windows. Trusted: Lean kernel; axioms propext/Classical.choice/Quot.sound; "
    "harness/term.py, lib_live.py and this module.",
    "design_ref": "DESIGN.md section 7, C10 (and section 8, F19)",
}
