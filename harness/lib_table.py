"""Correspondence + direct evaluation for rich/table.py and the row builders of rich/box.py (property C07).

Model: lean/RichModel/Model/Table.lean (interface: lean/RichModel/Model/TABLE_API.md), driver Drv/C07.lean.

Cells are ORACLES.  For a real table the harness takes the renderables `Table._get_cells` yields (the cell as rich
wraps it in `Padding`) and tabulates, on real rich, for every width w in 0..W
    measure(w)     = Measurement.get(console, padded_cell, w)
    renderLines(w) = plain text of console.render_lines(padded_cell, options.update(width=w, justify, no_wrap, overflow))
The tables travel with the request; the Lean model computes column widths and all lines from the table options, the
column specs and these oracles only, and the answer is compared with `_calculate_column_widths` and with
`Console.render(table)` character for character.  So the table algorithm is validated on arbitrary cell content.

A *spec* is plain data (JSON-able) from which `build_table` makes the real table; replays hold specs.
"""
import hashlib
import io

from core import enc_str, enc_str_list
from lib_ratio import enc_ints

# ----------------------------------------------------------------------------------------------- real-rich side


class _AsciiFile(io.StringIO):
    """a text file whose encoding is not UTF-x, so `console.options.ascii_only` is true"""
    encoding = "ascii"


def make_console(width, env=None):
    """env = {"legacy_windows": bool, "ascii": bool, "console_safe_box": bool} (default: none of them, safe_box True)"""
    from rich.console import Console

    env = env or {}
    return Console(width=width, file=_AsciiFile() if env.get("ascii") else io.StringIO(), color_system=None,
                   legacy_windows=bool(env.get("legacy_windows")), safe_box=env.get("console_safe_box", True),
                   force_terminal=False, _environ={}, emoji=False, highlight=False)


class ControlCell:
    """a cell that emits control segments (zero cells wide) around its text"""

    def __init__(self, text):
        self.text = text

    def __rich_console__(self, console, options):
        from rich.segment import Segment
        from rich.text import Text

        yield Segment.control("\x07")
        yield Text(self.text)
        yield Segment.control("\x1b[0m")

    def __rich_measure__(self, console, max_width):
        from rich.measure import Measurement
        from rich.text import Text

        return Measurement.get(console, Text(self.text), max_width)


class CellBoom(Exception):
    """what a raising cell raises"""


class BoomCell:
    """a cell whose renderable raises: when measured, when rendered, both, or only when rendered narrower than 3 cells"""

    def __init__(self, mode):
        self.mode = mode

    def __rich_console__(self, console, options):
        if self.mode in ("render", "both") or (self.mode == "narrow" and options.max_width < 3):
            raise CellBoom(self.mode)
        yield "ok"

    def __rich_measure__(self, console, max_width):
        from rich.measure import Measurement

        if self.mode in ("measure", "both"):
            raise CellBoom(self.mode)
        return Measurement(2, 2)


def build_cell(cs):
    """cell spec -> renderable.  ("s", text) str | ("t", text, justify|None) Text | ("panel", text) | ("table", n) |
    ("pad", text, n) | ("none",)"""
    from rich.padding import Padding
    from rich.panel import Panel
    from rich.table import Table
    from rich.text import Text

    kind = cs[0]
    if kind == "s":
        return cs[1]
    if kind == "t":
        return Text(cs[1], justify=cs[2])
    if kind == "panel":
        return Panel(Text(cs[1]))
    if kind == "fit":
        return Panel.fit(Text(cs[1]))
    if kind == "pad":
        return Padding(Text(cs[1]), cs[2])
    if kind == "table":
        t = Table("p", "q", box=None if cs[1] % 2 else __import__("rich.box", fromlist=["x"]).SQUARE)
        for i in range(cs[1]):
            t.add_row("x" * (i + 1), "yy zz")
        return t
    if kind == "ntable":
        # a nested one-column table (no box, no header, no padding) whose column FOLDS: whatever options the outer column
        # hands down (no_wrap, overflow, justify), the inner column's own settings win, so every character must survive
        t = Table(box=None, show_header=False, padding=0, pad_edge=False)
        t.add_column(overflow="fold", no_wrap=False)
        for text in cs[1]:
            t.add_row(Text(text))
        return t
    if kind == "m":
        return cs[1]            # a str with console markup: several differently styled segments on one line
    if kind == "st":
        return Text(cs[1], style=cs[2])          # a text with its own style (and a styled span)
    if kind == "ctl":
        return ControlCell(cs[1])
    if kind == "boom":
        return BoomCell(cs[1])
    if kind == "none":
        return None
    raise ValueError(cs)


def build_table(spec):
    from rich import box as rbox
    from rich.table import Column, Table

    o = spec["opts"]
    kw = dict(
        title=o.get("title"), caption=o.get("caption"), width=o.get("width"), min_width=o.get("min_width"),
        box=None if o.get("box") is None else (custom_box() if o["box"] == "CUSTOM" else getattr(rbox, o["box"])),
        padding=o["padding"] if isinstance(o.get("padding"), int) else tuple(o.get("padding", (0, 1))),
        collapse_padding=o.get("collapse_padding", False), pad_edge=o.get("pad_edge", True), expand=o.get("expand", False),
        show_header=o.get("show_header", True), show_footer=o.get("show_footer", False), show_edge=o.get("show_edge", True),
        show_lines=o.get("show_lines", False), leading=o.get("leading", 0),
        title_justify=o.get("title_justify", "center"), caption_justify=o.get("caption_justify", "center"),
        row_styles=o.get("row_styles"), safe_box=o.get("safe_box"),
    )
    for k in ("style", "border_style", "header_style", "footer_style", "title_style", "caption_style"):
        if k in o:
            kw[k] = o[k]
    cols = spec["cols"]
    early = [c for c in cols if not c.get("late")]
    late = [c for c in cols if c.get("late")]

    def col_kw(c):
        return dict(justify=c.get("justify", "left"), overflow=c.get("overflow", "ellipsis"), width=c.get("width"),
                    min_width=c.get("min_width"), max_width=c.get("max_width"), ratio=c.get("ratio"), no_wrap=c.get("no_wrap", False),
                    style=c.get("style"), header_style=c.get("header_style"), footer_style=c.get("footer_style"))

    if spec.get("via_grid"):
        # Table.grid(...): the classmethod's own defaults (no box, no header / footer / edge, collapse_padding, no pad_edge)
        t = Table.grid(**{k: (tuple(v) if isinstance(v, list) else v) for k, v in spec["via_grid"].items()})
        for c in early:
            t.add_column(build_cell(c["header"]), build_cell(c["footer"]), **col_kw(c))
    elif spec.get("via_column_objects"):
        def obj_kw(c):
            d = col_kw(c)
            for k in ("style", "header_style", "footer_style"):
                d[k] = d[k] or ""          # the dataclass default; add_column does the same `or ""`
            return d

        t = Table(*[Column(header=build_cell(c["header"]), footer=build_cell(c["footer"]), **obj_kw(c)) for c in early], **kw)
    else:
        t = Table(**kw)
        for c in early:
            t.add_column(build_cell(c["header"]), build_cell(c["footer"]), **col_kw(c))
    passed = []
    n_before = len(t.columns)
    for r in spec["rows"]:
        # "extra" cells beyond the declared columns make add_row create columns (back-filled with Text(""))
        cells = [build_cell(cs) for cs in list(r["cells"][: len(early)]) + list(r.get("extra", []))]
        passed.append(cells)
        t.add_row(*cells, end_section=r.get("end_section", False), style=r.get("style"))
    t._verif_passed = (n_before, passed)      # what add_row was given, object by object (for the add_row check)
    for c in late:  # a column added after the rows: it has NO cells, so zip(*columns) yields header/footer only
        t.add_column(build_cell(c["header"]), build_cell(c["footer"]), **col_kw(c))
    return t


def incoming_options(console, spec):
    """the ConsoleOptions the table is rendered WITH (`console.print(table, no_wrap=True)`, a parent renderable's options...):
    the console defaults with spec["render_opts"] set verbatim (None included)."""
    import dataclasses

    return dataclasses.replace(console.options, **spec.get("render_opts", {}))


def cell_options(console, table, column, w):
    """The options `Table._render` must hand a cell of `column` at width w, DERIVED FROM THE DOCUMENTED SEMANTICS, not read off the
    code: the column's own justify / overflow / no_wrap always win over whatever the table itself is rendered with, highlight is
    the table's.  (Built with dataclasses.replace, not ConsoleOptions.update, whose `None` means "keep".)"""
    import dataclasses

    return dataclasses.replace(console.options, min_width=w, max_width=w, justify=column.justify, overflow=column.overflow,
                               no_wrap=bool(column.no_wrap), highlight=table.highlight)


def annotation_options(console, table, incoming, w, justify):
    """title / caption: rendered with the table's own options (so they DO inherit overflow / no_wrap), at the table width, with
    the title's justify and the table's highlight."""
    import dataclasses

    return dataclasses.replace(console.options, min_width=w, max_width=w, justify=justify, overflow=incoming.overflow,
                               no_wrap=incoming.no_wrap, highlight=table.highlight)


OPT_DEFAULTS = dict(title=None, caption=None, width=None, min_width=None, box=None, padding=(0, 1), collapse_padding=False, pad_edge=True,
                    expand=False, show_header=True, show_footer=False, show_edge=True, show_lines=False, leading=0, title_justify="center",
                    caption_justify="center", row_styles=None, safe_box=None, style="none", border_style=None,
                    header_style="table.header", footer_style="table.footer", title_style=None, caption_style=None)
COL_DEFAULTS = dict(justify="left", overflow="ellipsis", width=None, min_width=None, max_width=None, ratio=None, no_wrap=False,
                    style="", header_style="", footer_style="")


def mutate_table(table, before, after):
    """Bring the SAME table object from the state `build_table(before)` made to the state `build_table(after)` would make, through
    the attributes / methods a user has: table options, column attributes, header / footer renderables, add_row, add_column, a cell
    replaced.  `after` must extend `before` (same leading columns and rows)."""
    from rich import box as rbox

    ob, oa = before["opts"], after["opts"]
    for k in sorted(set(ob) | set(oa)):
        vb, va = ob.get(k, OPT_DEFAULTS[k]), oa.get(k, OPT_DEFAULTS[k])
        if vb == va:
            continue
        if k == "box":
            table.box = None if va is None else (custom_box() if va == "CUSTOM" else getattr(rbox, va))
        elif k == "padding":
            table.padding = va if isinstance(va, int) else tuple(va)      # the property setter unpacks
        elif k == "expand":
            table.expand = va
        elif k in ("header_style", "footer_style"):
            setattr(table, k, va or "")
        elif k == "row_styles":
            table.row_styles = list(va or [])
        else:
            setattr(table, k, va)
    cb = [c for c in before["cols"] if not c.get("late")]
    ca = [c for c in after["cols"] if not c.get("late")]
    assert len(cb) == len(ca), "history: the columns present before the rows must be the same"
    for column, b0, a0 in zip(table.columns, cb, ca):
        for k in ("header", "footer"):
            if b0[k] != a0[k]:
                setattr(column, k, build_cell(a0[k]))
        for k, d in COL_DEFAULTS.items():
            vb, va = b0.get(k, d), a0.get(k, d)
            if vb != va:
                setattr(column, k, (va or "") if k.endswith("style") else va)
    rb, ra = before["rows"], after["rows"]
    assert len(rb) <= len(ra)
    n_early = len(ca)
    for k, (r0, r1) in enumerate(zip(rb, ra)):
        for ci in range(n_early):
            c0 = r0["cells"][ci] if ci < len(r0["cells"]) else ("none",)
            c1 = r1["cells"][ci] if ci < len(r1["cells"]) else ("none",)
            if c0 != c1:
                new = build_cell(c1)
                table.columns[ci]._cells[k] = "" if new is None else new
        if r0.get("end_section", False) != r1.get("end_section", False):
            table.rows[k].end_section = r1.get("end_section", False)
    for r in ra[len(rb):]:
        table.add_row(*[build_cell(cs) for cs in r["cells"][:n_early]], end_section=r.get("end_section", False), style=r.get("style"))
    lb = [c for c in before["cols"] if c.get("late")]
    la = [c for c in after["cols"] if c.get("late")]
    assert la[: len(lb)] == lb
    for c in la[len(lb):]:
        kw = {k: c.get(k, d) for k, d in COL_DEFAULTS.items()}
        table.add_column(build_cell(c["header"]), build_cell(c["footer"]), **{k: (v or None) if k.endswith("style") else v for k, v in kw.items()})
    return table


def plain_lines(segments):
    text = "".join(s.text for s in segments if not s.is_control)
    if text == "":
        return []
    if text.endswith("\n"):
        text = text[:-1]
    return text.split("\n")


def line_text(line):
    return "".join(s.text for s in line if not s.is_control)


def annotation_text(console, table, which):
    """what `render_annotation` renders for the title / caption (None when falsy)."""
    from rich.style import Style

    text = table.title if which == "title" else table.caption
    if not text:
        return None
    style = Style.pick_first(table.title_style if which == "title" else table.caption_style, "table." + which)
    rt = console.render_str(text, style=style, highlight=False) if isinstance(text, str) else text
    return rt, (table.title_justify if which == "title" else table.caption_justify)


class Pool:
    """Oracle pool of one bundle: tabulations of padded cells on real rich, deduplicated."""

    def __init__(self, ctx, console, wtab):
        self.ctx, self.console, self.wtab = ctx, console, wtab
        self.consoles = {}
        self.index = {}
        self.enc = []
        self.tab = []  # per oracle: list over w of (min, max, [lines]) or None

    def _add(self, key, entries):
        self.index[key] = len(self.enc)
        out = []
        for m, lines in entries:
            ms = "!" if m is None else f"{m[0]} {m[1]}"
            ls = "!#" if lines is None else f"{len(lines)}#" + "/".join(enc_str(l) for l in lines)
            out.append(ms + "#" + ls)
        self.enc.append("|".join(out))
        self.tab.append(entries)
        return self.index[key]

    def env_console(self, env):
        k = tuple(sorted((env or {}).items()))
        if k not in self.consoles:
            self.consoles[k] = make_console(self.wtab, env)
        return k, self.consoles[k]

    def cell(self, key, renderable, table, column, env=None):
        from rich.cells import cell_len
        from rich.measure import Measurement

        ek, console = self.env_console(env)
        k = ("cell", key, column.justify, column.overflow, bool(column.no_wrap), table.highlight, ek)
        if k in self.index:
            return self.index[k]
        entries = []
        for w in range(self.wtab + 1):
            # an entry the real code cannot produce is recorded as `raised` (None): the model then says the table raises too
            try:
                m = Measurement.get(console, renderable, w) if w >= 1 else Measurement(0, 0)
            except Exception as e:
                self.ctx.note("oracle_raises:measure:" + type(e).__name__)
                m = None
            try:
                lines = [line_text(l) for l in console.render_lines(renderable, cell_options(console, table, column, w))]
            except Exception as e:
                self.ctx.note("oracle_raises:render:" + type(e).__name__)
                lines = None
            # the contract the theorems assume of a cell (render_lines pads/crops: C13; Measurement.get normalises)
            if lines is not None:
                self.ctx.check(all(cell_len(l) == w for l in lines), "oracle-contract:render_lines", (key, w),
                               "console.render_lines returned a line whose cell length is not the requested width")
            if m is not None:
                self.ctx.check(0 <= m.minimum <= m.maximum <= max(w, 0), "oracle-contract:Measurement.get", (key, w), f"Measurement.get gives {m}")
            entries.append((None if m is None else (m.minimum, m.maximum), lines))
        return self._add(k, entries)

    def annotation(self, key, text, justify, table, incoming, env=None):
        ek, console = self.env_console(env)
        k = ("ann", key, justify, incoming.overflow, incoming.no_wrap, table.highlight, ek)
        if k in self.index:
            return self.index[k]
        entries = []
        for w in range(self.wtab + 1):
            try:
                opts = annotation_options(console, table, incoming, w, justify)
                entries.append(((0, 0), plain_lines(list(console.render(text, opts)))))
            except Exception as e:
                self.ctx.note("oracle_raises:annotation:" + type(e).__name__)
                entries.append(((0, 0), None))
        return self._add(k, entries)

    def encode(self):
        return ";".join(self.enc)


def enc_opt(x):
    return "-" if x is None else str(int(x))


def b(x):
    return "1" if x else "0"


BOX_NAMES = None


CUSTOM_BOX = None


def custom_box():
    """a box with 32 distinct one-cell characters: any mix-up of box characters in Box.__init__/get_row/_render shows"""
    from rich import box as rbox

    global CUSTOM_BOX
    if CUSTOM_BOX is None:
        CUSTOM_BOX = rbox.Box("abcd\nefgh\nijkl\nmnop\nqrst\nuvwx\nyzAB\nCDEF\n")
    return CUSTOM_BOX


def box_name(box):
    from rich import box as rbox

    global BOX_NAMES
    if box is not None and box is CUSTOM_BOX:
        return "raw:" + "/".join(".".join(str(ord(ch)) for ch in line) for line in str(box).splitlines())
    if BOX_NAMES is None:
        BOX_NAMES = {id(getattr(rbox, n)): n for n in dir(rbox) if isinstance(getattr(rbox, n), rbox.Box)}
    return "-" if box is None else BOX_NAMES[id(box)]


def cell_specs(spec, table, ci):
    """raw cell specs of column ci in `_get_cells` order (header?, body cells, footer?)"""
    if ci >= len(spec["cols"]) or spec.get("has_extra"):
        # columns created by add_row (or shifted by them): anonymous cells, never shared between oracles
        nb = len(table.columns[ci]._cells)
        sid = hashlib.blake2b(repr((spec["cols"], spec["rows"])).encode(), digest_size=6).hexdigest()   # the CONTENT these cells belong to
        return ([("anon-h", sid, ci)] if table.show_header else []) + [("anon-b", sid, ci, k) for k in range(nb)] + ([("anon-f", sid, ci)] if table.show_footer else [])
    c = spec["cols"][ci]
    out = []
    if table.show_header:
        out.append(c["header"])
    if not c.get("late"):
        for r in spec["rows"]:
            out.append(r["cells"][ci] if ci < len(r["cells"]) else ("none",))
    if table.show_footer:
        out.append(c["footer"])
    return out


def encode_variant(flags, pool, console, table, avail, spec):
    incoming = incoming_options(console, spec)
    env = spec.get("env") or {}
    """Variant request text for a real table + everything the direct evaluation needs (padded cells)."""
    ncols = len(table.columns)
    cols_enc = []
    padded = []  # per column: list of padded renderables in _get_cells order
    for ci, column in enumerate(table.columns):
        cells = list(table._get_cells(console, ci, column))
        rs = [c.renderable for c in cells]
        padded.append(rs)
        ids = []
        keys = cell_specs(spec, table, ci)
        if len(keys) != len(rs):
            # the table is not shaped as the spec says (add_row_rectangular reports that): anonymous, unshared oracle keys
            keys = [("anon-x", repr((spec["cols"], spec["rows"])), ci, ri, len(rs)) for ri in range(len(rs))]
        for ri, r in enumerate(rs):
            pad = (r.top, r.right, r.bottom, r.left) if any(table.padding) else None
            ids.append(pool.cell((repr(keys[ri]), pad), r, table, column, spec.get("env")))
        n_body = len(column._cells)
        hdr = ids[0] if table.show_header else None
        ftr = ids[-1] if table.show_footer else None
        body = ids[(1 if table.show_header else 0): (len(ids) - 1 if table.show_footer else len(ids))]
        assert len(body) == n_body
        cols_enc.append(" ".join([enc_opt(column.width), enc_opt(column.min_width), enc_opt(column.max_width), enc_opt(column.ratio),
                                  b(column.no_wrap), enc_opt(hdr), enc_opt(ftr), str(n_body)] + [str(i) for i in body]))
    ti = ca = None
    t_ann = annotation_text(console, table, "title")
    if t_ann is not None:
        ti = pool.annotation(("title", repr(table.title)), t_ann[0], t_ann[1], table, incoming, spec.get("env"))
    c_ann = annotation_text(console, table, "caption")
    if c_ann is not None:
        ca = pool.annotation(("caption", repr(table.caption)), c_ann[0], c_ann[1], table, incoming, spec.get("env"))
    pt, pr, pb, pl = table.padding
    opts = " ".join([box_name(table.box), b(table.show_header), b(table.show_footer), b(table.show_edge), b(table.show_lines),
                     str(int(table.leading)), str(pt), str(pr), str(pb), str(pl), b(table.pad_edge), b(table.collapse_padding),
                     b(table._expand), enc_opt(table.width), enc_opt(table.min_width), enc_opt(ti), enc_opt(ca),
                     # Box.substitute(options, safe=pick_bool(table.safe_box, console.safe_box)): the table's own setting wins
                     b(table.safe_box if table.safe_box is not None else env.get("console_safe_box", True)),
                     b(env.get("legacy_windows")), b(env.get("ascii"))])
    rows = enc_ints([int(bool(r.end_section)) for r in table.rows])
    text = ";".join([" ".join(str(int(f)) for f in flags), str(avail), opts, rows, ",".join(cols_enc)])
    assert "\t" not in text and "@" not in text
    return text, padded, ncols


def real_answer(console, table, options=None):
    """(answer string, widths or None, lines or None) from real rich; the answer ends with `|M<min> <max>`, what
    `Table.__rich_measure__(console, options.max_width)` returns (or the error it raises)."""
    options = console.options if options is None else options
    max_width = options.max_width if table.width is None else table.width
    try:
        m = table.__rich_measure__(console, options.max_width)
        meas = f"|M{m.minimum} {m.maximum}"
    except AssertionError:
        meas = "|Merr:AssertionError"
    except CellBoom:
        meas = "|Merr:CellRaises"
    except Exception as e:
        meas = "|Merr:Other:" + type(e).__name__
    try:
        widths = table._calculate_column_widths(console, max_width - table._extra_width)
        if options.max_width < 1:
            # Console.render returns at once ("no space to render anything"); the model is of Table.__rich_console__ itself
            segments = list(table.__rich_console__(console, options))
        else:
            segments = list(console.render(table, options))
        lines = plain_lines(segments)
        real_answer.segments = segments
    except AssertionError:
        return "err:AssertionError" + meas, None, None
    except CellBoom:
        return "err:CellRaises" + meas, None, None
    except Exception as e:
        return "err:Other:" + type(e).__name__ + meas, None, None
    return "W" + enc_ints(widths) + "L" + enc_str_list(lines) + meas, widths, lines


# ----------------------------------------------------------------------------------------------- direct evaluation


def classify_rect(table, widths, line):
    """narrow classifier: box set, leading >= 2 and the over-wide line is the `mid` row repeated `leading` times."""
    if table.box is not None and table.leading >= 2:
        mid = table.box.get_row([max(0, w) for w in widths], "mid", edge=table.show_edge)
        if line == mid * table.leading and mid != "":
            return "table-leading-multi"
    return None


def all_wrappable(table):
    return all(c.width is None and not c.no_wrap for c in table.columns)


_WIDTH_ROWS = None


def indep_cell_len(text):
    """cell width of a string by a LINEAR scan of the data table rich/_cell_widths.py (the table that is translated to Lean), without
    rich.cells: no binary search, no cache, no ASCII shortcut — so a defect in the lookup code cannot hide behind the oracle"""
    global _WIDTH_ROWS
    if _WIDTH_ROWS is None:
        from rich._cell_widths import CELL_WIDTHS

        _WIDTH_ROWS = [(a, b, 0 if w == -1 else w) for a, b, w in CELL_WIDTHS]
    total = 0
    for ch in text:
        cp = ord(ch)
        for a, b, w in _WIDTH_ROWS:
            if a <= cp <= b:
                total += w
                break
        else:
            total += 1
    return total


def evaluate(ctx, console, table, avail, widths, lines, padded, spec, text_cells):
    """The executable statements of the C07 theorems on rich's own output (independent of the Lean model)."""
    cell_len = indep_cell_len

    extra = table._extra_width
    ncols = len(table.columns)
    if ncols == 0:
        return
    max_width = (avail if table.width is None else table.width) - extra
    table_width = sum(widths) + extra
    # the statement's domain: available width at or above the structural minimum (one cell per free column; an explicit
    # width / min_width / flexible minimum plus padding otherwise), ratios that ask for a positive share
    smin = 0
    for ci, c in enumerate(table.columns):
        pw = table._get_padding_width(ci)
        if c.width is not None:
            smin += max(1, c.width + pw)
        elif c.flexible:
            smin += max(1, 1 + pw, (c.min_width or 0) + pw)
        else:
            smin += max(1, (c.min_width + pw) if c.min_width is not None else 1)
    ratio_ok = all(c.ratio is None or c.ratio >= 0 for c in table.columns)   # a zero ratio is a legal share ("what is left")

    def ratio_zero_finding(too_wide):
        """narrow classifier: an EXPANDING table with a zero-ratio flexible column that is too wide by at most one cell per such
        column (each was handed 0 cells and got one back from the re-measure), or whose zero-ratio column was left with 0 cells"""
        zero_cols = [i for i, c in enumerate(table.columns) if c.flexible and not c.ratio]
        if not (table.expand and zero_cols):
            return None
        if too_wide and 0 < sum(widths) - max_width <= len(zero_cols):
            return "table-ratio-zero-column"
        if not too_wide and any(widths[i] < 1 for i in zero_cols):
            return "table-ratio-zero-column"
        return None

    in_domain = max_width >= smin and ratio_ok and all(p >= 0 for p in table.padding)
    ctx.note("table:domain:" + ("in" if in_domain else "below-structural-minimum-or-zero-ratio"))
    # no column may get a negative width, at ANY available width (a negative width breaks the rectangle: `" " * -3` is empty
    # but the width still counts in the sum); classifier: some flexible column has a zero ratio (it is handed what is left)
    neg = any(w < 0 for w in widths)
    ctx.check(not neg, "widths_nonnegative", spec, f"a column got a negative width: {widths}",
              finding="table-flexible-width-negative" if any(c.flexible and not c.ratio for c in table.columns) else None)
    if neg:
        return
    # --- title / caption lines are not part of the body
    nt = nc = 0
    for which in ("title", "caption"):
        ann = annotation_text(console, table, which)
        if ann is not None:
            opts = annotation_options(console, table, incoming_options(console, spec), table_width, ann[1])
            n = len(plain_lines(list(console.render(ann[0], opts))))
            if which == "title":
                nt = n
            else:
                nc = n
    body = lines[nt: len(lines) - nc]
    # --- table_rect
    rect_ok = True
    for ln in body:
        if cell_len(ln) != table_width:
            rect_ok = False
            ctx.check(False, "table_rect", spec, f"body line {ln!r} is {cell_len(ln)} cells wide, the table is {table_width} (widths {widths})",
                      finding=classify_rect(table, widths, ln))
            break
    else:
        ctx.check(True, "table_rect", spec, "")
    # --- first pass (natural) widths, from the real _measure_column
    first = [(table._measure_column(console, c, max_width).maximum or 1) for c in table.columns]
    flexible = any(c.flexible and c.ratio for c in table.columns)
    fits_naturally = sum(first) <= max_width and not (table.expand and flexible)
    stable_cells = all(text_cells)
    no_col_min = all(c.min_width is None for c in table.columns)
    # --- fixed_column_width: a column with an explicit width that keeps its natural width is exactly `width` plus ITS OWN padding
    #     (left padding collapses for every column but the first — by POSITION in the table, however the column object got there)
    _pt, _pr, _pb, _pl = table.padding
    if not table.expand and table.min_width is None and sum(widths) <= max_width and sum(first) <= max_width and max_width >= 1:
        for i, c in enumerate(table.columns):
            if c.width is not None and c.width >= 0 and all(p >= 0 for p in table.padding):
                left = max(0, _pl - _pr) if (table.collapse_padding and i > 0) else _pl
                want = min(c.width + left + _pr, max_width) or 1
                ctx.check(widths[i] == want, "fixed_column_width", spec,
                          f"column {i} has width={c.width} and padding {left}+{_pr} but is {widths[i]} cells wide (widths {widths})")
    # --- table_expand_exact
    if in_domain and table.expand and (fits_naturally or (all_wrappable(table) and no_col_min and stable_cells and max_width >= ncols)):
        ok = sum(widths) == max_width
        finding = None
        if not ok and table.min_width is not None and table.min_width - extra < max_width and sum(widths) < max_width:
            finding = "table-expand-min-width"
        elif (not ok and flexible and sum(widths) < max_width
              and any((not c.flexible) and table._measure_column(console, c, max_width).maximum == 0 for c in table.columns)):
            # a ratio column next to a column that measures 0 (empty cells, no padding): reserved 0, given 1
            finding = "table-expand-ratio-zero-width-column"
        elif not ok and sum(widths) < max_width and not fits_naturally and all(
                (table._measure_column(console, c, w).maximum or 1) == w for c, w in zip(table.columns, widths)):
            # the widths are what a re-measure returns (a fixed point of `_measure_column(..., width).maximum or 1`), the natural
            # widths did not fit (so the collapse block ran) and the total is short: `table_width` was not refreshed
            finding = "table-expand-stale-width"
        elif not ok and sum(widths) > max_width:
            finding = ratio_zero_finding(True)
        ctx.check(ok, "table_expand_exact", spec,
                  f"expanding table is {table_width} cells wide, asked for {max_width + extra} (widths {widths}, natural {first})", finding=finding)
    # --- table_expand_exact for EVERY kind of column (min_width, no_wrap, fixed width, max_width; no active ratio): theorems
    #     table_expand_exact_no_wrap / _above_floors.  The structural minimum here is the one the theorems name: the natural (first
    #     pass) widths of the columns that may not shrink + one cell per column that may; the `min_width + padding` floors are
    #     compared with what the REAL `Table._collapse_widths` leaves of the natural widths (not with the model).
    if table.expand and ratio_ok and not flexible and all(p >= 0 for p in table.padding) and all(
            (c.width is None or c.width >= 0) and (c.max_width is None or c.max_width >= 0) for c in table.columns):
        wrapable = [c.width is None and not c.no_wrap for c in table.columns]
        # a column's own max_width cap is applied after its min_width (Measurement.clamp), so it bounds the floor
        floors = [(max(0, c.min_width + table._get_padding_width(i)) if c.max_width is None
                   else max(0, min(c.min_width, c.max_width) + table._get_padding_width(i)))
                  if (c.width is None and c.min_width is not None) else 0
                  for i, c in enumerate(table.columns)]
        budget = sum(1 if wr else f for f, wr in zip(first, wrapable))
        budget_floors = sum(max(1, fl_) if wr else f for f, wr, fl_ in zip(first, wrapable, floors))
        if max_width >= budget:
            if sum(first) <= max_width:
                above = True
            else:
                try:
                    collapsed = list(type(table)._collapse_widths(list(first), wrapable, max_width))
                except BaseException as e:   # noqa: BLE001 - judged, not a harness error
                    collapsed = None
                    ctx.check(False, "expand_exact_columns", spec, f"_collapse_widths raised {type(e).__name__}")
                above = collapsed is not None and all(w >= f for w, f in zip(collapsed, floors))
            kinds = "+".join(k for k, on in (("no_wrap", any(c.no_wrap for c in table.columns)), ("min_width", any(floors)),
                                             ("width", any(c.width is not None for c in table.columns)),
                                             ("max_width", any(c.max_width is not None for c in table.columns))) if on) or "free"
            if above:
                ctx.note("table:expand_exact_columns:" + kinds + (":collapsed" if sum(first) > max_width else ":fits"))
                ctx.check(sum(widths) == max_width and all(w >= 1 for w in widths), "expand_exact_columns", spec,
                          f"expanding table ({kinds} columns) is {table_width} cells wide, asked for {max_width + extra} "
                          f"(widths {widths}, natural {first}, structural minimum {budget + extra})")
            elif max_width >= budget_floors:
                # the collapse went below a column's min_width floor: the statement still asks for exactness (the floors fit)
                ok = sum(widths) == max_width
                finding = None
                if not ok and sum(widths) > max_width and any(f and w == f for w, f in zip(widths, floors)):
                    # narrow classifier: too wide, and some min_width column sits exactly on its floor (put back by the re-measure)
                    finding = "table-column-min-width-overflow"
                ctx.note("table:expand_exact_columns:below-floor:" + ("exact" if ok else "too-wide" if sum(widths) > max_width else "short"))
                ctx.check(ok, "expand_exact_min_width_column", spec,
                          f"expanding table with a min_width column is {table_width} cells wide, asked for {max_width + extra} "
                          f"(widths {widths}, natural {first}, floors {floors}; {budget_floors + extra} would do)", finding=finding)
    # --- width_fits
    if in_domain and all_wrappable(table) and no_col_min and max_width >= ncols:
        ok = sum(widths) <= max_width
        ctx.check(ok, "width_fits", spec, f"table is {table_width} cells wide, {max_width + extra} available (widths {widths})",
                  finding=None if ok else ratio_zero_finding(True))
    if in_domain:
        ok = all(w >= 1 for w in widths)
        ctx.check(ok, "widths_positive", spec, f"a column width below 1: {widths}", finding=None if ok else ratio_zero_finding(False))
    # --- rows_in_order + fold_cells_in_column: every row's shaped cell lines appear, in order, on lines of their own,
    #     each cell inside its column's span (borders: `edge`/`div` characters of width 1 around / between the spans)
    row_cells = list(zip(*padded))
    edge = 1 if (table.box is not None and table.show_edge) else 0
    div = 1 if table.box is not None else 0

    def match_line(ln, parts):
        p = edge
        for i, part in enumerate(parts):
            if i:
                p += div
            if not ln.startswith(part, p):
                return False
            p += len(part)
        return p + edge == len(ln) and cell_len(ln[:edge]) == edge

    def rule_like(ln):
        """a separator: all characters one cell wide, each column span one repeated character"""
        if len(ln) != table_width or cell_len(ln) != table_width:
            return False
        p = edge
        for i, w in enumerate(widths):
            if i:
                p += div
            if len(set(ln[p:p + w])) > 1:
                return False
            p += w
        return True

    cursor = 1 if (edge and body) else 0     # the top edge is a line of its own (it can look exactly like a blank cell line)
    row_pos = []    # per matched row: index of its first line in `body`
    row_exps = []   # per matched row: per column the lines found INSIDE that column's span of the real output
    ok_rows = rect_ok
    why = ""
    for ri, rc in enumerate(row_cells if rect_ok else []):
        exp = []
        for ci, (w, r) in enumerate(zip(widths, rc)):
            column = table.columns[ci]
            exp.append([line_text(l) for l in console.render_lines(r, cell_options(console, table, column, w))])
        h = max([1] + [len(e) for e in exp])
        exp = [e + [" " * w] * (h - len(e)) for e, w in zip(exp, widths)]
        found = None
        p = cursor
        while p + h <= len(body):
            if all(match_line(body[p + k], [exp[ci][k] for ci in range(ncols)]) for k in range(h)):
                found = p
                break
            if not rule_like(body[p]):
                break  # a line with content that is not this row's: rows out of order / content outside its column
            p += 1
        if found is None:
            ok_rows = False
            why = f"row {ri} (of {len(row_cells)}) not found in order at/after body line {cursor}: expected column contents {exp}; body {body}"
            break
        cursor = found + h
        row_exps.append(exp)
        row_pos.append(found)
    if ok_rows:
        for ln in body[cursor:]:
            if not rule_like(ln):
                ok_rows, why = False, f"content after the last row: {ln!r}"
                break
    if rect_ok:
        ctx.check(ok_rows, "rows_in_order/cells_in_column", spec, why)
    # --- fold: every non-whitespace character of the cell's SOURCE text, in order, inside its column's span of the real output
    #     (row_exps[ri][ci] is what the table printed in column ci's span for row ri — verified line by line above; the source text
    #     comes from the spec, so a wrapping / folding bug that loses characters is seen even if the table stays a rectangle)
    if ok_rows:
        for ci, column in enumerate(table.columns):
            pad_w = table._get_padding_width(ci)
            for ri in range(len(row_cells)):
                src, nested = spec_cell_text(spec, table, ci, ri, len(row_cells))
                if src is None:
                    continue
                # a plain-text cell folds only if its column says so; a nested folding table folds whatever its parent column says
                if not nested and (column.overflow != "fold" or column.no_wrap):
                    continue
                wide = any(cell_len(ch) == 2 for ch in src)
                if widths[ci] - pad_w < (2 if wide else 1):
                    continue
                shown = "".join(row_exps[ri][ci])
                want = [ch for ch in src if not ch.isspace()]
                got = [ch for ch in shown if not ch.isspace()]
                ctx.check(want == got, "fold_keeps_characters", (spec, ci, ri),
                          f"cell text {src!r} shows as {row_exps[ri][ci]!r} in column {ci} of width {widths[ci]}" + (" (nested folding table)" if nested else ""))
    # --- styles
    if ok_rows and getattr(real_answer, "segments", None) is not None:
        check_styles(ctx, console, table, spec, widths, nt, body, row_cells, row_pos, real_answer.segments)


def char_styles(segments):
    """per line: [(character, style)] of the non-control segments"""
    lines = [[]]
    for sg in segments:
        if sg.is_control:
            continue
        for i, part in enumerate(sg.text.split("\n")):
            if i:
                lines.append([])
            lines[-1].extend((ch, sg.style) for ch in part)
    if lines and not lines[-1]:
        lines.pop()
    return lines


def check_styles(ctx, console, table, spec, widths, nt, body, row_cells, row_pos, segments):
    """The style every printed character must carry, re-derived from the documented composition (table.py `_render`):
      borders / separators : table.style + border_style   (a whitespace divider: the row's background + that)
      a cell's characters  : table.style + row style + (header_style|style|footer_style of table + of column) + the segment's own style
      blank lines filling a shorter cell up to the row height : table.style + row style
      row style            : null for header / footer rows, else row_styles[i % n] + the row's own style
    compared character by character with the real segments (segmentation itself is not compared)."""
    from rich.style import Style

    null = Style.null()
    gs = console.get_style
    table_style = gs(table.style or "")
    border_style = table_style + gs(table.border_style or "")
    actual = char_styles(segments)
    edge = 1 if (table.box is not None and table.show_edge) else 0
    div = 1 if table.box is not None else 0
    nrows = len(row_cells)

    def same(a, b):
        return (a or null) == (b or null)

    def rule_is_blank_cells(line):
        """a `mid` separator (blank spans between vertical bars) reads exactly like a row of blank cells: not told apart"""
        p = edge
        for i, w in enumerate(widths):
            if i:
                p += div
            if any(c != " " for c, _ in line[p:p + w]):
                return False
            p += w
        return True

    in_row = {}
    for ri, pos in enumerate(row_pos):
        header_row = ri == 0 and table.show_header
        footer_row = ri == nrows - 1 and table.show_footer
        if header_row or footer_row:
            row_style = null
        else:
            idx = ri - 1 if table.show_header else ri
            row_style = null
            if table.row_styles:
                row_style = row_style + gs(table.row_styles[idx % len(table.row_styles)])
            if table.rows[idx].style is not None:
                row_style = row_style + gs(table.rows[idx].style)
        cells_segs = []
        for ci, (w, r) in enumerate(zip(widths, row_cells[ri])):
            column = table.columns[ci]
            # which KIND of cell this is is decided per column by `_get_cells` (a column added after the rows has fewer cells, so
            # zip(*columns) can pair one column's footer with another column's body cell)
            n_entries = len(column._cells) + int(table.show_header) + int(table.show_footer)
            if ri == 0 and table.show_header:
                own = gs(table.header_style or "") + gs(column.header_style)
            elif ri == n_entries - 1 and table.show_footer:
                own = gs(table.footer_style or "") + gs(column.footer_style)
            else:
                own = gs(table.style or "") + gs(column.style)
            cell_style = table_style + row_style + own
            lines = console.render_lines(r, cell_options(console, table, column, w))
            cells_segs.append((cell_style, [[(ch, sg.style) for sg in ln if not sg.is_control for ch in sg.text] for ln in lines]))
        h = max([1] + [len(c[1]) for c in cells_segs])
        for k in range(h):
            exp = []
            line = actual[nt + pos + k]
            if edge:
                exp.append(border_style)
            for ci, (cell_style, lines) in enumerate(cells_segs):
                if ci and div:
                    ch = line[len(exp)][0] if len(exp) < len(line) else "x"
                    exp.append(border_style if ch.strip() else row_style.background_style + border_style)
                if k < len(lines):
                    exp.extend((cell_style + st) if st else cell_style for _, st in lines[k])
                else:
                    exp.extend([table_style + row_style] * widths[ci])
            if edge:
                exp.append(border_style)
            in_row[pos + k] = True
            got = [st for _, st in line]
            ok = len(got) == len(exp) and all(same(a, b) for a, b in zip(got, exp))
            ncell_chars = sum(len(lines[k]) if k < len(lines) else widths[ci] for ci, (_, lines) in enumerate(cells_segs))
            blank_cells = sum(1 for c, _ in line if c == " ") >= ncell_chars and all(
                all(ch == " " for ch, _ in lines[k]) for _, lines in cells_segs if k < len(lines))
            if not ok and blank_cells:
                ctx.note("table:styles:blank-line-ambiguous")    # a blank cell line and a blank separator look the same
                continue
            if not ok:
                bad = next((i for i, (a, b) in enumerate(zip(got, exp)) if not same(a, b)), None)
                ctx.check(False, "cell_styles", spec, f"row {ri} line {k}: character {bad} of {''.join(c for c, _ in line)!r} carries "
                          f"{got[bad] if bad is not None else '?'!s}, expected {exp[bad] if bad is not None else '?'!s}")
                return
    for li in range(len(body)):
        if li not in in_row:
            line = actual[nt + li]
            if all(c == " " for c, _ in line) or rule_is_blank_cells(line):
                continue
            if not all(same(st, border_style) for _, st in line):
                ctx.check(False, "border_styles", spec, f"separator line {''.join(c for c, _ in line)!r} is not in the border style {border_style!s}")
                return
    ctx.check(True, "cell_styles", spec, "")


def spec_cell_text(spec, table, ci, ri, nrows):
    """(source text, nested?) of the cell at (column ci, zipped row ri): a str/Text cell's text, or the concatenated row texts of
    a nested one-column folding table; (None, False) for anything else.
    (zip(*columns) truncates: the ri-th entry of EACH column's own `_get_cells` list)"""
    cs = cell_specs(spec, table, ci)[ri]
    if cs[0] in ("s", "t", "st", "ctl"):
        return cs[1], False
    if cs[0] == "ntable":
        return " ".join(cs[1]), True
    return None, False


def spec_text_cells(spec):
    """per column: True when every cell (header, footer, body) is str/Text (re-measuring is then stable)"""
    out = []
    if spec.get("has_extra"):
        return [False]
    for ci, c in enumerate(spec["cols"]):
        kinds = [c["header"][0], c["footer"][0]]
        if not c.get("late"):
            kinds += [r["cells"][ci][0] for r in spec["rows"] if ci < len(r["cells"])]
        out.append(all(k in ("s", "t", "st", "ctl", "m", "none") for k in kinds))
    return out


# ----------------------------------------------------------------------------------------------- bundles


class RecCtx:
    """what a worker process records instead of talking to the real Ctx (replayed by `account`)."""

    def __init__(self):
        import collections

        self.passed = collections.Counter()
        self.failed = []
        self.notes = collections.Counter()

    def check(self, ok, site, inp, what, finding=None):
        if ok:
            self.passed[site] += 1
        else:
            self.failed.append((site, inp, what, finding))
        return ok

    def note(self, key, n=1):
        self.notes[key] += n


def run_job(job):
    """worker: job = (wtab, flags, [spec, ...]) -> picklable result"""
    wtab, flags, specs = job
    rec = RecCtx()
    bundle = Bundle(rec, wtab)
    for spec in specs:
        bundle.add(spec, flags)
    return {"line": bundle.request_line(), "variants": bundle.variants, "passed": dict(rec.passed), "failed": rec.failed, "notes": dict(rec.notes)}


def account(ctx, results):
    """parent: replay recorded checks, send the bundles to the model, compare per variant (mirrors core.Ctx.flush)."""
    for r in results:
        for site, n in r["passed"].items():
            ctx.dist["prop:" + site] += n
        for site, inp, what, finding in r["failed"]:
            ctx.check(False, site, inp, what, finding=finding)
        for k, n in r["notes"].items():
            ctx.dist[k] += n
    results = [r for r in results if r["variants"]]
    n_all = sum(len(r["variants"]) for r in results)
    ctx.evaluations += n_all
    ctx.dist["fn:table.render"] += n_all
    for r in results:
        h = hashlib.blake2b(r["line"].split("\t", 2)[1].encode(), digest_size=8).hexdigest()
        for text, _, _ in r["variants"]:
            ctx.distinct.add(hashlib.blake2b((h + text).encode(), digest_size=8).digest())
    if not ctx.driver_ok:
        ctx.dist["driver_unavailable"] += n_all
        return
    answers = ctx.model([r["line"] for r in results]) if results else []
    for r, answer in zip(results, answers):
        parts = answer.split("@")
        if len(parts) != len(r["variants"]):
            raise RuntimeError(f"table.bundle answered {len(parts)} variants for {len(r['variants'])}: {answer[:200]}")
        for (text, impl, spec), ans in zip(r["variants"], parts):
            # `Table.__rich_measure__`: compared on its own (`|M?` = a cell would be measured outside its tabulated range)
            ans, _, ans_m = ans.partition("|M")
            impl, _, impl_m = impl.partition("|M")
            ctx.evaluations += 1
            ctx.dist["fn:table.rich_measure"] += 1
            if ans_m == "?" or ans == "unmodelled" and ans_m == "":
                ctx.unmodelled += 1
                ctx.dist["table.rich_measure:unmodelled"] += 1
            else:
                ctx.compared += 1
                if ans_m == impl_m:
                    ctx.agreed += 1
                else:
                    if len(ctx.mismatches) < 50:
                        ctx.mismatches.append({"request": "table.bundle variant (__rich_measure__) " + text, "model": ans_m, "impl": impl_m, "readable": spec})
                    ctx.dist["MISMATCH:table.rich_measure"] += 1
            if ans == "unmodelled":
                ctx.unmodelled += 1
                ctx.dist["table.render:unmodelled"] += 1
                continue
            ctx.compared += 1
            if ans == impl:
                ctx.agreed += 1
                if len(ctx.samples) < 12 and ctx.rng.random() < 0.02 + (len(ctx.samples) < 3):
                    ctx.samples.append({"request": "table.bundle variant " + text[:300], "answer": ans[:300], "readable": repr(spec)[:600]})
            else:
                if len(ctx.mismatches) < 50:
                    ctx.mismatches.append({"request": "table.bundle variant " + text, "model": ans, "impl": impl, "readable": spec})
                ctx.dist["MISMATCH:table.render"] += 1


class Bundle:
    """Variants that share one oracle pool (same console width bound)."""

    def __init__(self, ctx, wtab):
        self.ctx = ctx
        self.wtab = wtab
        self.console = make_console(wtab)
        self.pool = Pool(ctx, self.console, wtab)
        self.variants = []  # (request text, impl answer, spec)

    def add(self, spec, flags):
        ctx = self.ctx
        avail = spec["avail"]
        console = make_console(avail, spec.get("env"))
        pre = spec.get("pre")
        if pre is None:
            table = build_table(spec)
        else:
            # a RE-RENDER history: the same object is built in an earlier state, rendered (and measured) once, changed through its
            # attributes / add_row / add_column into the state `spec` describes, and only then rendered for the checks below —
            # the model, the theorems and a freshly built table know nothing of the earlier render
            table = build_table(pre["spec"])
            c0 = make_console(pre["avail"], spec.get("env"))
            first = real_answer(c0, table, incoming_options(c0, pre["spec"]))[0]
            mutate_table(table, pre["spec"], spec)
            ctx.note("table:history:" + pre.get("kind", "?"))
            fresh = real_answer(console, build_table(spec), incoming_options(console, spec))[0]
            again = real_answer(console, table, incoming_options(console, spec))[0]
            ctx.check(again == fresh, "rerender_equals_fresh", {"before": pre["spec"], "first_width": pre["avail"], "after": spec},
                      f"rendered once at width {pre['avail']}, changed ({pre.get('kind')}), rendered again at width {avail}: "
                      f"{again[:160]!r}; a freshly built table in the same state renders {fresh[:160]!r} (first render: {first[:60]!r})")
        text, padded, ncols = encode_variant(flags, self.pool, self.console, table, avail, spec)
        # add_row: every column present when the rows were added, or created by them, holds one cell per row, and the cell in
        # row k of column c IS (by identity) the object passed as argument c of the k-th add_row; a missing argument (or None) is
        # "", and a column created by row k0 holds a blank for every earlier row.  Computed from what was passed, not from the table.
        n_before, passed = table._verif_passed if pre is None else (len([c for c in spec["cols"] if not c.get("late")]), None)
        nlate = sum(1 for c in spec["cols"] if c.get("late"))
        cols_now = table.columns[: len(table.columns) - nlate] if nlate else table.columns
        if passed is None:      # a history: the cells were put there by mutate_table; only the rectangular shape is checked
            ok = all(len(c._cells) == len(table.rows) for c in cols_now)
            why = f"columns hold {[len(c._cells) for c in table.columns]} cells for {len(table.rows)} rows"
            passed = []
            n_expected = len(cols_now)
        else:
            n_expected = max([n_before] + [len(p) for p in passed])
            ok = len(cols_now) == n_expected and len(table.rows) == len(passed)
            why = f"{len(cols_now)} columns for rows of {[len(p) for p in passed]} cells on {n_before} declared columns"
        if ok and pre is None:
            ncols_so_far = n_before
            created_at = {}
            for k, p in enumerate(passed):
                for ci in range(ncols_so_far, len(p)):
                    created_at[ci] = k
                ncols_so_far = max(ncols_so_far, len(p))
            for ci, c in enumerate(cols_now):
                want = []
                for k, p in enumerate(passed):
                    if k < created_at.get(ci, 0):
                        want.append(("blank",))
                    elif ci < len(p) and p[ci] is not None:
                        want.append(("obj", p[ci]))
                    else:
                        want.append(("blank",))
                got = list(c._cells)
                if len(got) != len(want) or not all(
                        (g is w[1]) if w[0] == "obj" else (g == "" or getattr(g, "plain", None) == "") for g, w in zip(got, want)):
                    ok = False
                    why = (f"column {ci} holds {[getattr(g, 'plain', g) for g in got]!r}, the add_row calls passed "
                           f"{[(getattr(w[1], 'plain', w[1]) if w[0] == 'obj' else '') for w in want]!r} for it")
                    break
        ctx.check(ok, "add_row_cells", spec, why)
        ans, widths, lines = real_answer(console, table, incoming_options(console, spec))
        self.variants.append((text, ans, spec))
        ro = spec.get("render_opts") or {}
        ctx.note("table:incoming:" + (",".join(f"{k}={v}" for k, v in sorted(ro.items())) or "default"))
        ctx.note(f"table:cols{ncols}")
        ctx.note(f"table:rows{len(spec['rows'])}")
        ctx.note("table:box:" + str(spec["opts"].get("box")))
        ctx.note("table:answer:" + (ans.partition("|M")[0] if ans.startswith("err") else "ok"))
        ctx.note("table:measure:" + ("err" if "|Merr" in ans else "ok"))
        if widths is not None:
            mw = (avail if table.width is None else table.width) - table._extra_width
            first = sum((table._measure_column(console, c, mw).maximum or 1) for c in table.columns)
            ctx.note("table:branch:" + ("collapse" if first > mw else "fits") + ("/expand" if table.expand else ""))
            evaluate(ctx, console, table, avail, widths, lines, padded, spec, spec_text_cells(spec))
        return ans

    def request_line(self):
        line = "table.bundle\t" + self.pool.encode() + "\t" + "\t".join(v[0] for v in self.variants)
        assert "\n" not in line
        return line
