"""Independent terminal oracle: tokenizer (characters -> terminal operations) and screen replayer.

Written for C10 (live displays) and meant to be reused by C03 / C11 / C15.  It shares no code with
rich and none with the Lean model `lean/RichModel/Model/Term.lean`; the Lean model implements the
same *specification*, which is this docstring:

Terminal subset (DESIGN.md section 5, "the terminal")
----------------------------------------------------
tokens                      meaning on the screen
("T", text)                 printable characters, written at the cursor, cursor moves right one cell per
                            character (`width_fn(ch)` cells if a width function is given); no auto-wrap unless
                            the screen was given a `width` (then: deferred wrap at the right margin)
("LF",)                     cursor to column 0 of the next row (a tty in its default ONLCR mode turns the
                            "\n" a program writes into CR LF); a new blank row is created when needed and, on
                            a screen with a height, the window scrolls
("CR",)                     cursor to column 0
("CUU", n)                  cursor up n rows (n = 0 counts as 1, ECMA-48), never above the first *visible*
                            row: with `height=H` only the last H rows ever reached are on screen, anything
                            above has scrolled away and cannot be reached (nor erased) any more
("EL2",)                    erase the whole current row; the cursor does not move
("SHOW",) / ("HIDE",)       DECTCEM  CSI ?25h / CSI ?25l
("SGR", (p1, p2, ...))      select graphic rendition; () is a reset like (0,)
("OSC8", params, uri)       hyperlink start (uri != "") / end (uri == "")
("BEL",)  ("BS",) ("TAB",)  other C0 controls are kept as tokens; the screen ignores BEL, BS moves left
("CSI", raw) ("ESC", raw)   anything else that is recognisably an escape sequence, kept verbatim so callers
                            can detect sequences outside the subset (the screen ignores them but counts them
                            in `Screen.unknown`)

`Screen.rows` is the whole history of rows (scroll-back included), row 0 first; every row is a list of
cells `(char, sgr, link)` where `sgr` is the tuple of SGR parameter tuples seen since the last reset
(styles are opaque here: two cells have the same rendition iff their `sgr` tuples are equal) and
`link` the active OSC 8 uri or None.  Cells never written inside a row are blanks `(" ", (), None)`.

Nothing here is clever on purpose: it is the oracle.
"""
import re

__all__ = ["tokenize", "Screen", "replay", "plain_ops", "BLANK", "wcwidth", "cell_len", "crop_cells"]

BLANK = (" ", (), None)

_CSI = re.compile(r"\x1b\[([0-9;:<=>?]*)([ -/]*)([@-~])")
_OSC = re.compile(r"\x1b\]([^\x07\x1b]*)(?:\x07|\x1b\\)")


def tokenize(s):
    """Split a string written to a terminal into tokens (see module docstring).

    Adjacent printable characters form one ("T", text) token.  The function is total: every character
    of `s` ends up in exactly one token, and `"".join(raw(t))` would give `s` back.
    """
    out = []
    buf = []
    i = 0
    n = len(s)

    def flush():
        if buf:
            out.append(("T", "".join(buf)))
            del buf[:]

    while i < n:
        c = s[i]
        if c == "\x1b":
            m = _CSI.match(s, i)
            if m:
                flush()
                params, inter, final = m.group(1), m.group(2), m.group(3)
                raw = m.group(0)
                if inter == "" and final == "A" and (params == "" or params.isdigit()):
                    out.append(("CUU", int(params) if params else 1))
                elif inter == "" and final == "K" and params == "2":
                    out.append(("EL2",))
                elif inter == "" and final == "h" and params == "?25":
                    out.append(("SHOW",))
                elif inter == "" and final == "l" and params == "?25":
                    out.append(("HIDE",))
                elif inter == "" and final == "m" and all(p == "" or p.isdigit() for p in params.split(";")):
                    ps = tuple(int(p) if p else 0 for p in params.split(";")) if params else ()
                    out.append(("SGR", ps))
                else:
                    out.append(("CSI", raw))
                i = m.end()
                continue
            m = _OSC.match(s, i)
            if m:
                flush()
                body = m.group(1)
                if body.startswith("8;"):
                    _, params, uri = body.split(";", 2)
                    out.append(("OSC8", params, uri))
                else:
                    out.append(("ESC", m.group(0)))
                i = m.end()
                continue
            flush()
            # lone ESC or a two-character escape
            if i + 1 < n and "0" <= s[i + 1] <= "~" and s[i + 1] not in "[]":
                out.append(("ESC", s[i : i + 2]))
                i += 2
            else:
                out.append(("ESC", c))
                i += 1
            continue
        if c == "\n":
            flush()
            out.append(("LF",))
        elif c == "\r":
            flush()
            out.append(("CR",))
        elif c == "\x07":
            flush()
            out.append(("BEL",))
        elif c == "\x08":
            flush()
            out.append(("BS",))
        elif c == "\t":
            flush()
            out.append(("TAB",))
        elif c < " " or c == "\x7f":
            flush()
            out.append(("C0", c))
        else:
            buf.append(c)
        i += 1
    flush()
    return out


def plain_ops(tokens):
    """Tokens without rendition / hyperlink tokens, adjacent text merged: the part of the stream that
    decides *where* characters land.  Used to compare a byte stream with the Lean model's TermOps."""
    out = []
    for t in tokens:
        if t[0] in ("SGR", "OSC8"):
            continue
        if t[0] == "T" and out and out[-1][0] == "T":
            out[-1] = ("T", out[-1][1] + t[1])
        elif t[0] == "T" and t[1] == "":
            continue
        else:
            out.append(t)
    return out


def wcwidth(ch):
    """Cells a character occupies, from the Unicode East Asian Width property (independent of rich's own
    table): Wide / Fullwidth -> 2, combining marks -> 0, everything else 1."""
    import unicodedata

    if unicodedata.combining(ch):
        return 0
    return 2 if unicodedata.east_asian_width(ch) in ("W", "F") else 1


def cell_len(s, width_fn=wcwidth):
    return sum(width_fn(c) for c in s)


def crop_cells(s, w, width_fn=wcwidth):
    """`s` cut to exactly `w` cells when it is wider: whole characters while they fit; a double-width
    character that would straddle the edge becomes one space."""
    if cell_len(s, width_fn) <= w:
        return s
    out, n = [], 0
    for c in s:
        cw = width_fn(c)
        if n + cw > w:
            break
        out.append(c)
        n += cw
    return "".join(out) + " " * (w - n)


class Screen:
    """Replays tokens.  `height=None` is an unbounded screen (nothing ever scrolls out of reach)."""

    def __init__(self, height=None, width_fn=None, width=None):
        assert height is None or height >= 1
        self.height = height
        self.width_fn = width_fn
        self.width = width      # None: no auto-wrap; a number: a character that does not fit the row any more
        #                         goes to the start of the next row (deferred wrap: a row may be filled exactly);
        #                         the attribute may be changed between writes (the terminal was resized)
        self.wrapped = 0        # number of auto-wraps that happened
        self.rows = [[]]
        self.row = 0
        self.col = 0
        self.visible = True
        self.sgr = ()
        self.link = None
        self.unknown = 0
        # observers for "the cursor never moves above ..." style properties
        self.min_row_since_mark = 0
        self.clamped = 0  # number of CUU operations that hit the top of the window

    # -- geometry
    def top(self):
        """Index of the first row still on screen."""
        if self.height is None:
            return 0
        return max(0, len(self.rows) - self.height)

    def mark(self):
        """Start observing the lowest row index the cursor visits (see `min_row_since_mark`)."""
        self.min_row_since_mark = self.row

    def _visit(self):
        if self.row < self.min_row_since_mark:
            self.min_row_since_mark = self.row

    # -- operations
    def put(self, ch):
        w = 1 if self.width_fn is None else self.width_fn(ch)
        if w <= 0:
            return  # zero-width: attaches to the previous cell; the oracle keeps cells single characters
        if self.width is not None and self.col + w > self.width and self.col > 0:
            self.wrapped += 1
            self.row += 1
            self.col = 0
            while len(self.rows) <= self.row:
                self.rows.append([])
        r = self.rows[self.row]
        while len(r) < self.col:
            r.append(BLANK)
        cell = (ch, self.sgr, self.link)
        for k in range(w):
            c = cell if k == 0 else ("", self.sgr, self.link)
            if self.col < len(r):
                r[self.col] = c
            else:
                r.append(c)
            self.col += 1

    def feed_token(self, t):
        k = t[0]
        if k == "T":
            for ch in t[1]:
                self.put(ch)
        elif k == "LF":
            self.row += 1
            self.col = 0
            while len(self.rows) <= self.row:
                self.rows.append([])
        elif k == "CR":
            self.col = 0
        elif k == "CUU":
            n = t[1] if t[1] > 0 else 1
            top = self.top()
            target = self.row - n
            if target < top:
                self.clamped += 1
                target = top
            self.row = target
            self._visit()
        elif k == "EL2":
            self.rows[self.row] = []
        elif k == "SHOW":
            self.visible = True
        elif k == "HIDE":
            self.visible = False
        elif k == "SGR":
            ps = t[1]
            if ps == () or ps == (0,):
                self.sgr = ()
            elif ps and ps[0] == 0:
                self.sgr = (tuple(ps[1:]),)
            else:
                self.sgr = self.sgr + (tuple(ps),)
        elif k == "OSC8":
            self.link = t[2] or None
        elif k == "BS":
            self.col = max(0, self.col - 1)
        elif k == "BEL":
            pass
        else:
            self.unknown += 1

    def feed(self, tokens):
        for t in tokens:
            self.feed_token(t)
        return self

    def write(self, s):
        return self.feed(tokenize(s))

    # -- observations
    def text_rows(self):
        """Rows as strings, exactly as stored (blank cells are spaces, no trimming)."""
        return ["".join(c[0] for c in r) for r in self.rows]

    def trimmed_rows(self):
        """Rows as strings without trailing spaces and without trailing blank rows."""
        rows = [x.rstrip(" ") for x in self.text_rows()]
        while rows and rows[-1] == "":
            rows.pop()
        return rows

    def cell_rows(self):
        return [list(r) for r in self.rows]


def replay(s, height=None, width_fn=None, width=None):
    """Convenience: the screen after writing `s` to a fresh terminal."""
    return Screen(height=height, width_fn=width_fn, width=width).write(s)
