"""Helpers for property C16 (rich/pretty.py): encoders for the Lean driver's line protocol, an
independent reference pretty-printer written from the *statement* of the property (not from rich's
code and not from the Lean model), deep typed equality, value generators.

Nothing here imports the Lean side.  `rich` is imported lazily by the functions that need it.
"""
import itertools
import os
from array import array
from collections import Counter, defaultdict, deque

from core import enc_bool, enc_str

INF = float("inf")


class _Factory:
    """A default_factory whose repr() evaluates back to itself (so defaultdicts are evaluable)."""

    def __call__(self):
        return 0

    def __repr__(self):
        return "FACTORY"

    def __reduce__(self):
        return (_get_factory, ())


FACTORY = _Factory()


def _get_factory():
    return FACTORY


def _enc(v):
    return v.encode()


def _dec(v):
    return v.decode()


def make_environ(d):
    """An os._Environ that does not touch the process environment (nothing is assigned after construction)."""
    return os._Environ({k.encode(): v.encode() for k, v in d.items()}, _enc, _dec, _enc, _dec)


EVAL_NS = {
    "deque": deque,
    "Counter": Counter,
    "defaultdict": defaultdict,
    "array": array,
    "inf": INF,
    "nan": float("nan"),
    "FACTORY": FACTORY,
    "environ": make_environ,
}

SEQ_KINDS = {array: "array", deque: "deque", frozenset: "frozenset", list: "list", set: "set", tuple: "tuple"}
MAP_KINDS = {os._Environ: "environ", defaultdict: "defaultdict", Counter: "counter", dict: "dict"}
BASIC = (list, tuple, dict, set, frozenset)


def is_container(o):
    t = type(o)
    return t in SEQ_KINDS or t in MAP_KINDS


# ------------------------------------------------------------------ encoders (line protocol)
def enc_node(n, mask_root_last=False):
    """real rich Node tree -> prefix-order records (see Drv/C16.lean).  `mask_root_last`: the root's `last`
    flag is not observable in the repaired code (Lean: root_last_unobservable) and is sent as 1."""
    recs = []
    stack = [n]
    root = n
    while stack:
        x = stack.pop()
        ch = x.children
        recs.append(
            ";".join(
                [
                    enc_str(x.key_repr),
                    enc_str(x.value_repr),
                    enc_str(x.open_brace),
                    enc_str(x.close_brace),
                    enc_str(x.empty),
                    enc_bool(True if (mask_root_last and x is root) else x.last),
                    enc_bool(x.is_tuple),
                    enc_bool(ch is not None),
                    str(len(ch or [])),
                ]
            )
        )
        if ch:
            stack.extend(reversed(ch))
    return "|".join(recs)


def enc_line(l):
    return (
        ";".join([enc_bool(l.is_root), enc_str(l.text), enc_str(l.suffix), enc_str(l.whitespace), enc_bool(l.expanded)])
        + "#"
        + ("-" if l.node is None else enc_node(l.node))
    )


def _chars(o):
    return o if isinstance(o, str) else "".join(map(chr, o))


def enc_heap(v, max_string):
    """Python value -> (heap description, root index, repr table).  Containers are identified by id()
    (so sharing and cycles are kept); every leaf occurrence is its own heap entry.  The repr table holds
    Python's own repr() of exactly the str/bytes values `to_repr` has to print (runtime facts)."""
    objs = []
    ids = {}
    reprs = {}

    def leaf(o):
        if isinstance(o, (str, bytes)):
            b = isinstance(o, bytes)
            need = o[:max_string] if (max_string is not None and len(o) > max_string) else o
            reprs[(b, _chars(need))] = repr(need)
            return f"s~{enc_bool(b)}~{enc_str(_chars(o))}"
        try:
            r = repr(o)
        except Exception as e:  # noqa: BLE001 - this is what to_repr catches
            return "x~" + enc_str(str(e))
        return "a~" + enc_str(r)

    def visit(o):
        t = type(o)
        if t in SEQ_KINDS:
            if id(o) in ids:
                return ids[id(o)]
            idx = ids[id(o)] = len(objs)
            objs.append(None)
            aux = repr(o.typecode) if t is array else ""
            refs = [visit(x) for x in o]
            objs[idx] = f"S;{SEQ_KINDS[t]};{enc_str(aux)};" + ",".join(map(str, refs))
            return idx
        if t in MAP_KINDS:
            if id(o) in ids:
                return ids[id(o)]
            idx = ids[id(o)] = len(objs)
            objs.append(None)
            aux = repr(o.default_factory) if t is defaultdict else ""
            items = [(leaf(k), visit(x)) for k, x in o.items()]
            objs[idx] = f"M;{MAP_KINDS[t]};{enc_str(aux)};" + ",".join(f"{k}:{r}" for k, r in items)
            return idx
        idx = len(objs)
        objs.append("L;" + leaf(o) + ";" + enc_bool(isinstance(o, tuple)))
        return idx

    root = visit(v)
    table = "|".join(f"{enc_bool(b)}~{enc_str(cs)}~{enc_str(r)}" for (b, cs), r in reprs.items())
    return "|".join(objs), root, table


# ------------------------------------------------------------------ width oracle (table only, none of rich.cells' code)
_TABLE = None


def table_cell_len(text):
    """cell width of a string from rich/_cell_widths.py alone: first row containing the code point, -1 -> 0,
    default 1, ASCII 32..126 -> 1 (the documented behaviour that C13 proves of rich.cells)."""
    global _TABLE
    if _TABLE is None:
        import bisect

        from rich._cell_widths import CELL_WIDTHS

        starts = [r[0] for r in CELL_WIDTHS]
        _TABLE = (bisect, starts, CELL_WIDTHS, {})
    bisect, starts, rows, cache = _TABLE
    total = 0
    for ch in text:
        cp = ord(ch)
        if 32 <= cp < 127:
            total += 1
            continue
        w = cache.get(cp)
        if w is None:
            i = bisect.bisect_right(starts, cp) - 1
            w = 1
            if i >= 0 and rows[i][0] <= cp <= rows[i][1]:
                w = 0 if rows[i][2] == -1 else rows[i][2]
            cache[cp] = w
        total += w
    return total


# ------------------------------------------------------------------ deep typed equality
def same(a, b):
    """equal value of the same type, at every level (floats by repr so that -0.0 != 0.0)."""
    if type(a) is not type(b):
        return False
    t = type(a)
    if t in (list, tuple, deque):
        return len(a) == len(b) and all(same(x, y) for x, y in zip(a, b))
    if t is array:
        return a.typecode == b.typecode and len(a) == len(b) and all(same(x, y) for x, y in zip(a, b))
    if t in MAP_KINDS:
        if t is defaultdict and not (a.default_factory is b.default_factory):
            return False
        ia, ib = list(a.items()), list(b.items())
        return len(ia) == len(ib) and all(same(k1, k2) and same(v1, v2) for (k1, v1), (k2, v2) in zip(ia, ib))
    if t in (set, frozenset):
        return len(a) == len(b) and all(any(same(x, y) for y in b) for x in a)
    if t is float:
        return repr(a) == repr(b)
    return a == b


def has_cycle(v):
    path = set()

    def go(o):
        if not is_container(o):
            return False
        if id(o) in path:
            return True
        path.add(id(o))
        kids = o.values() if type(o) in MAP_KINDS else o
        r = any(go(x) for x in kids)
        path.discard(id(o))
        return r

    return go(v)


def evaluable(v):
    """can eval() of a faithful rendering give the value back at all?  (runtime matter, not rich's)"""
    seen = set()

    def go(o):
        if is_container(o):
            if id(o) in seen:
                return True
            seen.add(id(o))
            if type(o) is defaultdict and not (o.default_factory is None or o.default_factory is FACTORY):
                return False
            if type(o) in MAP_KINDS:
                return all(go(k) and go(x) for k, x in o.items())
            return all(go(x) for x in o)
        return o is None or type(o) in (int, bool, str, bytes, float)

    return go(v)


def only_basic(v):
    if is_container(v):
        if type(v) not in BASIC:
            return False
        if type(v) is dict:
            return all(only_basic(k) and only_basic(x) for k, x in v.items())
        return all(only_basic(x) for x in v)
    return True


# ------------------------------------------------------------------ reference printer (from the statement)
class RNode:
    __slots__ = ("text", "open", "close", "empty", "kids", "one_tuple", "cont", "empty_array")

    def __init__(self):
        self.text = None
        self.kids = []  # (key_text or None, RNode)
        self.cont = False
        self.one_tuple = False
        self.empty_array = False


def _ref_braces(o):
    t = type(o)
    if t is list:
        return "[", "]", "[]"
    if t is tuple:
        return "(", ")", "()"
    if t is dict:
        return "{", "}", "{}"
    if t is set:
        return "{", "}", "set()"
    if t is frozenset:
        return "frozenset({", "})", "frozenset()"
    if t is deque:
        return "deque([", "])", "deque()"
    if t is Counter:
        return "Counter({", "})", "Counter()"
    if t is defaultdict:
        f = repr(o.default_factory)
        return "defaultdict(%s, {" % f, "})", "defaultdict(%s, {})" % f
    if t is array:
        return "array(%r, [" % o.typecode, "])", "array(%r)" % o.typecode
    if t is os._Environ:
        return "environ({", "})", "environ({})"
    raise TypeError(t)


def _ref_leaf(o, max_string):
    if max_string is not None and isinstance(o, (str, bytes)) and len(o) > max_string:
        return repr(o[:max_string]) + "+" + str(len(o) - max_string)
    try:
        return repr(o)
    except Exception as e:  # noqa: BLE001
        return "<repr-error '%s'>" % e


def ref_tree(v, max_length=None, max_string=None):
    path = set()

    def go(o):
        n = RNode()
        if not is_container(o):
            n.text = _ref_leaf(o, max_string)
            return n
        if id(o) in path:
            n.text = "..."
            return n
        path.add(id(o))
        n.cont = True
        n.open, n.close, n.empty = _ref_braces(o)
        n.empty_array = type(o) is array and len(o) == 0
        total = len(o)
        if type(o) in MAP_KINDS:
            items = [(_ref_leaf(k, max_string), x) for k, x in o.items()]
        else:
            items = [(None, x) for x in o]
        show = items if max_length is None else items[:max_length]
        for k, x in show:
            n.kids.append((k, go(x)))
        if max_length is not None and total > max_length:
            m = RNode()
            m.text = "... +%d" % (total - max_length)
            n.kids.append((None, m))
        n.one_tuple = type(o) is tuple and len(n.kids) == 1
        path.discard(id(o))
        return n

    return go(v)


def ref_inline(n):
    if n.text is not None:
        return n.text
    if not n.kids:
        return n.empty
    body = ", ".join((k + ": " if k is not None else "") + ref_inline(c) for k, c in n.kids)
    return n.open + body + ("," if n.one_tuple else "") + n.close


def ref_lines(n, cell_len, width, indent, expand_all, crit=None):
    """one item per line, consistent indentation, a non-empty container kept on one line iff it fits.
    Returns [(depth, content, optional_comma)]; `optional_comma` marks the closing line of an expanded
    one-element tuple that is a last item: Python accepts `),` there as well as `)` (the "legal trailing
    comma" of the statement).  `crit`, if given, collects the widths at which a decision flips."""
    out = []

    def go(n, key, depth, suffix, root):
        head = (key + ": ") if key is not None else ""
        one = head + ref_inline(n) + suffix
        if n.text is not None or not n.kids:
            out.append((depth, one, False))
            return
        need = depth * max(indent, 0) + cell_len(one)
        if crit is not None:
            crit.add(need)
        if not expand_all and need <= width:
            out.append((depth, one, False))
            return
        out.append((depth, head + n.open, False))
        last = len(n.kids) - 1
        for i, (k, c) in enumerate(n.kids):
            go(c, k, depth + 1, "," if (n.one_tuple or i < last) else "", False)
        out.append((depth, n.close + suffix, n.one_tuple and not root and suffix == ""))

    go(n, None, 0, "", True)
    return out


def ref_matches(real_text, lines, indent):
    """real output == reference, up to the optional comma.  Returns (ok, index of first differing line)."""
    if real_text == ref_text(lines, indent) or real_text == "\n".join(
        " " * (d * max(indent, 0)) + c + ("," if opt else "") for d, c, opt in lines
    ):
        return True, -1
    real = real_text.split("\n")
    if len(real) != len(lines):
        return False, min(len(real), len(lines))
    for i, (r, (d, c, opt)) in enumerate(zip(real, lines)):
        want = " " * (d * max(indent, 0)) + c
        if r != want and not (opt and r == want + ","):
            return False, i
    return True, -1


def ref_text(lines, indent):
    return "\n".join(" " * (d * max(indent, 0)) + c for d, c, _ in lines)


# ------------------------------------------------------------------ generators
LEAVES = [
    0,
    -7,
    12345678901234567890,
    True,
    None,
    1.5,
    -0.0,
    1e100,
    INF,
    "",
    "a",
    "hello world",
    "あい",
    "wide あいう mix",
    "it's",
    'say "hi"',
    "both ' and \"",
    "new\nline",
    "tab\there",
    "back\\slash",
    "é",
    "😽",
    "[1, 2]",
    "a, b",
    b"",
    b"ab",
    b"\x00\xff'q",
    "x" * 30,
]
SMALL_LEAVES = [1, "a", "あ", None]


_BOUNDARY = None


def boundary_chars():
    """[(char, class)] taken from rich/_cell_widths.py at run time: for every row of CELL_WIDTHS the first, last
    and an interior code point, and the neighbours just outside the row; class = w2 / w0 (wide / zero-width
    row), `1` suffix for single-code-point rows, out-lo / out-hi for the neighbours.  Surrogates excluded
    (they cannot travel through the line protocol)."""
    global _BOUNDARY
    if _BOUNDARY is None:
        from rich._cell_widths import CELL_WIDTHS

        inside = set()
        for s_, e_, _w in CELL_WIDTHS:
            if e_ - s_ < 4096:
                inside.update(range(s_, e_ + 1))
        out = []
        seen = set()

        def add(cp, cls):
            if 0 <= cp <= 0x10FFFF and not (0xD800 <= cp <= 0xDFFF) and (cp, cls) not in seen:
                seen.add((cp, cls))
                out.append((chr(cp), cls))

        for s_, e_, w in CELL_WIDTHS:
            kind = "w2" if w == 2 else "w0" if w in (0, -1) else "w1"
            if s_ == e_:
                add(s_, kind + ":single")
            else:
                add(s_, kind + ":first")
                add(e_, kind + ":last")
                if e_ - s_ >= 2:
                    add((s_ + e_) // 2, kind + ":interior")
                    add(e_ - 1, kind + ":last-1")
            add(s_ - 1, "out-lo" if (s_ - 1) not in inside else "adjacent-lo")
            add(e_ + 1, "out-hi" if (e_ + 1) not in inside else "adjacent-hi")
        _BOUNDARY = out
    return _BOUNDARY


def boundary_values():
    """one small value per boundary character c (repeated so that a wrong width of c moves the fit decision by
    several cells), rotating through the shapes: string items, dict key + value, one-element tuple, nested list."""
    for i, (c, cls) in enumerate(boundary_chars()):
        k = i % 5
        if k == 0:
            yield [c * 3, "a"], cls
        elif k == 1:
            yield {c * 2: c, "k": [c * 2]}, cls
        elif k == 2:
            yield (c * 4,), cls
        elif k == 3:
            yield [[c, c + c], c * 3], cls
        else:
            yield [c * 4, c * 4, c * 2], cls


def rand_boundary_string(rng):
    bc = boundary_chars()
    return "".join(rng.choice(bc)[0] if rng.random() < 0.7 else rng.choice("a あ'") for _ in range(rng.randint(1, 10)))


def rand_leaf(rng, hashable=True):
    r = rng.random()
    if r < 0.68:
        return rng.choice(LEAVES)
    if r < 0.75:
        return rand_boundary_string(rng)
    if r < 0.85:
        return rng.randint(-10**6, 10**6)
    if r < 0.93:
        return "".join(rng.choice("ab あ'\"\n\\é😽") for _ in range(rng.randint(0, 40)))
    return bytes(rng.randrange(256) for _ in range(rng.randint(0, 12)))


def rand_value(rng, depth, hashable=False, top=False):
    """type-directed random value; `hashable` restricts to what can be a set member / dict key."""
    if depth <= 0 or (not top and rng.random() < 0.3):
        return rand_leaf(rng)
    n = rng.choice([0, 1, 1, 2, 2, 3, 4, 6])
    if hashable:
        kind = rng.choice(["tuple", "tuple", "frozenset"])
    else:
        kind = rng.choice(
            ["list", "list", "tuple", "tuple", "dict", "dict", "set", "frozenset", "deque", "counter", "defaultdict", "array"]
        )
    sub = lambda h=hashable: rand_value(rng, depth - 1, h)  # noqa: E731
    if kind == "list":
        return [sub() for _ in range(n)]
    if kind == "tuple":
        return tuple(sub() for _ in range(n))
    if kind == "deque":
        return deque(sub() for _ in range(n))
    if kind == "set":
        return {sub(True) for _ in range(n)}
    if kind == "frozenset":
        return frozenset(sub(True) for _ in range(n))
    if kind == "dict":
        return {(sub(True) if rng.random() < 0.25 else rand_leaf(rng)): sub() for _ in range(n)}
    if kind == "counter":
        c = Counter()
        for _ in range(n):
            c[rand_leaf(rng)] = rng.choice([1, 2, 10, -3]) if rng.random() < 0.8 else sub()
        return c
    if kind == "defaultdict":
        f = rng.choice([None, None, FACTORY, FACTORY, int, list])
        d = defaultdict(f)
        for _ in range(n):
            d[rand_leaf(rng)] = sub()
        return d
    if kind == "array":
        tc = rng.choice("ibdu")
        if tc == "u":
            return array("u", "".join(rng.choice("abあé😽'") for _ in range(n)))
        if tc == "d":
            return array("d", [rng.choice([0.5, -1.25, 1e100, 3.0]) for _ in range(n)])
        if tc == "b":
            return array("b", [rng.randint(-128, 127) for _ in range(n)])
        return array("i", [rng.randint(-(2**31), 2**31 - 1) for _ in range(n)])
    raise AssertionError(kind)


def rand_cyclic(rng):
    """a structure with at least one cycle (through list / dict / deque / defaultdict) plus shared, acyclic parts."""
    base = rand_value(rng, 2, top=True)
    shared = [1, "s"]
    kind = rng.randrange(6)
    if kind == 0:
        a = [base, shared]
        a.append(a)
        a.append(shared)
        return a
    if kind == 1:
        d = {"k": base, "sh": shared}
        d["me"] = d
        return d
    if kind == 2:
        a, b = [1], deque([2])
        a.append(b)
        b.append(a)
        return (a, b, base)
    if kind == 3:
        d = defaultdict(None)
        inner = [d, base]
        d["x"] = inner
        d["y"] = (inner,)
        return d
    if kind == 4:
        a = []
        a.append((a,))
        return [a, a]
    a = [base]
    t = (a, shared, shared)
    a.append({"t": t})
    return t


def wrap_kinds(x, hashable_inner):
    """every container kind around the single item x (and around two copies)."""
    out = [[x], (x,), deque([x]), {"k": x}, defaultdict(None, {"k": x}), Counter({"k": x}), [x, x], (x, x), {"k": x, 2: x}]
    if hashable_inner:
        out += [{x}, frozenset([x]), {x: 1}]
    return out


def exhaustive_values():
    """bounded-exhaustive shapes: every kind with 0..3 children over SMALL_LEAVES, then every kind wrapped
    around each of those (depth 2), then one-element tuples around everything again (depth 3)."""
    level1 = []
    for n in range(0, 4):
        for items in itertools.product(SMALL_LEAVES[:3] if n == 3 else SMALL_LEAVES, repeat=n):
            items = list(items)
            level1.append((list(items), False))
            level1.append((tuple(items), True))
            level1.append((deque(items), False))
            level1.append((set(items), False))
            level1.append((frozenset(items), True))
            level1.append(({k: i for i, k in enumerate(items)}, False))
            level1.append((Counter({k: i for i, k in enumerate(items)}), False))
            level1.append((defaultdict(None, {k: i for i, k in enumerate(items)}), False))
            if all(type(i) is int for i in items):
                level1.append((array("i", items), False))
            if all(type(i) is str for i in items):
                level1.append((array("u", "".join(items)), False))
    for v, _ in level1:
        yield v
    for v, h in level1:
        for w in wrap_kinds(v, h):
            yield w
    for v, h in level1:
        if len(v) <= 2:
            yield ((v,),)
            yield [(v,)]
            yield {"k": (v,)}
            yield ([v, v],)
            yield ({"a": v},)


# ------------------------------------------------------------------ leaves at the edge of / outside the statement's domain
import collections as _c
import dataclasses as _dc


class EmptyRepr:
    def __repr__(self):
        return ""


class NewlineRepr:
    def __init__(self, text="a\nbb"):
        self.text = text

    def __repr__(self):
        return self.text


class BrokenRepr:
    def __repr__(self):
        raise ZeroDivisionError("division by zero")


class MyList(list):
    pass


class MyTuple(tuple):
    pass


class MyDict(dict):
    pass


class MyStr(str):
    pass


Point = _c.namedtuple("Point", "x y")


@_dc.dataclass
class DC:
    a: int = 1
    b: str = "two"


def has_line_break(v):
    """does some leaf / key repr contain a line boundary of str.splitlines()?"""
    seen = set()
    breaks = "\n\r\x0b\x0c\x1c\x1d\x1e\x85\u2028\u2029"

    def bad(o):
        try:
            r = repr(o)
        except Exception:  # noqa: BLE001
            return False
        return any(ch in breaks for ch in r)

    def go(o):
        if is_container(o):
            if id(o) in seen:
                return False
            seen.add(id(o))
            if type(o) in MAP_KINDS:
                return any(bad(k) or go(x) for k, x in o.items())
            return any(go(x) for x in o)
        return bad(o)

    return go(v)


def has_empty_key_repr(v):
    """a mapping key whose repr() is empty: rich tests `if self.key_repr:` and prints the value without key and colon."""
    seen = set()

    def go(o):
        if is_container(o):
            if id(o) in seen:
                return False
            seen.add(id(o))
            if type(o) in MAP_KINDS:
                for k, x in o.items():
                    try:
                        if repr(k) == "":
                            return True
                    except Exception:  # noqa: BLE001
                        pass
                    if go(x):
                        return True
                return False
            return any(go(x) for x in o)
        return False

    return go(v)


ARRAY_CODES = "bBuhHiIlLqQfd"


def edge_leaves():
    return [
        EmptyRepr(),
        NewlineRepr(),
        NewlineRepr("x\r\ny"),
        NewlineRepr("\u2028"),
        NewlineRepr("tail\n"),
        BrokenRepr(),
        MyList([1, 2]),
        MyList(),
        MyTuple((1,)),
        MyTuple(),
        MyDict(a=1),
        MyStr("sub"),
        MyStr("sub" * 10),
        Point(1, 2),
        Point([1, 2], (3,)),
        DC(),
        _c.OrderedDict(a=1, b=[2]),
        "lone \ud800 surrogate",
        "\udfff",
        10**40,
        -(10**25),
        -0.0,
        float("nan"),
        INF,
        -INF,
        1e-320,
        Ellipsis,
        range(3),
        frozenset,
        b"\n",
        "\u2028\u0085",
    ]


def edge_values():
    """each edge leaf alone, as an item, as a key / value, in a one-element tuple, nested; deques with maxlen;
    nested defaultdict factories; arrays of every typecode (empty and not)."""
    for x in edge_leaves():
        yield x
        yield [x, 1]
        yield (x,)
        yield {"k": x, "k2": [x]}
        yield [[x], (x, x)]
        try:
            hash(x)
        except TypeError:
            continue
        yield {x: 1, "z": 2}
        yield {x}
        yield Counter([x, x])
    for n in (0, 1, 2, 3):
        for mx in (None, 0, 1, 2, 5):
            yield deque(range(n), maxlen=mx)
            yield [deque(["a" * 5] * n, maxlen=mx)]
    yield defaultdict(FACTORY, {"a": defaultdict(FACTORY, {"b": defaultdict(None, {"c": [1, 2]})})})
    yield defaultdict(None, {"a": defaultdict(list, {"b": [1]}), "c": defaultdict(int)})
    yield defaultdict(lambda: defaultdict(int), {"a": defaultdict(int, {"x": 1})})
    yield defaultdict(defaultdict, {1: defaultdict(None)})
    for tc in ARRAY_CODES:
        yield array(tc)
        if tc == "u":
            yield array(tc, "añあ")
            yield [array(tc, "xy"), (array(tc),)]
        elif tc in "fd":
            yield array(tc, [1.5, -2.0, 0.0])
            yield (array(tc, [0.25] * 6),)
        else:
            hi = 100 if tc in "bB" else 30000
            lo = 0 if tc.isupper() else -hi
            yield array(tc, [lo, 1, hi])
            yield {"k": array(tc, [1] * 8)}
