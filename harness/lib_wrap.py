"""Helpers for property C02 (word wrapping): wire encoding for `drv_c02`, a console whose styles live in the
free monoid of style names (so the order in which rich combines styles is observable), and the independent
oracles of the direct evaluation (they look neither at the Lean model nor at rich's span bookkeeping).
"""
import re

from core import enc_str

STYLE_NAMES = ["", "s1", "s2", "s3", "s4", "s5"]
SID = {n: i for i, n in enumerate(STYLE_NAMES)}


class Tag:
    """A 'Style' that records the sequence of style names combined to make it (what `Style.__add__`,
    `Style.copy` and `Style.__eq__` are used for by Text.render / Text.get_style_at_offset)."""

    __slots__ = ("ids",)

    def __init__(self, ids):
        self.ids = tuple(ids)

    def __add__(self, other):
        return Tag(self.ids + other.ids)

    def copy(self):
        return Tag(self.ids)

    def __eq__(self, other):
        return isinstance(other, Tag) and self.ids == other.ids

    def __ne__(self, other):
        return not self.__eq__(other)

    def __hash__(self):
        return hash(self.ids)

    def __repr__(self):
        return "Tag%r" % (self.ids,)


class FakeConsole:
    def get_style(self, name, default=None):
        if isinstance(name, Tag):
            return name
        return Tag((name,))


FC = FakeConsole()


def norm_ids(ids):
    """Normal form of a sequence of style names in the algebra rich's Style.__add__ has for every field ("the last
    style that sets the field wins"): "" is the identity, x+x = x and x+y+x = y+x (free right-regular band)."""
    out = []
    for i in reversed(ids):
        if i == "" or i in out:
            continue
        out.append(i)
    return tuple(reversed(out))


# ------------------------------------------------------------------------------------------ wire encoding
J = {None: "N", "default": "d", "left": "l", "center": "c", "right": "r", "full": "f"}
O = {None: "N", "fold": "f", "crop": "c", "ellipsis": "e", "ignore": "i"}


def enc_opt(x):
    return "N" if x is None else str(x)


def enc_optbool(b):
    return "N" if b is None else ("1" if b else "0")


def style_ids(s):
    """names combined in a style value found in a Text (a name, or a Tag computed by get_style_at_offset)"""
    return s.ids if isinstance(s, Tag) else (s,)


def enc_style(s):
    return ".".join(str(SID[i]) for i in style_ids(s))


def enc_spans(spans):
    return "/".join(f"{a},{b},{enc_style(st)}" for a, b, st in spans)


def enc_text(t):
    return ";".join(
        [enc_str(t.plain), str(t._length), enc_style(t.style), enc_spans(t._spans), J[t.justify], O[t.overflow], enc_optbool(t.no_wrap), enc_str(t.end), enc_opt(t.tab_size)]
    )


def render_segments(t):
    try:
        return [(s.text, None if s.style is None else s.style.ids) for s in t.render(FC, end="")]
    except Exception as e:  # noqa: BLE001 - the error kind is part of the answer
        return type(e).__name__


def enc_render(t):
    r = render_segments(t)
    if isinstance(r, str):
        return "err:" + r
    return "/".join(enc_str(txt) + "~" + ("-" if ids is None else " ".join(str(SID[i]) for i in ids)) for txt, ids in r)


def enc_tr(t):
    return enc_text(t) + "@" + enc_render(t)


def ans_texts(ts):
    ts = list(ts)
    return "ok:%d#" % len(ts) + "|".join(enc_tr(t) for t in ts)


def enc_texts(ts):
    ts = list(ts)
    return "%d#" % len(ts) + "|".join(enc_text(t) for t in ts)


def enc_nats(l):
    return f"{len(l)}:" + " ".join(str(x) for x in l)


# ------------------------------------------------------------------------------------------ oracles
def stream(line):
    """[(char, normalised style names)] of a rendered line, or the exception class name"""
    r = render_segments(line)
    if isinstance(r, str):
        return r
    return [(c, norm_ids(ids or ())) for txt, ids in r for c in txt]


def raw_stream(line):
    r = render_segments(line)
    if isinstance(r, str):
        return r
    return [(c, tuple(ids or ())) for txt, ids in r for c in txt]


def input_stream(s, base, spans, raw=False):
    out = []
    for i, c in enumerate(s):
        ids = (base,) + tuple(st for a, b, st in spans if a <= i < b)
        out.append((c, ids if raw else norm_ids(ids)))
    return out


def nonspace(stream_):
    return [p for p in stream_ if not p[0].isspace()]


def embeds(out, ins):
    """is `out` (minus the ellipsis character) an in-order sub-sequence of `ins`?"""
    i = 0
    for p in out:
        if p[0] == "…":
            continue
        while i < len(ins) and ins[i] != p:
            i += 1
        if i == len(ins):
            return False
        i += 1
    return True


RE_RUN = re.compile(r"\S+")


def word_with_indent(par, pos):
    """the maximal run of non-whitespace of `par` that contains the boundary `pos` (par[pos-1], par[pos] both
    non-space) together with the whitespace before it when it is the first run of the paragraph"""
    for m in RE_RUN.finditer(par):
        if m.start() < pos < m.end():
            first = par[: m.start()].strip() == ""
            return par[: m.end()] if first else m.group(0)
    return None
