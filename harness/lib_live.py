"""Adapters that drive the real rich Live / Progress / Status objects for C10 (and C11 later).

Everything here calls the real implementation in-process and turns what it wrote into the canonical
form compared with the Lean model (`lean/RichModel/Model/Live.lean`).  Operations are small tuples:

    ("S",) start          ("X",) stop           ("B",) console.print() with no arguments
    ("BL",) console.log() with no arguments     ("R",) refresh
    ("P", lines, how)     user output of `lines` (each newline-terminated); how = "seg" (a renderable that
                          yields the lines), "str" (console.print of a str), "log" (console.log), "py" / "pye"
                          (one sys.stdout / sys.stderr .write of complete lines through the FileProxy), "py1" + "py2"
                          (a write ending inside a line, then the rest of that line)
    ("U", lines, refresh) Live.update(renderable that yields `lines`) / Status.update(status="\\n".join(lines))
    ("A", desc, visible)  Progress.add_task     ("V", id, n) Progress.advance
    ("H", id, visible, refresh) Progress.update(id, visible=…, refresh=…)      ("D", id) Progress.remove_task
"""
import io
import sys

from rich.console import Console
from rich.file_proxy import FileProxy
from rich.live import Live
from rich.progress import Progress, ProgressColumn
from rich.segment import Segment
from rich.status import Status
from rich.style import Style
from rich.text import Text

import term
from core import enc_bool, enc_str, enc_str_list

KINDS = {"live": 0, "progress": 1, "status": 2}
OVERFLOWS = {"crop": 0, "ellipsis": 1, "visible": 2}


PENDING = "tail"


class Boom(Exception):
    """The exception injected into renderables / progress columns."""


class BodyError(Exception):
    """The exception raised by the body of a `with` block."""


class Faults:
    """Call counter shared by every fault-injectable callable of one session."""

    def __init__(self, exact=(), from_=None):
        self.calls = 0
        self.exact = set(exact)
        self.from_ = from_

    def hit(self):
        i = self.calls
        self.calls += 1
        if i in self.exact or (self.from_ is not None and i >= self.from_):
            raise Boom(i)

    def enc(self):
        parts = [str(i) for i in sorted(self.exact)]
        if self.from_ is not None:
            parts.append(f"{self.from_}+")
        return ",".join(parts) if parts else "-"


class FrameR:
    """Renderable yielding exactly the given lines (separated, not terminated, by new lines)."""

    def __init__(self, lines, faults=None, style=None):
        self.lines = list(lines)
        self.faults = faults
        self.style = style

    def __rich_console__(self, console, options):
        if self.faults is not None:
            self.faults.hit()
        for i, line in enumerate(self.lines):
            if i:
                yield Segment.line()
            yield Segment(line, self.style)


class LinesR:
    """User output: every line followed by a new line."""

    def __init__(self, lines, style=None):
        self.lines = list(lines)
        self.style = style

    def __rich_console__(self, console, options):
        for line in self.lines:
            yield Segment(line, self.style)
            yield Segment.line()


class CountCol(ProgressColumn):
    """The single progress column `"{description} {completed}"`, fault-injectable."""

    def __init__(self, faults):
        super().__init__()
        self.faults = faults

    def render(self, task):
        self.faults.hit()
        return Text(f"{task.description} {task.completed}")


def make_console(width, height, color):
    return Console(
        file=io.StringIO(),
        force_terminal=True,
        width=width,
        height=height,
        color_system=color,
        log_time=False,
        log_path=False,
        get_time=lambda: 0.0,
        _environ={},
    )


def plain_lines(width, height, color, how, lines):
    """The lines a console *without* a live display writes for this user output (the model's input)."""
    c = make_console(width, height, color)
    _emit_user(c, how, lines, None)
    toks = term.plain_ops(term.tokenize(c.file.getvalue()))
    out, cur = [], ""
    for t in toks:
        if t[0] == "T":
            cur += t[1]
        elif t[0] == "LF":
            out.append(cur)
            cur = ""
        else:
            raise AssertionError(f"unexpected token {t!r} in plain user output")
    if cur:
        raise AssertionError("user output does not end with a new line")
    return out


def _emit_user(console, how, lines, style):
    if how == "seg":
        console.print(LinesR(lines, style))
    elif how == "str":
        console.print("\n".join(lines))
    elif how == "log":
        console.log("\n".join(lines))
    elif how == "py":
        # one write() of complete lines through the FileProxy installed as sys.stdout -> one console.print
        sys.stdout.write("\n".join(lines) + "\n")
    elif how == "pye":
        sys.stderr.write("\n".join(lines) + "\n")
    elif how == "py1":
        # a write that ends in the middle of a line: the complete lines are printed, PENDING is buffered
        sys.stdout.write("\n".join(lines) + "\n" + PENDING)
    elif how == "py2":
        # ... and the end of that line (lines == [PENDING])
        sys.stdout.write("\n")
    else:
        raise ValueError(how)


def enc_tokens(tokens):
    """Same format as `encOps` in lean/RichModel/Drv/C10.lean."""
    out = []
    for t in term.plain_ops(tokens):
        k = t[0]
        if k == "T":
            out.append("T" + enc_str(t[1]))
        elif k == "LF":
            out.append("L")
        elif k == "CR":
            out.append("C")
        elif k == "CUU":
            out.append(f"U{t[1]}")
        elif k == "EL2":
            out.append("E")
        elif k == "SHOW":
            out.append("S")
        elif k == "HIDE":
            out.append("H")
        else:
            out.append("?" + repr(t))
    return ",".join(out)


class Cfg:
    def __init__(self, kind, transient, width, height, overflow="ellipsis", redirect_stdout=True, redirect_stderr=True, color=None, init=()):
        self.kind = kind
        self.transient = True if kind == "status" else transient
        self.width = width
        self.height = height
        self.overflow = "visible" if kind == "progress" else ("ellipsis" if kind == "status" else overflow)
        self.redirect_stdout = True if kind == "status" else redirect_stdout
        self.redirect_stderr = True if kind == "status" else redirect_stderr
        self.color = color
        self.init = list(init)  # initial renderable lines (Live) / initial status lines (Status)

    def enc(self, bare_bypass, start_guard, reset_shape):
        return ",".join(
            str(x)
            for x in [
                KINDS[self.kind],
                int(self.transient),
                self.width,
                self.height,
                int(self.redirect_stdout),
                int(self.redirect_stderr),
                int(bare_bypass),
                int(start_guard),
                OVERFLOWS[self.overflow],
                int(reset_shape),
            ]
        )

    def enc_init(self):
        return enc_str_list(self.init)

    def __repr__(self):
        return f"Cfg({self.kind}, transient={self.transient}, {self.width}x{self.height}, overflow={self.overflow}, redirect=({self.redirect_stdout},{self.redirect_stderr}), color={self.color}, init={self.init})"


def enc_op(op, cfg, width_lines=None):
    """Request encoding of one operation (`decOp1` in Drv/C10.lean).  `width_lines` = the plain lines of a P op."""
    k = op[0]
    if k in ("S", "X", "R"):
        return k
    if k in ("B", "BL"):
        return "B"
    if k == "P":
        return "P" + enc_str_list(width_lines)
    if k == "U":
        return f"U{int(op[2])};" + enc_str_list(op[1])
    if k == "A":
        return f"A{int(op[2])};" + enc_str(op[1])
    if k == "V":
        return f"V{op[1]};{op[2]}"
    if k == "H":
        return f"H{op[1]};{int(op[2])};{int(op[3])}"
    if k == "D":
        return f"D{op[1]}"
    raise ValueError(op)


class Session:
    """One real display object on a StringIO terminal, with sys.stdout / sys.stderr under observation."""

    def __init__(self, cfg, faults=None, styled=False):
        self.cfg = cfg
        self.faults = faults or Faults()
        self.console = make_console(cfg.width, cfg.height, cfg.color)
        self.style = Style(color="red", bold=True) if styled else None
        self.fake_out = io.StringIO()
        self.fake_err = io.StringIO()
        self.saved = (sys.stdout, sys.stderr)
        sys.stdout, sys.stderr = self.fake_out, self.fake_err
        try:
            if cfg.kind == "live":
                self.obj = Live(
                    FrameR(cfg.init, self.faults, self.style),
                    console=self.console,
                    auto_refresh=False,
                    transient=cfg.transient,
                    redirect_stdout=cfg.redirect_stdout,
                    redirect_stderr=cfg.redirect_stderr,
                    vertical_overflow=cfg.overflow,
                )
            elif cfg.kind == "progress":
                self.obj = Progress(
                    CountCol(self.faults),
                    console=self.console,
                    auto_refresh=False,
                    transient=cfg.transient,
                    redirect_stdout=cfg.redirect_stdout,
                    redirect_stderr=cfg.redirect_stderr,
                    get_time=lambda: 0.0,
                )
            else:
                self.obj = Status("\n".join(cfg.init), console=self.console)
                self.obj._live.auto_refresh = False
        except BaseException:
            self.close()
            raise
        self.pos = 0

    # -- observation
    def take(self):
        v = self.console.file.getvalue()
        s, self.pos = v[self.pos :], len(v)
        return s

    def live_obj(self):
        return self.obj._live if self.cfg.kind == "status" else self.obj

    def ctl(self):
        """Control state in the format of `encCtl` (Drv/C10.lean)."""
        lv = self.live_obj()

        def depth(f, base):
            d = 0
            while f is not base:
                f = getattr(f, "rich_proxied_file", None)
                d += 1
                if f is None:
                    return -1
            return d

        shape = lv._live_render._shape
        return ",".join(
            [
                enc_bool(lv._started),
                str(len(self.console._render_hooks)),
                str(depth(sys.stdout, self.fake_out)),
                str(depth(sys.stderr, self.fake_err)),
                enc_bool(lv._restore_stdout is not None),
                enc_bool(lv._restore_stderr is not None),
                "-" if shape is None else f"{shape[0]}x{shape[1]}",
                str(int(self.obj._task_index)) if self.cfg.kind == "progress" else "0",
                str(OVERFLOWS["visible" if self.cfg.kind == "progress" else lv.vertical_overflow]),
            ]
        )

    def restored(self):
        return sys.stdout is self.fake_out and sys.stderr is self.fake_err and len(self.console._render_hooks) == 0

    # -- operations
    def apply(self, op):
        k = op[0]
        o = self.obj
        if k == "S":
            o.start()
        elif k == "X":
            o.stop()
        elif k == "B":
            self.console.print()
        elif k == "BL":
            self.console.log()
        elif k == "R":
            self.live_obj().refresh() if self.cfg.kind == "status" else o.refresh()
        elif k == "P":
            how = op[2]
            if how in ("py", "py1", "py2", "pye"):
                # a write to sys.stdout / sys.stderr reaches the console only while that stream really is
                # redirected (a start() that failed and cleaned up, or a stop(), leaves the plain stream);
                # otherwise the same lines are printed on the console directly, which is what the model is told
                stream = sys.stderr if how == "pye" else sys.stdout
                if not isinstance(stream, FileProxy):
                    how = "seg"
            _emit_user(self.console, how, op[1], self.style)
        elif k == "U":
            if self.cfg.kind == "live":
                o.update(FrameR(op[1], self.faults, self.style), refresh=op[2])
            else:
                o.update(status="\n".join(op[1]))
        elif k == "A":
            o.add_task(op[1], visible=op[2])
        elif k == "V":
            o.advance(op[1], op[2])
        elif k == "H":
            o.update(op[1], visible=op[2], refresh=op[3])
        elif k == "D":
            o.remove_task(op[1])
        else:
            raise ValueError(op)

    def apply_catch(self, op):
        """-> (error code, characters written)"""
        try:
            self.apply(op)
            err = "ok"
        except Boom:
            err = "err:Fault"
        except KeyError:
            err = "err:KeyError"
        return err, self.take()

    def close(self):
        sys.stdout, sys.stderr = self.saved


def run_with(cfg, ops, faults, raise_at):
    """`with display: body` on the real objects.  -> (characters written, raised?, ctl, restored?, exception type)"""
    s = Session(cfg, faults)
    try:
        exc = None
        try:
            with s.obj:
                for i, op in enumerate(ops):
                    if raise_at is not None and i == raise_at:
                        raise BodyError(i)
                    s.apply(op)
                if raise_at is not None and raise_at >= len(ops) and raise_at == len(ops):
                    raise BodyError(raise_at)
        except (Boom, BodyError, KeyError) as e:
            exc = e
        return s.take(), exc is not None, s.ctl(), s.restored(), type(exc).__name__ if exc else None
    finally:
        s.close()
