"""Adapters that drive the real rich Live / Progress / Status objects for C10 (and C11 later).

Everything here calls the real implementation in-process and turns what it wrote into the canonical
form compared with the Lean model (`lean/RichModel/Model/Live.lean`).  Operations are small tuples:

    ("S",) start          ("X",) stop           ("B",) console.print() with no arguments
    ("BL",) console.log() with no arguments     ("R",) refresh
    ("P", lines, how)     user output of `lines` (each newline-terminated); how = "seg" (a renderable that
                          yields the lines), "str" (console.print of a str), "log" (console.log), "py" / "pye"
                          (one sys.stdout / sys.stderr .write of complete lines through the FileProxy), "py1" + "py2"
                          (a write ending inside a line, then the rest of that line)
    ("U", lines, refresh) Live.update(renderable that yields `lines`) / Status.update(status="\\n".join(lines))
    ("W", err, lines, tail)  sys.stdout (err=False) / sys.stderr (err=True) .write: complete `lines`, then `tail` without new line
    ("E", id, kwargs, refresh) Progress.update(id, **kwargs, refresh=…)   ("ER", id, kwargs) Progress.reset(id, **kwargs)
    ("T0", id, n) / ("T1", id)  Progress.track(range(n), task_id=id): up to the first item / on to the next item
    ("Z", width)          the console width changes
    ("A", desc, visible[, total])  Progress.add_task     ("V", id, n) Progress.advance
    ("H", id, visible, refresh) Progress.update(id, visible=…, refresh=…)      ("D", id) Progress.remove_task
"""
import io
import sys

from rich.console import Console
from rich.file_proxy import FileProxy
from rich.live import Live
from rich.progress import Progress, ProgressColumn
from rich.segment import Segment
from rich.status import Status
from rich.style import Style
from rich.text import Text

import term
from core import enc_bool, enc_str, enc_str_list

KINDS = {"live": 0, "progress": 1, "status": 2}
OVERFLOWS = {"crop": 0, "ellipsis": 1, "visible": 2}


PENDING = "tail"


class Boom(Exception):
    """The exception injected into renderables / progress columns."""


class BodyError(Exception):
    """The exception raised by the body of a `with` block."""


# the same, as subclasses of the three BaseException-only classes (they get past `except Exception:`)
class BoomKI(KeyboardInterrupt):
    pass


class BoomSE(SystemExit):
    pass


class BoomGE(GeneratorExit):
    pass


class BodyKI(KeyboardInterrupt):
    pass


BOOMS = (Boom, BoomKI, BoomSE, BoomGE)
BODY_ERRORS = (BodyError, BodyKI)


class Faults:
    """Call counter shared by every fault-injectable callable of one session."""

    def __init__(self, exact=(), from_=None, exc=Boom):
        self.calls = 0
        self.exact = set(exact)
        self.from_ = from_
        self.exc = exc          # the class raised: Boom (an Exception) or BoomKI / BoomSE / BoomGE (BaseException only)

    @property
    def base(self):
        return not issubclass(self.exc, Exception)

    def hit(self):
        i = self.calls
        self.calls += 1
        if i in self.exact or (self.from_ is not None and i >= self.from_):
            raise self.exc(i)

    def enc(self):
        parts = [str(i) for i in sorted(self.exact)]
        if self.from_ is not None:
            parts.append(f"{self.from_}+")
        return ",".join(parts) if parts else "-"


class FrameR:
    """Renderable yielding exactly the given lines (separated, not terminated, by new lines)."""

    def __init__(self, lines, faults=None, style=None):
        self.lines = list(lines)
        self.faults = faults
        self.style = style

    def __rich_console__(self, console, options):
        if self.faults is not None:
            self.faults.hit()
        for i, line in enumerate(self.lines):
            if i:
                yield Segment.line()
            yield Segment(line, self.style)


class LinesR:
    """User output: every line followed by a new line."""

    def __init__(self, lines, style=None):
        self.lines = list(lines)
        self.style = style

    def __rich_console__(self, console, options):
        for line in self.lines:
            yield Segment(line, self.style)
            yield Segment.line()


class CountCol(ProgressColumn):
    """The single progress column `"{description} {completed}/{total}"`, fault-injectable."""

    def __init__(self, faults):
        super().__init__()
        self.faults = faults

    def render(self, task):
        self.faults.hit()
        return Text(f"{task.description} {task.completed}/{task.total}")


class Clock:
    """`Console.get_time`: a clock that advances by 50 ms every time it is read (the spinner of a Status moves)."""

    def __init__(self, step=0.05):
        self.t = 0.0
        self.step = step

    def __call__(self):
        self.t += self.step
        return self.t


def make_console(width, height, color, terminal=True, dumb=False, clock=None):
    return Console(
        file=io.StringIO(),
        force_terminal=terminal,
        width=width,
        height=height,
        color_system=color if terminal else None,
        log_time=False,
        log_path=False,
        get_time=clock or (lambda: 0.0),
        _environ={"TERM": "dumb"} if dumb else {},
    )


def plain_lines(width, height, color, how, lines, terminal=True, dumb=False):
    """The lines a console *without* a live display writes for this user output (the model's input)."""
    c = make_console(width, height, color, terminal, dumb)
    _emit_user(c, how, lines, None)
    toks = term.plain_ops(term.tokenize(c.file.getvalue()))
    out, cur = [], ""
    for t in toks:
        if t[0] == "T":
            cur += t[1]
        elif t[0] == "LF":
            out.append(cur)
            cur = ""
        else:
            raise AssertionError(f"unexpected token {t!r} in plain user output")
    if cur:
        raise AssertionError("user output does not end with a new line")
    return out


def _kw_print(**kw):
    return lambda c, text: c.print(text, **kw)


# Print / log OPTION variety (round-g gap: `Console.print(..., style=...)` is the only path that sends the hook's
# position_cursor() control segment through Segment.apply_style).  Every entry is one way user code writes `text`
# to the console; the model is told the lines a console WITHOUT a live display writes for the very same call
# (`plain_lines`), the screen oracle judges what the call leaves on the screen under the display.
# (`end=""` is the stated non-claim of Props/C10.lean; `width=` re-renders the frame at that width: not generated.)
PRINT_HOWS = {
    "o:style": _kw_print(style="red"),
    "o:style-obj": lambda c, t: c.print(t, style=Style(bold=True, bgcolor="blue")),
    "o:style-seg": lambda c, t: c.print(LinesR(t.split("\n")), style="italic"),
    "o:style-two": lambda c, t: c.print(t, LinesR(["r"]), style="green"),
    "o:just-right": _kw_print(justify="right"),
    "o:just-center": _kw_print(justify="center"),
    "o:just-full": _kw_print(justify="full"),
    "o:just-style": _kw_print(justify="center", style="on blue"),
    "o:end2": _kw_print(end="\n\n"),
    "o:endx": _kw_print(end=" <\n"),
    "o:end-style": _kw_print(end="!\n", style="bold"),
    "o:soft": _kw_print(soft_wrap=True),
    "o:soft-style": _kw_print(soft_wrap=True, style="red"),
    "o:nocrop": _kw_print(crop=False),
    "o:nocrop-style": _kw_print(crop=False, style="underline"),
    "o:nowrap": _kw_print(no_wrap=True),
    "o:nowrap-style": _kw_print(no_wrap=True, style="red"),
    "o:ellipsis": _kw_print(no_wrap=True, overflow="ellipsis"),
    "o:fold": _kw_print(overflow="fold"),
    "o:nomarkup": _kw_print(markup=False),
    "o:nohl": _kw_print(highlight=False),
    "o:hl": _kw_print(highlight=True),
    "o:noemoji": _kw_print(emoji=False),
    "o:sep": lambda c, t: c.print(t, 42, sep=" -- "),
    "o:two": lambda c, t: c.print(t, t),
    "o:text": lambda c, t: c.print(Text(t, style="bold"), style="red"),
    "o:log-style": lambda c, t: c.log(t, style="red"),
    "o:log-just": lambda c, t: c.log(t, justify="right"),
    "o:log-two": lambda c, t: c.log(t, 7, sep="|"),
    "o:log-nomarkup": lambda c, t: c.log(t, markup=False, highlight=False),
    "o:out": lambda c, t: c.out(t),
    "o:out-style": lambda c, t: c.out(t, style="bold"),
    "o:out-two": lambda c, t: c.out(t, 3, sep="+", highlight=False),
    "o:rule": lambda c, t: c.rule(t.split("\n")[0]),
    "o:rule0": lambda c, t: c.rule(),
    "o:rule-left": lambda c, t: c.rule(t.split("\n")[0], align="left", characters="="),
    "o:rule-style": lambda c, t: c.rule(t.split("\n")[0], style="red"),
}


def _emit_user(console, how, lines, style):
    if how in PRINT_HOWS:
        PRINT_HOWS[how](console, "\n".join(lines))
    elif how == "seg":
        console.print(LinesR(lines, style))
    elif how == "str":
        console.print("\n".join(lines))
    elif how == "log":
        console.log("\n".join(lines))
    elif how == "py":
        # one write() of complete lines through the FileProxy installed as sys.stdout -> one console.print
        sys.stdout.write("\n".join(lines) + "\n")
    elif how == "pye":
        sys.stderr.write("\n".join(lines) + "\n")
    elif how == "py1":
        # a write that ends in the middle of a line: the complete lines are printed, PENDING is buffered
        sys.stdout.write("\n".join(lines) + "\n" + PENDING)
    elif how == "py2":
        # ... and the end of that line (lines == [PENDING])
        sys.stdout.write("\n")
    else:
        raise ValueError(how)


def enc_tokens(tokens):
    """Same format as `encOps` in lean/RichModel/Drv/C10.lean."""
    out = []
    for t in term.plain_ops(tokens):
        k = t[0]
        if k == "T":
            out.append("T" + enc_str(t[1]))
        elif k == "LF":
            out.append("L")
        elif k == "CR":
            out.append("C")
        elif k == "CUU":
            out.append(f"U{t[1]}")
        elif k == "EL2":
            out.append("E")
        elif k == "SHOW":
            out.append("S")
        elif k == "HIDE":
            out.append("H")
        else:
            out.append("?" + repr(t))
    return ",".join(out)


def enc_tokens_styled(tokens):
    """The whole stream, rendition (`G`) and hyperlink (`O`) sequences included, text runs as tokenised (NOT merged)."""
    out = []
    for t in tokens:
        if t[0] == "SGR":
            out.append("G")
        elif t[0] == "OSC8":
            out.append("O")
        else:
            out.append(enc_tokens([t]) if not (t[0] == "T" and t[1] == "") else "T")
    return ",".join(out)


class Cfg:
    def __init__(self, kind, transient, width, height, overflow="ellipsis", redirect_stdout=True, redirect_stderr=True, color=None, init=(),
                 terminal=True, dumb=False, disable=False):
        self.kind = kind
        self.transient = True if kind == "status" else transient
        self.width = width
        self.height = height
        self.overflow = "visible" if kind == "progress" else ("ellipsis" if kind == "status" else overflow)
        self.redirect_stdout = True if kind == "status" else redirect_stdout
        self.redirect_stderr = True if kind == "status" else redirect_stderr
        self.color = color
        self.init = list(init)  # initial renderable lines (Live) / initial status lines (Status)
        self.terminal = terminal or dumb      # console.is_terminal
        self.dumb = dumb                      # TERM=dumb
        self.disable = disable and kind == "progress"

    def enc(self, bare_bypass, start_guard, reset_shape, blank_fix, flush_fix, spins="", fault_base=False, guard_base=0, disable_fix=0):
        return ",".join(
            str(x)
            for x in [
                KINDS[self.kind],
                int(self.transient),
                self.width,
                self.height,
                int(self.redirect_stdout),
                int(self.redirect_stderr),
                int(bare_bypass),
                int(start_guard),
                OVERFLOWS[self.overflow],
                int(reset_shape),
                int(blank_fix),
                int(flush_fix),
                int(self.terminal),
                int(self.dumb),
                int(self.disable),
                int(fault_base),
                int(guard_base),
                int(disable_fix),
                enc_str(spins),
            ]
        )

    def enc_init(self):
        return enc_str_list(self.init)

    def __repr__(self):
        extra = ("" if self.terminal else ", file") + (", dumb" if self.dumb else "") + (", disable" if self.disable else "")
        return f"Cfg({self.kind}, transient={self.transient}, {self.width}x{self.height}, overflow={self.overflow}, redirect=({self.redirect_stdout},{self.redirect_stderr}), color={self.color}, init={self.init}{extra})"


def enc_op(op, cfg, width_lines=None):
    """Request encoding of one operation (`decOp1` in Drv/C10.lean).  `width_lines` = the plain lines of a P op."""
    k = op[0]
    if k in ("S", "X", "R"):
        return k
    if k in ("B", "BL"):
        return "B"
    if k == "P":
        return "P" + enc_str_list(width_lines)
    if k == "U":
        return f"U{int(op[2])};" + enc_str_list(op[1])
    if k == "A":
        return f"A{int(op[2])};" + enc_str(op[1]) + f";{op[3] if len(op) > 3 else 100}"
    if k in ("E", "ER"):
        # ("E", id, {total, advance, completed, description, visible}, refresh) = Progress.update ; ("ER", id, {...}) = Progress.reset
        kw = op[2]
        o = lambda x: "-" if x is None else str(x)
        comp = kw.get("completed", 0 if k == "ER" else None)
        d = kw.get("description")
        v = kw.get("visible")
        return "E%d;%s;%s;%s;%s;%s;%d" % (op[1], o(kw.get("total")), o(kw.get("advance")), o(comp), "-" if d is None else "=" + enc_str(d),
                                          "-" if v is None else str(int(v)), 1 if k == "ER" else int(op[3]))
    if k == "T0":
        return "E%d;%d;-;-;-;-;0" % (op[1], op[2])   # track(range(n), task_id=id) up to its first item: update(id, total=n)
    if k == "T1":
        return "E%d;-;1;-;-;-;1" % op[1]      # one step of track(): advance(task, 1); refresh()
    if k == "Z":
        return f"Z{op[1]}"
    if k == "V":
        return f"V{op[1]};{op[2]}"
    if k == "H":
        return f"H{op[1]};{int(op[2])};{int(op[3])}"
    if k == "D":
        return f"D{op[1]}"
    if k == "W":
        return f"W{int(op[1])};" + enc_str_list(op[2]) + ";" + enc_str(op[3])
    raise ValueError(op)


class Session:
    """One real display object on a StringIO terminal, with sys.stdout / sys.stderr under observation."""

    def __init__(self, cfg, faults=None, styled=False):
        self.cfg = cfg
        self.faults = faults or Faults()
        self.clock = Clock() if cfg.kind == "status" else None
        self.console = make_console(cfg.width, cfg.height, cfg.color, cfg.terminal, cfg.dumb, self.clock)
        self.spins = []       # what the Status spinner showed at the 0th, 1st, … render of the display
        self.tracks = {}      # task id -> generator returned by Progress.track
        self._orig_spinner = None
        if cfg.kind == "status":
            from rich.spinner import Spinner

            orig = Spinner.__rich_console__
            spins = self.spins

            def recording(sp, console, options):
                for x in orig(sp, console, options):
                    spins.append(x.plain[:1])
                    yield x

            self._orig_spinner = (Spinner, orig)
            Spinner.__rich_console__ = recording
        self.style = Style(color="red", bold=True) if styled else None
        self.fake_out = io.StringIO()
        self.fake_err = io.StringIO()
        self.saved = (sys.stdout, sys.stderr)
        sys.stdout, sys.stderr = self.fake_out, self.fake_err
        try:
            if cfg.kind == "live":
                self.obj = Live(
                    FrameR(cfg.init, self.faults, self.style),
                    console=self.console,
                    auto_refresh=False,
                    transient=cfg.transient,
                    redirect_stdout=cfg.redirect_stdout,
                    redirect_stderr=cfg.redirect_stderr,
                    vertical_overflow=cfg.overflow,
                )
            elif cfg.kind == "progress":
                self.obj = Progress(
                    CountCol(self.faults),
                    console=self.console,
                    auto_refresh=False,
                    transient=cfg.transient,
                    redirect_stdout=cfg.redirect_stdout,
                    redirect_stderr=cfg.redirect_stderr,
                    get_time=lambda: 0.0,
                    disable=cfg.disable,
                )
            else:
                self.obj = Status("\n".join(cfg.init), console=self.console)
                self.obj._live.auto_refresh = False
        except BaseException:
            self.close()
            raise
        self.pos = 0

    # -- observation
    def take(self):
        v = self.console.file.getvalue()
        s, self.pos = v[self.pos :], len(v)
        return s

    def live_obj(self):
        return self.obj._live if self.cfg.kind == "status" else self.obj

    def ctl(self):
        """Control state in the format of `encCtl` (Drv/C10.lean)."""
        lv = self.live_obj()

        def depth(f, base):
            d = 0
            while f is not base:
                f = getattr(f, "rich_proxied_file", None)
                d += 1
                if f is None:
                    return -1
            return d

        def pending(f):
            return "".join(getattr(f, "_FileProxy__buffer", [])) if isinstance(f, FileProxy) else ""

        shape = lv._live_render._shape
        return ",".join(
            [
                enc_bool(lv._started),
                str(len(self.console._render_hooks)),
                str(depth(sys.stdout, self.fake_out)),
                str(depth(sys.stderr, self.fake_err)),
                enc_bool(lv._restore_stdout is not None),
                enc_bool(lv._restore_stderr is not None),
                "-" if shape is None else f"{shape[0]}x{shape[1]}",
                str(int(self.obj._task_index)) if self.cfg.kind == "progress" else "0",
                str(OVERFLOWS["visible" if self.cfg.kind == "progress" else lv.vertical_overflow]),
                "o" + enc_str(pending(sys.stdout)),
                "e" + enc_str(pending(sys.stderr)),
            ]
        )

    def restored(self):
        return sys.stdout is self.fake_out and sys.stderr is self.fake_err and len(self.console._render_hooks) == 0

    # -- operations
    def apply(self, op):
        k = op[0]
        o = self.obj
        if k == "S":
            o.start()
        elif k == "X":
            o.stop()
        elif k == "B":
            self.console.print()
        elif k == "BL":
            self.console.log()
        elif k == "R":
            self.live_obj().refresh() if self.cfg.kind == "status" else o.refresh()
        elif k == "P":
            how = op[2]
            if how in ("py", "py1", "py2", "pye"):
                # a write to sys.stdout / sys.stderr reaches the console only while that stream really is
                # redirected (a start() that failed and cleaned up, or a stop(), leaves the plain stream);
                # otherwise the same lines are printed on the console directly, which is what the model is told
                stream = sys.stderr if how == "pye" else sys.stdout
                if not isinstance(stream, FileProxy):
                    how = "seg"
            _emit_user(self.console, how, op[1], self.style)
        elif k == "U":
            if self.cfg.kind == "live":
                o.update(FrameR(op[1], self.faults, self.style), refresh=op[2])
            else:
                o.update(status="\n".join(op[1]))
        elif k == "A":
            o.add_task(op[1], visible=op[2], total=op[3] if len(op) > 3 else 100)
        elif k == "E":
            o.update(op[1], refresh=op[3], **op[2])
        elif k == "ER":
            o.reset(op[1], **op[2])
        elif k == "T0":
            # Progress.track(range(n), task_id=id): the first next() sets the total (update), yields item 0
            g = o.track(range(op[2]), task_id=op[1])
            self.tracks[op[1]] = g
            next(g)
        elif k == "T1":
            # the next item: advance(task, 1); refresh()
            g = self.tracks.get(op[1])
            if g is None or g.gi_frame is None:
                # the iterator is gone (exhausted, or killed by an exception): the same two calls, directly
                o.advance(op[1], 1)
                o.refresh()
            else:
                try:
                    next(g)
                except StopIteration:
                    pass
        elif k == "Z":
            self.console._width = op[1]
        elif k == "V":
            o.advance(op[1], op[2])
        elif k == "H":
            o.update(op[1], visible=op[2], refresh=op[3])
        elif k == "D":
            o.remove_task(op[1])
        elif k == "W":
            # sys.stdout / sys.stderr .write of `lines` (each completed by a new line) followed by `tail` (left pending)
            stream = sys.stderr if op[1] else sys.stdout
            stream.write("".join(l + "\n" for l in op[2]) + op[3])
        else:
            raise ValueError(op)

    def apply_catch(self, op):
        """-> (error code, characters written)"""
        try:
            self.apply(op)
            err = "ok"
        except BOOMS:
            err = "err:Fault"
        except KeyError:
            err = "err:KeyError"
        except Exception as e:  # nobody injected this one: reported by the caller, never swallowed
            err = "err:Other:" + type(e).__name__
        return err, self.take()

    def close(self):
        sys.stdout, sys.stderr = self.saved
        if self._orig_spinner is not None:
            cls, orig = self._orig_spinner
            cls.__rich_console__ = orig
            self._orig_spinner = None


def run_with(cfg, ops, faults, raise_at, body_exc=BodyError, probe=None):
    """`with display: body` on the real objects.
    -> (characters written, raised?, ctl, restored?, type of the exception that left the block, spinner frames,
        what a print right after the block wrote)
    Whatever leaves the block is recorded, also exceptions nobody injected (they are judged by the caller).
    `probe`: a list that receives the number of injectable calls made before each operation."""
    s = Session(cfg, faults)
    try:
        exc = None
        try:
            with s.obj:
                for i, op in enumerate(ops):
                    if probe is not None:
                        probe.append(s.faults.calls)
                    if raise_at is not None and i == raise_at:
                        raise body_exc(i)
                    s.apply(op)
                if probe is not None:
                    probe.append(s.faults.calls)
                if raise_at is not None and raise_at >= len(ops) and raise_at == len(ops):
                    raise body_exc(raise_at)
        except (Exception,) + BOOMS + BODY_ERRORS as e:
            exc = e
        chars, ctl, restored = s.take(), s.ctl(), s.restored()
        # "later prints are plain": the same print a console without any display would make
        after = None
        try:
            s.console.print(LinesR(["after"]))
            after = s.take()
        except (Exception,) + BOOMS as e:
            after = "raised " + type(e).__name__
        return chars, exc is not None, ctl, restored, type(exc).__name__ if exc else None, "".join(s.spins), after
    finally:
        s.close()
