"""C11: run a multi-threaded scenario on the real rich objects under the deterministic scheduler (sched.py) and
put what happened into the canonical form compared with the Lean model (lean/RichModel/Model/Conc.lean).

Operations of a thread program (small tuples):
    ("P", lines, how)        console.print / console.log of user output (how = "seg" | "str" | "log", see lib_live)
    ("K", [(lines, how)…])   with console.capture(): one print per entry
    ("N", (la, ha), (lb, hb), (lc, hc))   with capture(): print a; with capture(): print b; print c   (inner result first)
    ("E", clear, mode)       console.export_text(clear=…) (mode "t"), export_text(clear=…, styles=True) ("s"), export_html(clear=…) ("h")
    ("U", lines, refresh)    Live.update(renderable yielding `lines`, refresh=…)
    ("R",) refresh   ("S",) start   ("X",) stop   ("V", id, n) Progress.advance
    ("W", stream, text)      sys.stdout.write(text) ("o") / sys.stderr.write(text) ("e"): one write() call on whatever object is installed there
                             (the FileProxy of the running display); a text with k newlines completes k lines
    ("G", npre)              harness barrier: wait until thread 0 has finished its first `npre` operations
    ("J",)                   harness barrier: wait until every other thread has finished
The barriers restrict which schedules the *harness* explores; the model has no barrier (it allows more).
"""
import io
import sys

from rich.console import Console
from rich.live import Live
from rich.progress import Progress

import term
from core import enc_str, enc_str_list
from lib_live import CountCol, Faults, FrameR, LinesR, enc_tokens, plain_lines
from sched import Deadlock, LockProxy, Sched, TracedList, YFile

KINDS = {"none": 0, "live": 1, "progress": 2}
OVERFLOWS = {"crop": 0, "ellipsis": 1, "visible": 2}
LINE_FILES = ("rich/console.py", "rich/live.py", "rich/live_render.py", "rich/progress.py", "rich/file_proxy.py",
              "rich/segment.py", "rich/control.py", "rich/ansi.py")   # every rich module with state on the path of the thread programs
PROXY_KINDS = ("qr", "q+", "qd", "qx")   # accesses to a FileProxy's pending-text list: not events of Model/Conc (replayed on Model/ConcProxy)


class Scn:
    def __init__(self, kind, width, height, record, transient, overflow, init, progs, npre=0):
        self.kind = kind
        self.width = width
        self.height = height
        self.record = record
        self.transient = transient
        self.overflow = "visible" if kind != "live" else overflow
        self.init = list(init)  # live: lines of the initial renderable; progress: task descriptions
        self.progs = [list(p) for p in progs]
        self.npre = npre

    def __repr__(self):
        return (f"Scn({self.kind}, {self.width}x{self.height}, record={self.record}, transient={self.transient}, "
                f"overflow={self.overflow}, init={self.init}, progs={self.progs})")

    # ---- request encoding (decoders in lean/RichModel/Drv/C11.lean)
    def enc_cfg(self, stop_tail_unlocked=1):
        return ",".join(str(x) for x in [KINDS[self.kind], self.width, self.height, int(self.record), int(self.transient),
                                         OVERFLOWS[self.overflow], int(stop_tail_unlocked)])

    def enc_init(self):
        return enc_str_list(self.init)

    def user_lines(self, lines, how):
        return plain_lines(self.width, self.height, None, how, lines)

    def enc_op(self, op):
        k = op[0]
        if k == "P":
            return "P" + enc_str_list(self.user_lines(op[1], op[2]))
        if k == "K":
            return "K" + "#".join(enc_str_list(self.user_lines(l, h)) for l, h in op[1])
        if k == "E":
            return f"E{int(op[1])}{op[2]}"
        if k == "N":
            return "N" + "#".join(enc_str_list(self.user_lines(l, h)) for l, h in op[1:4])
        if k == "U":
            return f"U{int(op[2])};" + enc_str_list(op[1])
        if k in ("R", "S", "X"):
            return k
        if k == "V":
            return f"V{op[1]};{op[2]}"
        raise ValueError(op)

    def enc_progs(self, proxy_prints=None):
        """`proxy_prints[(tid, i)]` = the console.print calls (their lines) the `W` operation i of thread tid made in the real run:
        the model is told which lines the proxy handed to the console (they depend on what was pending), one `W<lines>` per call."""
        out = []
        for tid, p in enumerate(self.progs):
            ops = []
            for i, op in enumerate(p):
                if op[0] in ("G", "J"):
                    continue
                if op[0] == "W":
                    ops += ["W" + enc_str_list(self.user_lines(ls, "str")) for ls in (proxy_prints or {}).get((tid, i), [])]
                else:
                    ops.append(self.enc_op(op))
            out.append("|".join(ops))
        return "/".join(out)


def _height_of(text, per_line):
    if text == "":
        return None
    return text.count("\x1b[1A") + per_line


def trace_live_render(lr, sched):
    """Swap the class of a (_)LiveRender instance for a subclass whose shared accesses are yield points + events."""
    base = lr.__class__

    def lines_of(r):
        ls = getattr(r, "lines", None)
        return None if ls is None else list(ls)

    class Traced(base):
        def position_cursor(self):
            sched.tl.reading = "pos"          # the event is the (first) read of `_shape` inside this call
            try:
                return base.position_cursor(self)
            finally:
                if getattr(sched.tl, "reading", None) == "pos":   # `_shape` was never read: still one event
                    sched.tl.reading = None
                    sched.sync("pos")
                    sched.log("pos", "?")

        def restore_cursor(self):
            sched.tl.reading = "rst"
            try:
                return base.restore_cursor(self)
            finally:
                if getattr(sched.tl, "reading", None) == "rst":
                    sched.tl.reading = None
                    sched.sync("rst")
                    sched.log("rst", "?")

        @property
        def _shape(self):
            kind = getattr(sched.tl, "reading", None)
            if kind is None:
                return self.__dict__.get("_shape_v")
            sched.tl.reading = None
            sched.sync(kind)
            v = self.__dict__.get("_shape_v")
            # rows erased: position_cursor erases max(height, 1) rows, restore_cursor `height` rows
            sched.log(kind, None if v is None else (max(v[1], 1) if kind == "pos" else v[1]))
            return v

        @_shape.setter
        def _shape(self, v):
            sched.sync("ws")
            self.__dict__["_shape_v"] = v
            sched.log("ws", None if v is None else tuple(v))

        @property
        def renderable(self):
            sched.sync("rr")
            r = self.__dict__.get("_renderable_v")
            sched.log("rr", lines_of(r))
            return r

        @renderable.setter
        def renderable(self, v):
            sched.sync("setr")
            self.__dict__["_renderable_v"] = v
            sched.log("setr", lines_of(v))

    d = lr.__dict__
    d["_shape_v"] = d.pop("_shape", None)
    d["_renderable_v"] = d.pop("renderable", None)
    lr.__class__ = Traced
    return lr


class TracedBuf:
    """Stand-in for the pending-text list of a FileProxy (`self.__buffer`, a list of str): reading it (`"".join(buffer)`,
    truth test), `append`, `del buffer[:]` are yield points + events.  Not a list subclass on purpose: `str.join` reads a list
    (subclass) without calling `__iter__`."""

    def __init__(self, sched, stream, items=()):
        self.sched, self.stream, self.items = sched, stream, list(items)

    def _ev(self, kind, payload):
        self.sched.log(kind, (self.stream, payload))

    def __iter__(self):
        self.sched.sync("qr")
        snap = list(self.items)
        self._ev("qr", "".join(map(str, snap)))
        return iter(snap)

    def __len__(self):
        return len(self.items)

    def __bool__(self):
        return bool(self.items)

    def __getitem__(self, k):
        self.sched.sync("qr")
        self._ev("qr", "".join(map(str, self.items)))
        return self.items[k]

    def append(self, x):
        self.sched.sync("q+")
        self.items.append(x)
        self._ev("q+", str(x))

    def extend(self, xs):
        for x in list(xs):
            self.append(x)

    def __iadd__(self, xs):
        self.extend(xs)
        return self

    def __delitem__(self, k):
        self.sched.sync("qd")
        del self.items[k]
        self._ev("qd", None)

    def clear(self):
        self.__delitem__(slice(None))

    def __setitem__(self, k, v):
        self.sched.sync("qx")
        self.items[k] = v
        self._ev("qx", None)

    def pop(self, *a):
        self.sched.sync("qx")
        r = self.items.pop(*a)
        self._ev("qx", None)
        return r

    def copy(self):
        return list(iter(self))


def trace_proxy(stream_obj, sched, tag, keep):
    """Swap the pending-text list of a FileProxy for a TracedBuf (when the proxy has one: otherwise only line mode sees inside)."""
    try:
        from rich.file_proxy import FileProxy
    except BaseException:  # noqa: BLE001
        return
    if not isinstance(stream_obj, FileProxy) or any(p is stream_obj for _, p, _b in keep):
        return
    d = getattr(stream_obj, "__dict__", {})
    for name, v in list(d.items()):
        if name.endswith("buffer") and type(v) is list:
            d[name] = TracedBuf(sched, tag, v)
            keep.append((tag, stream_obj, d[name]))
            return


class Result:
    pass


def run_real(scn, chooser, line_mode=False):
    """One scheduled run on real rich.  Never raises for what the code under test does (exceptions of the threads,
    deadlock are recorded in the result)."""
    sched = Sched(line_files=LINE_FILES if line_mode else ())
    clock = LockProxy(sched, "C")
    rlock = LockProxy(sched, "R")
    llock = LockProxy(sched, "L")
    f = YFile(sched, guard=clock)
    console = Console(file=f, force_terminal=True, width=scn.width, height=scn.height, color_system=None, record=scn.record,
                      log_time=False, log_path=False, get_time=lambda: 0.0, _environ={})
    console._lock = clock
    console._record_buffer_lock = rlock
    console._render_hooks = TracedList(sched, "h", getattr(console, "_render_hooks", []))
    console._record_buffer = TracedList(sched, "c", getattr(console, "_record_buffer", []))
    disp = None
    if scn.kind == "live":
        disp = Live(FrameR(scn.init), console=console, auto_refresh=False, transient=scn.transient, redirect_stdout=True,
                    redirect_stderr=True, vertical_overflow=scn.overflow)
    elif scn.kind == "progress":
        disp = Progress(CountCol(Faults()), console=console, auto_refresh=False, transient=scn.transient, redirect_stdout=True,
                        redirect_stderr=True, get_time=lambda: 0.0)
        for d in scn.init:
            disp.add_task(d)
    if disp is not None:
        disp._lock = llock
        trace_live_render(disp._live_render, sched)

    n = len(scn.progs)
    proxies = []          # (stream tag, FileProxy) whose pending-text list is traced
    proxy_prints = {}     # (tid, op index) -> [lines of every console.print call made inside that `W` operation]
    real_print = console.print

    def print_spy(*objs, **kw):
        cur = getattr(sched.tl, "wop", None)
        if cur is not None:
            text = "".join(getattr(o, "plain", None) if isinstance(getattr(o, "plain", None), str) else str(o) for o in objs)
            proxy_prints.setdefault(cur, []).append(text.split("\n"))
        return real_print(*objs, **kw)

    if any(op[0] == "W" for p in scn.progs for op in p):
        console.print = print_spy
    done_ops = [0] * n
    captures = [[] for _ in range(n)]
    exports = [[] for _ in range(n)]   # per thread: (clear, mode, plain text of what the export returned)

    def apply(op):
        k = op[0]
        if k == "P":
            _print(console, op[1], op[2])
        elif k == "K":
            with console.capture() as cap:
                for lines, how in op[1]:
                    _print(console, lines, how)
            captures[sched.current()].append(cap.get())
        elif k == "E":
            if op[2] == "h":
                text = html_text(console.export_html(clear=op[1]))
            else:
                text = console.export_text(clear=op[1], styles=(op[2] == "s"))
            exports[sched.current()].append((op[1], op[2], text))
        elif k == "N":
            with console.capture() as outer:
                _print(console, *op[1])
                with console.capture() as inner:
                    _print(console, *op[2])
                captures[sched.current()].append(inner.get())
                _print(console, *op[3])
            captures[sched.current()].append(outer.get())
        elif k == "U":
            disp.update(FrameR(op[1]), refresh=op[2])
        elif k == "R":
            disp.refresh()
        elif k == "S":
            try:
                disp.start()
            finally:
                trace_proxy(sys.stdout, sched, "o", proxies)
                trace_proxy(sys.stderr, sched, "e", proxies)
        elif k == "W":
            sched.tl.wop = (sched.current(), sched.tl.opi)
            try:
                (sys.stdout if op[1] == "o" else sys.stderr).write(op[2])
            finally:
                sched.tl.wop = None
        elif k == "X":
            disp.stop()
        elif k == "V":
            disp.advance(op[1], op[2])
        elif k == "G":
            sched.sync("gate", lambda s, need=op[1]: done_ops[0] >= need)
        elif k == "J":
            me = sched.current()
            sched.sync("gate", lambda s: all(st == "done" for t, st in s.state.items() if t != me))
        else:
            raise ValueError(op)

    def worker(tid):
        def go():
            for i, op in enumerate(scn.progs[tid]):
                sched.tl.opi = i
                apply(op)
                if op[0] not in ("G", "J"):
                    done_ops[tid] += 1
        return go

    res = Result()
    res.deadlock = None
    # sys.stdout / sys.stderr are redirected through FileProxy objects by start(): observe them on stand-ins
    saved = (sys.stdout, sys.stderr)
    fake_out, fake_err = io.StringIO(), io.StringIO()
    sys.stdout, sys.stderr = fake_out, fake_err
    try:
        for tid in range(n):
            sched.spawn(tid, worker(tid))
        try:
            sched.run(chooser)
        except Deadlock as e:
            res.deadlock = e.args[0]
        except RuntimeError as e:  # SchedulerStuck: the code under test never came back to a yield point / never finished
            res.deadlock = "stuck: " + str(e)

        def depth(f, base):
            d = 0
            while f is not base and d < 50:
                f = getattr(f, "rich_proxied_file", None)
                d += 1
                if f is None:
                    return -1
            return d

        res.stdout_depth = depth(sys.stdout, fake_out)
        res.stderr_depth = depth(sys.stderr, fake_err)
    finally:
        sys.stdout, sys.stderr = saved
    res.sched = sched
    res.choices = list(sched.choices)
    res.events = list(sched.events)
    res.writes = list(f.writes)
    res.unguarded = list(f.unguarded)
    res.lock_errors = clock.errors + rlock.errors + llock.errors
    res.exc = dict(sched.exc)
    res.captures = captures
    res.proxy_prints = proxy_prints
    res.proxy_pending = {tag: "".join(map(str, b.items)) for tag, _p, b in proxies}
    res.proxy_traced = len(proxies)
    res.exports = exports
    res.done_ops = done_ops
    res.console = console
    res.disp = disp
    res.export = None
    if scn.record and res.deadlock is None:
        try:
            res.export = console.export_text(clear=False)
        except BaseException as e:  # noqa: BLE001
            res.export = "err:" + type(e).__name__
    res.shape = None if disp is None else disp._live_render.__dict__.get("_shape_v")
    res.hooks = len(console._render_hooks)
    res.started = None if disp is None else bool(getattr(disp, "_started", False))
    # after the run (harness thread, unscheduled): what does one more print write?
    res.after = None
    if res.deadlock is None and not res.exc:
        n_w = len(f.writes)
        try:
            console.print(LinesR(["zzafter"]))
            res.after = "".join(t for _, t in f.writes[n_w:])
        except BaseException as e:  # noqa: BLE001
            res.after = "err:" + type(e).__name__
    return res


def html_text(doc):
    """The text inside the <pre> of an export_html document (no styles in these scenarios: no tags inside)."""
    import html
    import re

    m = re.search(r"<pre[^>]*>(?:<code>)?(.*?)(?:</code>)?</pre>", doc, flags=re.S)
    return html.unescape(m.group(1)) if m else "?no-pre?" + doc


def _print(console, lines, how):
    if how == "seg":
        console.print(LinesR(lines))
    elif how == "str":
        console.print("\n".join(lines))
    elif how == "log":
        console.log("\n".join(lines))
    else:
        raise ValueError(how)


# ------------------------------------------------------------------ canonical forms
EVENT_CODES = {"acqL": "aL", "relL": "rL", "acqC": "aC", "relC": "rC", "acqR": "aR", "relR": "rR", "hr": "hr", "h+": "h+", "h-": "h-",
               "ce": "ce", "cr": "cr", "cd": "cd", "pos": "ps", "rst": "rs", "rr": "rr", "ws": "ws", "setr": "sr", "w": "w"}


def console_events(events):
    """The events of Model/Conc: everything but the accesses to the proxies' pending text."""
    return [e for e in events if e[1] not in PROXY_KINDS]


def enc_events(events):
    """`tid:code` list sent to the model (the schedule at the granularity of the shared accesses)."""
    return ",".join(f"{t}:{EVENT_CODES.get(k, '??' + k)}" for t, k, _ in console_events(events))


def enc_shape(v):
    return "-" if v is None else f"{v[0]}x{v[1]}"


def enc_payload(scn, kind, p):
    """Observable of one event, in the format of `obsOf` in Drv/C11.lean."""
    if kind == "hr":
        return "1" if p else "0"
    if kind in ("pos", "rst"):
        return "-" if p is None else str(p)
    if kind == "ws":
        return enc_shape(p)
    if kind in ("rr", "setr"):
        return "*" if (p is None or scn.kind != "live") else enc_str_list(p)
    if kind == "w":
        return enc_tokens(term.tokenize(p))
    return ""


def enc_obs(scn, events):
    return ";".join(enc_payload(scn, k, p) for _, k, p in console_events(events))


def enc_final(scn, res):
    caps = "/".join("!".join(enc_tokens(term.tokenize(c)) for c in cs) for cs in res.captures)
    exp = "-" if res.export is None else enc_tokens(term.tokenize(res.export))
    exps = "/".join("!".join(enc_tokens(term.tokenize(t)) for _c, _m, t in es) for es in res.exports)
    return "#".join([caps, exp, enc_shape(res.shape), str(res.hooks), "-" if res.started is None else str(int(res.started)), exps])
