"""Translator plug-in (property C19): the tables the ANSI decoder / encoder models need.

From the working tree (parsed with `ast`, rich is not imported):
* `sgrStyleMap`    - rich/ansi.py `SGR_STYLE_MAP` in dict order: (SGR code, style definition);
* `styleMapCodes`  - rich/style.py `Style._style_map` in dict order: (attribute bit, SGR parameter text).

From the *running* Python (facts about CPython, not about the repository - trusted base):
* `pyDigitRanges`  - maximal code point ranges on which `str.isdigit()` is true;
* `pyDecimalRuns`  - (lo, hi, v): maximal runs on which `int(chr(cp)) == v + cp - lo`
                     (the code points `int()` accepts as digits; the plug-in checks that this is exactly
                     `str.isdecimal()`, that every other `isdigit` character makes `int()` raise ValueError,
                     and that a multi-character decimal string is read positionally);
* `pyMaxStrDigits` - `sys.get_int_max_str_digits()`: `int()` of more digits raises ValueError (0 = no limit).
"""
import ast
import os
import sys
import unicodedata


def _chars(s):
    out = []
    for ch in s:
        cp = ord(ch)
        if ch == "'" or ch == "\\" or cp < 32 or cp > 126:
            out.append("Char.ofNat %d" % cp)
        else:
            out.append("'%s'" % ch)
    return "[" + ", ".join(out) + "]"


def _class_assign(path, cls, name):
    """literal value of `name = <literal>` in the body of class `cls`."""
    with open(path, encoding="utf-8") as f:
        tree = ast.parse(f.read(), path)
    for node in tree.body:
        if isinstance(node, ast.ClassDef) and node.name == cls:
            for sub in node.body:
                if isinstance(sub, ast.Assign):
                    for tgt in sub.targets:
                        if isinstance(tgt, ast.Name) and tgt.id == name:
                            return ast.literal_eval(sub.value)
                if isinstance(sub, ast.AnnAssign) and isinstance(sub.target, ast.Name) and sub.target.id == name:
                    return ast.literal_eval(sub.value)
    raise KeyError(f"{cls}.{name} not found in {path}")


def _ranges(flags):
    out, start = [], None
    for cp, f in enumerate(flags):
        if f and start is None:
            start = cp
        elif not f and start is not None:
            out.append((start, cp - 1))
            start = None
    if start is not None:
        out.append((start, len(flags) - 1))
    return out


def _digit_tables():
    digit = [False] * 0x110000
    val = [None] * 0x110000
    for cp in range(0x110000):
        if 0xD800 <= cp <= 0xDFFF:
            continue  # lone surrogates: not representable in the line protocol / Lean Char
        c = chr(cp)
        if c.isdigit():
            digit[cp] = True
            try:
                v = int(c)
            except ValueError:
                v = None
            if (v is not None) != c.isdecimal():
                raise ValueError(f"int() and str.isdecimal() disagree on U+{cp:04X}")
            if v is not None and v != unicodedata.decimal(c):
                raise ValueError(f"int() and unicodedata.decimal disagree on U+{cp:04X}")
            val[cp] = v
        elif c.isdecimal():
            raise ValueError(f"U+{cp:04X} is decimal but not a digit")
    runs = []
    cp = 0
    while cp < 0x110000:
        if val[cp] is None:
            cp += 1
            continue
        lo = cp
        while cp + 1 < 0x110000 and val[cp + 1] is not None and val[cp + 1] == val[cp] + 1:
            cp += 1
        runs.append((lo, cp, val[lo]))
        cp += 1
    # positional reading of mixed-script decimal strings
    zeros = [lo for lo, hi, v in runs if v == 0 and hi - lo == 9]
    for a in zeros[:8]:
        for b in zeros[-8:]:
            if int(chr(a + 3) + chr(b + 4) + "5") != 345:
                raise ValueError("int() does not read mixed decimal digits positionally")
    return _ranges(digit), runs


def generate(api):
    ansi = os.path.join(api.REPO, "rich", "ansi.py")
    sgr = api._module_assign(ansi, "SGR_STYLE_MAP")
    if not isinstance(sgr, dict):
        raise ValueError("SGR_STYLE_MAP is not a dict literal")
    rows = []
    for k, v in sgr.items():
        if not isinstance(k, int) or isinstance(k, bool) or k < 0 or not isinstance(v, str):
            raise ValueError(f"SGR_STYLE_MAP entry not translatable: {k!r}: {v!r}")
        rows.append(f"  ({k}, {_chars(v)})")
    style = os.path.join(api.REPO, "rich", "style.py")
    smap = _class_assign(style, "Style", "_style_map")
    if not isinstance(smap, dict):
        raise ValueError("Style._style_map is not a dict literal")
    srows = []
    for k, v in smap.items():
        if not isinstance(k, int) or isinstance(k, bool) or k < 0 or not isinstance(v, str):
            raise ValueError(f"Style._style_map entry not translatable: {k!r}: {v!r}")
        srows.append(f"  ({k}, {_chars(v)})")
    dranges, runs = _digit_tables()
    text = (
        api.HEADER.format(src="rich/ansi.py SGR_STYLE_MAP, rich/style.py Style._style_map")
        + "namespace RichModel.Gen\n\n"
        + "/-- `SGR_STYLE_MAP` in dict order: (SGR code, style definition). -/\n"
        + "def sgrStyleMap : List (Nat × List Char) := [\n"
        + ",\n".join(rows)
        + "\n]\n\n"
        + "/-- `Style._style_map` in dict order: (attribute bit, SGR parameter). -/\n"
        + "def styleMapCodes : List (Nat × List Char) := [\n"
        + ",\n".join(srows)
        + "\n]\n\nend RichModel.Gen\n"
    )
    py = (
        "-- GENERATED by harness/gen/sgr_map.py from the running Python (str.isdigit, int, sys.get_int_max_str_digits); do not edit.\n"
        + "namespace RichModel.Gen\n\n"
        + "/-- maximal code point ranges on which `str.isdigit()` is true -/\n"
        + "def pyDigitRanges : List (Nat × Nat) := [\n  "
        + ", ".join(f"({a}, {b})" for a, b in dranges)
        + "\n]\n\n"
        + "/-- (lo, hi, v): `int(chr(cp)) = v + cp - lo` on lo..hi; every other code point makes `int()` raise -/\n"
        + "def pyDecimalRuns : List (Nat × Nat × Nat) := [\n  "
        + ", ".join(f"({a}, {b}, {v})" for a, b, v in runs)
        + "\n]\n\n"
        + "/-- `sys.get_int_max_str_digits()` (0 = unlimited) -/\n"
        + f"def pyMaxStrDigits : Nat := {sys.get_int_max_str_digits()}\n\n"
        + "end RichModel.Gen\n"
    )
    return {"SgrMap.lean": text, "PyDigits.lean": py}
