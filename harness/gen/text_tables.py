"""Translator plug-in for the Text model (property C05): tables the model of rich/text.py needs.

* `stripControlCodes` - rich/control.py STRIP_CONTROL_CODES (parsed with ast, no import of rich);
* `pyWhitespace`      - the code points for which the *running* Python's `str.isspace()` is true; the same
  set drives `str.rstrip()` and regex `\\s` on str patterns (checked here, the translator refuses otherwise).
  This is a fact about CPython, not about the repository (trusted base).
"""
import os
import re


def generate(api):
    src = os.path.join(api.REPO, "rich", "control.py")
    codes = api._module_assign(src, "STRIP_CONTROL_CODES")
    if not (isinstance(codes, list) and all(isinstance(c, int) and 0 <= c < 0x110000 for c in codes)):
        raise ValueError(f"STRIP_CONTROL_CODES not translatable: {codes!r}")
    ws = [i for i in range(0x110000) if chr(i).isspace()]
    ws_re = [i for i in range(0x110000) if not (0xD800 <= i <= 0xDFFF) and re.match(r"\s", chr(i))]
    ws_strip = [i for i in ws if ("x" + chr(i)).rstrip() == "x"]
    if ws != ws_re or ws != ws_strip:
        raise ValueError("str.isspace / regex \\s / str.rstrip disagree on the whitespace set")
    out = [api.HEADER.format(src="rich/control.py STRIP_CONTROL_CODES and the running Python's str.isspace")]
    out.append("namespace RichModel.Gen\n\n")
    out.append("def stripControlCodes : List Nat := [" + ", ".join(map(str, codes)) + "]\n\n")
    out.append("def pyWhitespace : List Nat := [" + ", ".join(map(str, ws)) + "]\n\n")
    out.append("end RichModel.Gen\n")
    return {"TextTables.lean": "".join(out)}
