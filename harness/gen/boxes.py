"""Translator plug-in (C08): the box-drawing tables of rich/box.py -> lean/RichModel/Gen/Boxes.lean.

Parsed with `ast` (rich is not imported).  Data only:
  * every module-level `NAME: Box = Box(<string literal>, ascii=<bool>)`  -> (name, ascii flag, the string's lines)
  * `LEGACY_WINDOWS_SUBSTITUTIONS = {NAME: NAME, ...}`                    -> pairs of indices into that list
  * which entry is called `ASCII` (the target of the `ascii_only` substitution in `Box.substitute`).
What `Box.__init__` does with the string (splitlines, 4 characters per line) and `Box.substitute` are code and
are modelled by hand in Model/Frames.lean.
"""
import ast
import os


def parse(repo):
    path = os.path.join(repo, "rich", "box.py")
    with open(path, encoding="utf-8") as f:
        tree = ast.parse(f.read(), path)
    boxes = []  # (name, ascii, [lines])
    subst = None
    for node in tree.body:
        tgt = val = None
        if isinstance(node, ast.AnnAssign) and isinstance(node.target, ast.Name):
            tgt, val = node.target.id, node.value
        elif isinstance(node, ast.Assign) and len(node.targets) == 1 and isinstance(node.targets[0], ast.Name):
            tgt, val = node.targets[0].id, node.value
        if tgt is None or val is None:
            continue
        if isinstance(val, ast.Call) and isinstance(val.func, ast.Name) and val.func.id == "Box":
            if len(val.args) != 1:
                raise ValueError(f"{tgt}: Box(...) with {len(val.args)} positional arguments")
            text = ast.literal_eval(val.args[0])
            kw = {k.arg: ast.literal_eval(k.value) for k in val.keywords}
            if not isinstance(text, str) or set(kw) - {"ascii"}:
                raise ValueError(f"{tgt}: Box(...) not translatable")
            boxes.append((tgt, bool(kw.get("ascii", False)), text.splitlines()))
        elif tgt == "LEGACY_WINDOWS_SUBSTITUTIONS":
            if not isinstance(val, ast.Dict) or not all(isinstance(k, ast.Name) and isinstance(v, ast.Name) for k, v in zip(val.keys, val.values)):
                raise ValueError("LEGACY_WINDOWS_SUBSTITUTIONS is not a {NAME: NAME} literal")
            subst = [(k.id, v.id) for k, v in zip(val.keys, val.values)]
    if subst is None:
        raise KeyError("LEGACY_WINDOWS_SUBSTITUTIONS not found")
    names = [b[0] for b in boxes]
    if "ASCII" not in names:
        raise KeyError("box ASCII not found")
    return boxes, [(names.index(a), names.index(b)) for a, b in subst], names.index("ASCII")


def _chars(s):
    return "[" + ", ".join("Char.ofNat %d" % ord(c) for c in s) + "]"


def generate(api):
    boxes, subst, ascii_idx = parse(api.REPO)
    out = [api.HEADER.format(src="rich/box.py (harness/gen/boxes.py)"), "namespace RichModel.Gen\n\n"]
    out.append("/-- Every `NAME = Box(text, ascii=flag)` of rich/box.py in source order: (ascii flag, `text.splitlines()`). -/\n")
    out.append("def boxes : List (Bool × List (List Char)) := [\n")
    rows = []
    for name, asc, lines in boxes:
        rows.append("  -- %s\n  (%s, [%s])" % (name, "true" if asc else "false", ", ".join(_chars(l) for l in lines)))
    out.append(",\n".join(rows))
    out.append("\n]\n\n/-- `LEGACY_WINDOWS_SUBSTITUTIONS` as (from, to) indices into `boxes`. -/\n")
    out.append("def legacyWindowsSubstitutions : List (Nat × Nat) := [%s]\n\n" % ", ".join("(%d, %d)" % p for p in subst))
    out.append("/-- Index of `ASCII` (what `Box.substitute` returns under `ascii_only`). -/\ndef asciiBox : Nat := %d\n\n" % ascii_idx)
    out.append("end RichModel.Gen\n")
    return {"Boxes.lean": "".join(out)}
