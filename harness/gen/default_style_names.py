"""Translator plug-in (C20): the keys of rich/default_styles.py DEFAULT_STYLES -> Gen/DefaultStyleNames.lean.

Parsed with `ast` (rich is not imported): the dict literal's keys must be string constants.
"""
import ast
import os


def generate(api):
    src = os.path.join(api.REPO, "rich", "default_styles.py")
    with open(src, encoding="utf-8") as f:
        tree = ast.parse(f.read(), src)
    names = None
    for node in tree.body:
        tgt = None
        if isinstance(node, ast.AnnAssign) and isinstance(node.target, ast.Name):
            tgt, val = node.target.id, node.value
        elif isinstance(node, ast.Assign) and len(node.targets) == 1 and isinstance(node.targets[0], ast.Name):
            tgt, val = node.targets[0].id, node.value
        if tgt == "DEFAULT_STYLES":
            if not isinstance(val, ast.Dict):
                raise ValueError("DEFAULT_STYLES is not a dict literal")
            names = []
            for k in val.keys:
                if not (isinstance(k, ast.Constant) and isinstance(k.value, str)):
                    raise ValueError("DEFAULT_STYLES key not translatable: %s" % ast.dump(k))
                names.append(k.value)
    if names is None:
        raise KeyError("DEFAULT_STYLES not found in " + src)
    out = [api.HEADER.format(src="rich/default_styles.py DEFAULT_STYLES (keys)"), "namespace RichModel.Gen\n\n"]
    out.append("def defaultStyleNames : List (List Char) := [\n")
    out.append(",\n".join("  [" + ", ".join("Char.ofNat %d" % ord(c) for c in n) + "]" for n in names))
    out.append("\n]\n\nend RichModel.Gen\n")
    return {"DefaultStyleNames.lean": "".join(out)}
