"""Translator plug-in (property C06): rich/color.py ANSI_COLOR_NAMES -> lean/RichModel/Gen/ColorNames.lean.

The dict literal is read with `ast` (no import of rich), so what is translated is what the working
tree says now.  Python dict semantics are kept: a key written twice keeps its *last* value and its
*first* position (ast.literal_eval builds the dict exactly as the interpreter would).
Names are emitted as `List Char` literals (the models use `List Char` for `str`).
"""
import os


def _chars(s):
    out = []
    for ch in s:
        cp = ord(ch)
        if ch == "'" or ch == "\\" or cp < 32 or cp > 126:
            out.append("Char.ofNat %d" % cp)
        else:
            out.append("'%s'" % ch)
    return "[" + ", ".join(out) + "]"


def generate(api):
    src = os.path.join(api.REPO, "rich", "color.py")
    names = api._module_assign(src, "ANSI_COLOR_NAMES")
    if not isinstance(names, dict):
        raise ValueError("ANSI_COLOR_NAMES is not a dict literal")
    rows = []
    for k, v in names.items():
        if not isinstance(k, str) or not isinstance(v, int) or isinstance(v, bool) or v < 0:
            raise ValueError(f"entry not translatable: {k!r}: {v!r}")
        rows.append(f"  ({_chars(k)}, {v})")
    text = (
        api.HEADER.format(src="rich/color.py ANSI_COLOR_NAMES")
        + "namespace RichModel.Gen\n\n"
        + "/-- `ANSI_COLOR_NAMES` in dict order: (name, colour number). -/\n"
        + "def ansiColorNames : List (List Char × Nat) := [\n"
        + ",\n".join(rows)
        + "\n]\n\nend RichModel.Gen\n"
    )
    return {"ColorNames.lean": text}
