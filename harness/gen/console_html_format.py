"""Translator plug-in for C15: the default `code_format` of Console.export_html.

`CONSOLE_HTML_FORMAT` (rich/console.py, parsed with ast, no import of rich) is split with
`string.Formatter().parse` - the same parser `str.format` uses - into literal text and the four named fields.
Emitted as raw data (tag, code points): 0 = literal, 1 = {code}, 2 = {stylesheet}, 3 = {foreground}, 4 = {background}.
Props/C15.lean proves, against this table on every run, that `{code}` occurs exactly once and that the text before
it ends outside an HTML tag.
"""
import os
import string

FIELDS = {"code": 1, "stylesheet": 2, "foreground": 3, "background": 4}


def generate(api):
    src = os.path.join(api.REPO, "rich", "console.py")
    fmt = api._module_assign(src, "CONSOLE_HTML_FORMAT")
    if not isinstance(fmt, str):
        raise ValueError("CONSOLE_HTML_FORMAT is not a string literal")
    items = []
    for lit, field, spec, conv in string.Formatter().parse(fmt):
        if lit:
            items.append((0, [ord(c) for c in lit]))
        if field is not None:
            if spec or conv or field not in FIELDS:
                raise ValueError(f"CONSOLE_HTML_FORMAT field not translatable: {field!r}")
            items.append((FIELDS[field], []))
    out = [api.HEADER.format(src="rich/console.py CONSOLE_HTML_FORMAT")]
    out.append("namespace RichModel.Gen\n\n")
    out.append("def consoleHtmlFormat : List (Nat × List Nat) := [\n")
    out.append(",\n".join("  (%d, [%s])" % (t, ", ".join(map(str, cps))) for t, cps in items))
    out.append("\n]\n\nend RichModel.Gen\n")
    return {"ConsoleHtmlFormat.lean": "".join(out)}
