"""Translator plug-in (C18): colour palettes of rich/_palettes.py and the default terminal theme of
rich/terminal_theme.py -> lean/RichModel/Gen/Palettes.lean.

The sources are parsed with `ast` (rich is not imported): a palette is a module-level
`NAME = Palette([ (r, g, b), ... ])`; the theme is `DEFAULT_TERMINAL_THEME = TerminalTheme(bg, fg, normal[, bright])`.
Only the *arguments* are data; what `Palette` / `TerminalTheme.__init__` do with them is code and is
modelled by hand in Model/Color.lean (`Palettes.ansiColors`).
"""
import ast
import os


def _call_args(path, name, func):
    with open(path, encoding="utf-8") as f:
        tree = ast.parse(f.read(), path)
    for node in tree.body:
        if isinstance(node, ast.Assign) and any(isinstance(t, ast.Name) and t.id == name for t in node.targets):
            v = node.value
            if isinstance(v, ast.Call) and isinstance(v.func, ast.Name) and v.func.id == func:
                args = [ast.literal_eval(a) for a in v.args]
                kwargs = {k.arg: ast.literal_eval(k.value) for k in v.keywords}
                return args, kwargs
            raise ValueError(f"{name} in {path} is not a call of {func}(...)")
    raise KeyError(f"{name} not found in {path}")


def _triplet(t):
    if not (isinstance(t, (tuple, list)) and len(t) == 3 and all(isinstance(c, int) and not isinstance(c, bool) and c >= 0 for c in t)):
        raise ValueError(f"colour not translatable to a triplet of naturals: {t!r}")
    return "⟨%d, %d, %d⟩" % tuple(t)


def _list(name, rows, doc):
    body = ",\n".join("  " + _triplet(t) for t in rows)
    return f"/-- {doc} -/\ndef {name} : List Triplet := [\n{body}\n]\n\n"


def generate(api):
    pal = os.path.join(api.REPO, "rich", "_palettes.py")
    thm = os.path.join(api.REPO, "rich", "terminal_theme.py")
    out = [api.HEADER.format(src="rich/_palettes.py and rich/terminal_theme.py (harness/gen/palettes.py)")]
    out.append("import RichModel.Model.ColorCore\nnamespace RichModel.Gen\nopen RichModel\n\n")
    for lean_name, py_name in (("standardPalette", "STANDARD_PALETTE"), ("windowsPalette", "WINDOWS_PALETTE"), ("eightBitPalette", "EIGHT_BIT_PALETTE")):
        args, kwargs = _call_args(pal, py_name, "Palette")
        colors = kwargs.get("colors", args[0] if args else None)
        if not isinstance(colors, list):
            raise ValueError(f"{py_name}: Palette(...) argument is not a list literal")
        out.append(_list(lean_name, colors, f"`{py_name}` (rich/_palettes.py): the argument of `Palette(...)`."))
    args, kwargs = _call_args(thm, "DEFAULT_TERMINAL_THEME", "TerminalTheme")
    names = ["background", "foreground", "normal", "bright"]
    vals = dict(zip(names, args))
    vals.update(kwargs)
    out.append(f"/-- `DEFAULT_TERMINAL_THEME` argument `background`. -/\ndef themeBackground : Triplet := {_triplet(vals['background'])}\n\n")
    out.append(f"/-- `DEFAULT_TERMINAL_THEME` argument `foreground`. -/\ndef themeForeground : Triplet := {_triplet(vals['foreground'])}\n\n")
    out.append(_list("themeNormal", vals["normal"], "`DEFAULT_TERMINAL_THEME` argument `normal`."))
    bright = vals.get("bright")
    if bright is None:
        out.append("/-- `DEFAULT_TERMINAL_THEME` argument `bright` (absent / None). -/\ndef themeBright : Option (List Triplet) := none\n\n")
    else:
        body = ",\n".join("  " + _triplet(t) for t in bright)
        out.append(f"/-- `DEFAULT_TERMINAL_THEME` argument `bright`. -/\ndef themeBright : Option (List Triplet) := some [\n{body}\n]\n\n")
    out.append("end RichModel.Gen\n")
    return {"Palettes.lean": "".join(out)}
