"""Translator plug-in (C20): `str.lower()` of the *running* Python, per code point -> Gen/PyLower.lean.

A fact about the runtime (configparser's default `optionxform` is `str.lower`), not about /repo.  Listed are the
code points c >= 128 with chr(c).lower() != chr(c); U+03A3 (capital sigma) is context sensitive in CPython
(final-sigma rule) and is handled by the model as `unmodelled`.  The table is re-checked against `str.lower`
on every code point by the C20 correspondence run.
"""


def generate(api):
    rows = []
    for cp in range(128, 0x110000):
        if 0xD800 <= cp <= 0xDFFF:
            continue
        low = chr(cp).lower()
        if low != chr(cp):
            rows.append((cp, [ord(c) for c in low]))
    out = [api.HEADER.format(src="the running Python: str.lower() per code point >= 128"), "namespace RichModel.Gen\n\n"]
    # chunks: one literal of 1400 rows exceeds the elaborator's recursion depth; lists (not arrays) keep kernel evaluation cheap
    chunks = [rows[i:i + 200] for i in range(0, len(rows), 200)] or [[]]
    for k, ch in enumerate(chunks):
        out.append("def pyLower%d : List (Nat × List Nat) := [\n" % k)
        out.append(",\n".join("  (%d, [%s])" % (cp, ", ".join(map(str, low))) for cp, low in ch))
        out.append("\n]\n\n")
    out.append("def pyLower : List (Nat × List Nat) := " + " ++ ".join("pyLower%d" % k for k in range(len(chunks))) + "\n")
    out.append("\nend RichModel.Gen\n")
    return {"PyLower.lean": "".join(out)}
