"""Translator plug-in (C07): the box literals of rich/box.py -> lean/RichModel/Gen/TableBoxes.lean.

(The C08 builder owns harness/gen/boxes.py / Gen/Boxes.lean; this plug-in is C07's own copy with names, so that
neither property depends on the other's generated file.)

The source is parsed with `ast` (rich is not imported).  A box is a module-level
`NAME: Box = Box(<string literal>[, ascii=True])`; only the *string argument* is data (translated as the list
of lines `str.splitlines()` gives, each a list of characters) together with the `ascii` flag.  What
`Box.__init__` does with the eight lines (which character becomes `head_vertical`, ...) is code and is
modelled by hand in Model/Table.lean (`Box.ofLines?`), so a change there shows up in the correspondence.

Side condition proved over the generated table (Props/C07.lean `boxes_wellformed`, `decide +kernel`):
every box has exactly 8 lines of exactly 4 characters, each of cell width 1.
"""
import ast
import os


def _lean_char(c):
    o = ord(c)
    if c == "'":
        return "'\\''"
    if c == "\\":
        return "'\\\\'"
    if 32 <= o < 127:
        return f"'{c}'"
    if o <= 0xFFFF and not (0xD800 <= o <= 0xDFFF):
        return "'\\u%04x'" % o
    return f"(Char.ofNat {o})"


def boxes_from_source(path):
    with open(path, encoding="utf-8") as f:
        tree = ast.parse(f.read(), path)
    out = []
    for node in tree.body:
        if isinstance(node, ast.AnnAssign) and isinstance(node.target, ast.Name):
            name, v = node.target.id, node.value
        elif isinstance(node, ast.Assign) and len(node.targets) == 1 and isinstance(node.targets[0], ast.Name):
            name, v = node.targets[0].id, node.value
        else:
            continue
        if isinstance(v, ast.Call) and isinstance(v.func, ast.Name) and v.func.id == "Box":
            if len(v.args) != 1:
                raise ValueError(f"box {name}: expected one positional argument")
            text = ast.literal_eval(v.args[0])
            if not isinstance(text, str):
                raise ValueError(f"box {name}: argument is not a string literal")
            kwargs = {k.arg: ast.literal_eval(k.value) for k in v.keywords}
            extra = set(kwargs) - {"ascii"}
            if extra:
                raise ValueError(f"box {name}: untranslatable keyword(s) {sorted(extra)}")
            out.append((name, bool(kwargs.get("ascii", False)), text.splitlines()))
    if not out:
        raise ValueError("no Box(...) literal found in " + path)
    return out


def generate(api):
    src = os.path.join(api.REPO, "rich", "box.py")
    boxes = boxes_from_source(src)
    out = [api.HEADER.format(src="rich/box.py Box(...) literals (harness/gen/table_boxes.py)"), "namespace RichModel.Gen\n\n"]
    out.append("/-- (name, ascii flag, `box.splitlines()` as lists of characters) for every box constant of rich/box.py. -/\n")
    out.append("def tableBoxes : List (String × Bool × List (List Char)) := [\n")
    rows = []
    for name, asc, lines in boxes:
        ls = ", ".join("[" + ", ".join(_lean_char(c) for c in line) + "]" for line in lines)
        rows.append(f'  ("{name}", {"true" if asc else "false"}, [{ls}])')
    out.append(",\n".join(rows))
    out.append("\n]\n\nend RichModel.Gen\n")
    return {"TableBoxes.lean": "".join(out)}
