"""Helpers private to the C15 check (record / capture / export).

* SpyList / LogFile : observation points that do not change what rich does
  (the thread-local buffer logs what is appended to it; the file logs each `write`).
* a minimal terminal-stream tokenizer (harness/term.py of the C10 builder did not exist when this was
  written): strips / decodes CSI, OSC 8 and C0 control codes.  It is independent of the Lean model.
* an HTML reader built on the standard library's html.parser.
* canonicalisation of escape codes: link ids are random and are stripped; everything else, colour parameters
  included, is compared exactly (the `Style._ansi` cache is keyed by colour system since fix c9ec5a8).
* Tracer: logs which public console methods rich itself calls (Live.start/refresh/stop) without changing them.
"""
import html.parser
import io
import re
import sys

PROBE = "\ue000"


class SpyList(list):
    """Replacement for `ConsoleThreadLocals.buffer`: a list that logs what is appended."""

    def __init__(self):
        super().__init__()
        self.log = []

    def append(self, x):
        self.log.append(x)
        super().append(x)

    def extend(self, xs):
        xs = list(xs)
        self.log.extend(xs)
        super().extend(xs)

    def __iadd__(self, xs):
        self.extend(xs)
        return self

    def insert(self, i, x):  # not used by rich 9.10; would invalidate the log
        raise AssertionError("Console._buffer.insert is not modelled")

    def take(self):
        out, self.log = self.log, []
        return out


class Tracer:
    """Instance-level wrappers around the console's public entry points and `_enter_buffer` / `_exit_buffer`:
    each *outermost* call is logged as one primitive event (name, args, kwargs, segments appended meanwhile);
    calls made from inside a logged call (print -> `with self:`, show_cursor -> control …) are not logged.
    The wrapped methods run unchanged."""

    NAMES = ("print", "log", "rule", "out", "line", "control", "bell", "clear", "show_cursor", "_enter_buffer", "_exit_buffer")

    def __init__(self, console, spy):
        self.events = []
        self.depth = 0
        self.call_line = None
        self.spy = spy
        for name in self.NAMES:
            setattr(console, name, self._wrap(name, getattr(console, name)))

    def _wrap(self, name, orig):
        def wrapper(*a, **kw):
            if self.depth:
                return orig(*a, **kw)
            self.depth += 1
            n0 = len(self.spy.log)
            try:
                self.call_line = sys._getframe().f_lineno + 1  # the line of the call below: `console.log` reports its caller
                return orig(*a, **kw)
            finally:
                self.depth -= 1
                self.events.append((name, a, kw, list(self.spy.log[n0:])))

        wrapper.__name__ = name
        return wrapper

    def take(self):
        out, self.events = self.events, []
        return out


class LogFile(io.StringIO):
    def __init__(self):
        super().__init__()
        self.writes = []

    def write(self, s):
        self.writes.append(s)
        return super().write(s)


# ------------------------------------------------------------------ canonical escape codes
_SGR = re.compile(r"\x1b\[([0-9;]*)m")
_OSC8_ID = re.compile(r"\x1b\]8;id=[^;\x1b]*;")


def _canon_params(params):
    """SGR parameters as they are.  (Until fix c9ec5a8 `Style._ansi` was cached without the colour system - F7 of C03 -
    and colour parameters had to be canonicalised away; they are compared exactly now.)"""
    return params


def loose_params(params):
    """SGR parameters with every colour replaced by F (foreground) / B (background): for comparing streams that were
    rendered for different colour systems (the file vs. the TRUECOLOR styled export)."""
    ps = params.split(";") if params else []
    out = []
    i = 0
    while i < len(ps):
        p = ps[i]
        n = int(p) if p.isdigit() else -1
        if n in (38, 48):
            tag = "F" if n == 38 else "B"
            if i + 1 < len(ps) and ps[i + 1] == "5":
                i += 3
            elif i + 1 < len(ps) and ps[i + 1] == "2":
                i += 5
            else:
                i += 1
            out.append(tag)
            continue
        if 30 <= n <= 37 or n == 39 or 90 <= n <= 97:
            out.append("F")
        elif 40 <= n <= 47 or n == 49 or 100 <= n <= 107:
            out.append("B")
        else:
            out.append(p)
        i += 1
    return ";".join(out)


def canon(s):
    """Strip link ids (they are random per Style object)."""
    return _OSC8_ID.sub("\x1b]8;id=;", s)


# ------------------------------------------------------------------ terminal stream tokenizer
_TOKEN = re.compile(
    r"\x1b\[([0-9:;<=>?]*)([ -/]*)([@-~])"  # CSI
    r"|\x1b\]([^\x07\x1b]*)(?:\x07|\x1b\\)"  # OSC
    r"|\x1b[@-Z\\^_]"  # other two-character escapes
    r"|([\x00-\x08\x0b-\x1f\x7f])"  # C0 controls except \t \n
    r"|([^\x00-\x08\x0b-\x1f\x7f\x1b]+)"  # text
    r"|(\x1b)",  # a lone ESC
    re.S,
)


def tokens(s):
    """-> list of ('text', str) | ('sgr', params) | ('link', url-or-None) | ('ctl', raw)."""
    out = []
    for m in _TOKEN.finditer(s):
        if m.group(6) is not None:
            out.append(("text", m.group(6)))
        elif m.group(3) is not None:
            if m.group(3) == "m" and not m.group(2):
                out.append(("sgr", m.group(1)))
            else:
                out.append(("ctl", m.group(0)))
        elif m.group(4) is not None:
            body = m.group(4)
            if body.startswith("8;"):
                _, _params, url = body.split(";", 2)
                out.append(("link", url or None))
            else:
                out.append(("ctl", m.group(0)))
        else:
            out.append(("ctl", m.group(0)))
    return out


def visible(s):
    """The visible text of a terminal stream: everything except escape sequences and control codes."""
    return "".join(t[1] for t in tokens(s) if t[0] == "text")


def decode(s):
    """-> [(char, canonical SGR parameters or None, link or None)] for the visible characters.
    Rich wraps each styled run as ESC[<params>m text ESC[0m, so the state is the last SGR (0 / empty resets)."""
    out = []
    sgr = None
    link = None
    for kind, val in tokens(s):
        if kind == "text":
            out.extend((c, sgr, link) for c in val)
        elif kind == "sgr":
            c = _canon_params(val)
            sgr = None if c in ("", "0") else c
        elif kind == "link":
            link = val
    return out


# ------------------------------------------------------------------ HTML reader
class _Reader(html.parser.HTMLParser):
    def __init__(self):
        super().__init__(convert_charrefs=True)
        self.in_pre = 0
        self.in_style = False
        self.stack = []  # (tag, rule-or-class, link)
        self.chars = []  # (char, ("style", rule) | ("class", n) | None, link)
        self.css = []
        self.bad = []

    def handle_starttag(self, tag, attrs):
        a = dict(attrs)
        if tag == "pre":
            self.in_pre += 1
        elif tag == "style":
            self.in_style = True
        elif self.in_pre and tag == "span":
            if "style" in a:
                self.stack.append(("span", ("style", a["style"])))
            elif "class" in a:
                self.stack.append(("span", ("class", a["class"])))
            else:
                self.bad.append(("span without style/class", attrs))
                self.stack.append(("span", None))
        elif self.in_pre and tag == "a":
            self.stack.append(("a", a.get("href")))
            if set(a) != {"href"}:
                self.bad.append(("unexpected attributes on <a>", attrs))
        elif self.in_pre:
            self.bad.append(("unexpected tag", tag))

    def handle_endtag(self, tag):
        if tag == "pre":
            self.in_pre -= 1
        elif tag == "style":
            self.in_style = False
        elif self.in_pre and tag in ("span", "a"):
            if not self.stack or self.stack[-1][0] != tag:
                self.bad.append(("unbalanced end tag", tag))
            else:
                self.stack.pop()

    def handle_data(self, data):
        if self.in_style:
            self.css.append(data)
        elif self.in_pre:
            span = None
            link = None
            for tag, v in self.stack:
                if tag == "span":
                    span = v
                else:
                    link = v
            self.chars.extend((c, span, link) for c in data)


_CSS_RULE = re.compile(r"^\.(r\d+) \{(.*)\}$")


def read_html(doc):
    """-> ([(char, css rule or None, link or None)], problems) for the text inside <pre>."""
    r = _Reader()
    if "<pre" not in doc:  # a code_format without <pre>: the whole document is the code
        r.in_pre = 1
    r.feed(doc)
    r.close()
    classes = {}
    for line in "".join(r.css).split("\n"):
        m = _CSS_RULE.match(line)
        if m:
            if m.group(1) in classes:
                r.bad.append(("class defined twice", m.group(1)))
            classes[m.group(1)] = m.group(2)
    out = []
    for c, span, link in r.chars:
        if span is None:
            rule = None
        elif span[0] == "style":
            rule = span[1]
        else:
            rule = classes.get(span[1])
            if rule is None:
                r.bad.append(("class without rule", span[1]))
                rule = "?" + str(span[1])
        out.append((c, rule, link))
    if r.stack:
        r.bad.append(("unclosed tags", list(r.stack)))
    return out, r.bad
