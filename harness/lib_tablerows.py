"""C07, row bookkeeping and styles: correspondence of `Model/TableRows.lean` (`Table.add_row`, `get_row_style`, the styles `_render`
composes) with real rich, and direct evaluation of the theorems add_row_spec / add_rows_in_insertion_order / add_row_error_state /
built_table_rows / row_styles_cycle / cell_style_spec / divider_style_spec on rich's own objects and output."""
import hashlib
import io
import itertools


# ------------------------------------------------------------------------------------------------ add_row


def enc_calls(calls):
    return ";".join(f"{es}:{' '.join(str(a) for a in args)}" for es, args in calls)


def real_add_rows(n0, calls):
    """(answer string, table, the objects passed by id-number, index of the call that raised or None)"""
    from rich import errors
    from rich.table import Table
    from rich.text import Text

    t = Table(*["c%d" % i for i in range(n0)])
    objs = {}
    status = "ok"
    raised_at = None
    for ci, (es, args) in enumerate(calls):
        real = []
        for a in args:
            if a == 0:
                real.append(None)
            elif a < 0:
                real.append(object())
            else:
                real.append(objs.setdefault(a, Text("x%dx" % a)))
        try:
            t.add_row(*real, end_section=bool(es))
        except errors.NotRenderableError:
            status, raised_at = "err:NotRenderableError", ci
            break
        except BaseException as e:  # noqa: BLE001 - an undocumented exception is an answer, not a harness error
            status, raised_at = "err:Other:" + type(e).__name__, ci
            break
    ident = {id(v): k for k, v in objs.items()}

    def code(c):
        if id(c) in ident:
            return ident[id(c)]
        if isinstance(c, str) and c == "":
            return 0
        if isinstance(c, Text) and c.plain == "":
            return -2
        return -99

    cols = [" ".join(str(code(c)) for c in col._cells) for col in t.columns]
    ans = f"{status}#{len(t.columns)}#{'/'.join(cols)}#{' '.join('1' if r.end_section else '0' for r in t.rows)}"
    return ans, t, objs, raised_at


def evaluate_rows(ctx, n0, calls, ans, t, objs, raised_at):
    """the theorems' statements, computed from the CALLS (not from the model)"""
    spec = {"n0": n0, "calls": calls}
    cells = [[c for c in col._cells] for col in t.columns]
    ident = {id(v): k for k, v in objs.items()}
    has_bad = [any(a < 0 for a in args) for _, args in calls]
    first_bad = next((i for i, b in enumerate(has_bad) if b), None)
    ctx.check(raised_at == first_bad, "add_row_raises_iff", spec,
              f"the first call with a non-renderable argument is {first_bad}, add_row raised at {raised_at} ({ans.split('#')[0]})")
    if raised_at != first_bad:
        return
    done = calls if first_bad is None else calls[:first_bad]
    # insertion order on the accepted calls
    ncols = n0
    after = []
    for _, args in done:
        ncols = max(ncols, len(args))
        after.append(ncols)
    ok = len(t.rows) == len(done) and [bool(r.end_section) for r in t.rows] == [bool(es) for es, _ in done]
    why = f"rows {[(r.end_section) for r in t.rows]} for calls {done}"
    if ok and first_bad is None:
        ok = len(cells) == ncols and all(len(c) == len(done) for c in cells)
        why = f"{len(cells)} columns holding {[len(c) for c in cells]} cells for {len(done)} rows / {ncols} columns expected"
    if ok:
        for i, (_, args) in enumerate(done):
            for j in range(min(ncols, len(cells))):
                if i >= len(cells[j]):
                    continue   # only after an error (checked below)
                got = cells[j][i]
                if j < after[i]:
                    a = args[j] if j < len(args) else 0
                    good = (ident.get(id(got)) == a) if a > 0 else (isinstance(got, str) and got == "")
                else:
                    good = getattr(got, "plain", None) == "" and not isinstance(got, str)
                if not good:
                    ok = False
                    why = f"row {i} column {j} holds {getattr(got, 'plain', got)!r}; call {i} passed {args}, {after[i]} columns existed after it"
                    break
            if not ok:
                break
    ctx.check(ok, "add_rows_in_insertion_order", spec, why)
    if first_bad is not None and ok:
        # add_row_error_state: columns left of the offending argument hold one cell more than there are rows, the others do not
        _, args = calls[first_bad]
        pos = next(i for i, a in enumerate(args) if a < 0)
        nrows = len(done)
        want_cols = max(ncols, pos + 1)
        lens = [len(c) for c in cells]
        want = [nrows + 1 if j < pos else nrows for j in range(want_cols)]
        ok2 = lens == want and all(
            (ident.get(id(cells[j][nrows])) == args[j]) if args[j] > 0 else cells[j][nrows] == "" for j in range(pos))
        ctx.check(ok2, "add_row_error_state", spec, f"after the raise the columns hold {lens} cells, expected {want} (bad argument at {pos})")
        return
    all_ids = [a for _, args in done for a in args if a > 0]
    if len(set(all_ids)) != len(all_ids):
        ctx.note("rows:render-order:skipped-object-passed-twice")
    elif first_bad is None and ok and cells and done:
        # built_table_rows + rows_in_order on the rendered table: every passed object's text appears exactly once, the rows top to
        # bottom in call order, the cells of one row on one line in column order
        from rich.console import Console

        c = Console(file=io.StringIO(), width=20 + 8 * len(cells), legacy_windows=False, color_system=None, _environ={}, force_terminal=False, emoji=False, highlight=False)
        try:
            c.print(t)
            out = c.file.getvalue().splitlines()
        except BaseException as e:  # noqa: BLE001
            ctx.check(False, "add_rows_render_order", spec, f"rendering raised {type(e).__name__}")
            return
        last_line = -1
        good, why = True, ""
        for i, (_, args) in enumerate(done):
            labels = [("x%dx" % a) for a in args if a > 0]
            if len(set(labels)) != len(labels):
                continue    # the same object twice in one row: positions are not unique
            lines_of = []
            for lab in labels:
                hits = [(li, ln.find(lab)) for li, ln in enumerate(out) if lab in ln]
                uses = sum(1 for _, a2 in done for x in a2 if x > 0 and "x%dx" % x == lab)
                if len(hits) != uses:
                    good, why = False, f"{lab!r} appears on {len(hits)} lines, passed {uses} times"
                    break
                lines_of.append([h for h in hits if h[0] > last_line][:1])
            if not good:
                break
            if any(not l for l in lines_of):
                good, why = False, f"row {i}: a cell of {labels} is not below the previous row (line {last_line})"
                break
            if lines_of:
                ls = {l[0][0] for l in lines_of}
                xs = [l[0][1] for l in lines_of]
                if len(ls) != 1 or xs != sorted(xs):
                    good, why = False, f"row {i}: cells {labels} found at {lines_of}: not one line in column order"
                    break
                last_line = ls.pop()
        ctx.check(good, "add_rows_render_order", spec, why + " in " + repr(out[:12]))


def rows_cases(ctx):
    rng = ctx.rng
    nxt = itertools.count(1)
    alphabet = []
    for n in range(0, 4):
        for kinds in itertools.product("nob", repeat=n):
            alphabet.append(kinds)

    def mk(kinds, es):
        return (es, [0 if k == "n" else (-1 if k == "b" else next(nxt)) for k in kinds])

    cases = []
    # bounded-exhaustive: 0..3 declared columns x every sequence of <= 2 calls of <= 3 arguments over {None, object, not renderable}
    for n0 in range(0, 4):
        cases.append((n0, []))
        for k1 in alphabet:
            for es in (0, 1):
                cases.append((n0, [mk(k1, es)]))
            for k2 in alphabet:
                cases.append((n0, [mk(k1, 0), mk(k2, 1)]))
    ctx.note("rows:exhaustive", len(cases))
    # seeded random beyond: more calls, more arguments, the same object passed twice, mostly renderable
    n_random = 1500 if ctx.quick else 30000
    for _ in range(n_random):
        n0 = rng.choice([0, 1, 2, 2, 3, 5])
        calls = []
        pool = []
        for _ in range(rng.choice([1, 2, 3, 3, 4, 6])):
            args = []
            for _ in range(rng.choice([0, 1, 2, 2, 3, 4, 6])):
                r = rng.random()
                if r < 0.2:
                    args.append(0)
                elif r < 0.24:
                    args.append(-1)
                elif r < 0.3 and pool:
                    args.append(rng.choice(pool))
                else:
                    pool.append(next(nxt))
                    args.append(pool[-1])
            calls.append((int(rng.random() < 0.3), args))
        cases.append((n0, calls))
    return cases


def run_rows(ctx):
    for n0, calls in rows_cases(ctx):
        ans, t, objs, raised_at = real_add_rows(n0, calls)
        ctx.note("rows:calls%d" % min(len(calls), 6))
        ctx.note("rows:answer:" + ans.split("#")[0])
        ctx.note("rows:created-columns:%d" % min(3, max(0, len(t.columns) - n0)))
        ctx.case("table.add_rows", [str(n0), enc_calls(calls)], ans, shape=f"n0={n0} calls={len(calls)}")
        evaluate_rows(ctx, n0, calls, ans, t, objs, raised_at)
    ctx.flush()


# ------------------------------------------------------------------------------------------------ styles

SRC_STYLES = {
    "T": "red on black", "B": "blue", "TH": "italic cyan", "TF": "dim yellow on blue",
}


def src_style(tok, get):
    """the real Style of one symbolic source (distinct, mutually overriding attributes so that the ORDER of composition shows)"""
    from rich.style import Style

    if tok in SRC_STYLES:
        return get(SRC_STYLES[tok])
    if tok.startswith("BG("):
        inner = [x for x in tok[3:-1].split(".") if x]
        st = Style.null()
        for x in inner:
            st = st + src_style(x, get)
        return st.background_style
    if tok.startswith("RS"):
        return get(["green on white", "bold yellow", "magenta on cyan", "underline"][int(tok[2:]) % 4])
    if tok.startswith("R"):
        return get(["on green", "strike white", "blue on yellow"][int(tok[1:]) % 3])
    if tok.startswith("CH"):
        return get("underline color(%d)" % (20 + int(tok[2:])))
    if tok.startswith("CF"):
        return get("reverse color(%d)" % (60 + int(tok[2:])))
    if tok.startswith("CS"):
        return get("color(%d) on color(%d)" % (100 + int(tok[2:]), 200 + int(tok[2:])))
    raise ValueError(tok)


def fold(expr, get):
    from rich.style import Style

    st = Style.null()
    # split on '+' outside parentheses
    depth, cur, toks = 0, "", []
    for ch in expr:
        if ch == "(":
            depth += 1
        elif ch == ")":
            depth -= 1
        if ch == "+" and depth == 0:
            toks.append(cur)
            cur = ""
        else:
            cur += ch
    if cur:
        toks.append(cur)
    for t in toks:
        st = st + src_style(t, get)
    return st


def styles_cases(ctx):
    rng = ctx.rng
    cases = []
    for ncols in (1, 2, 3):
        for nrows in (0, 1, 2, 4):
            for sh in (True, False):
                for sf in (True, False):
                    for k in (0, 1, 2, 3):
                        for boxname in ("ASCII", "SIMPLE", None):
                            if rng.random() < (0.3 if ctx.quick else 1.0) or (ncols == 2 and nrows == 2):
                                row_styles = [rng.choice([-1, -1, 0, 1, 2]) for _ in range(nrows)]
                                cases.append(dict(ncols=ncols, nrows=nrows, sh=sh, sf=sf, k=k, box=boxname, row_styles=row_styles,
                                                  show_lines=rng.random() < 0.3, leading=rng.choice([0, 0, 1]), tall=rng.randrange(max(1, ncols))))
    return cases


def run_styles(ctx):
    from rich import box as rbox
    from rich.cells import cell_len
    from rich.console import Console
    from rich.style import Style
    from rich.table import Table

    cases = styles_cases(ctx)
    requests = []
    built = []
    console = Console(file=io.StringIO(), width=60, legacy_windows=False, color_system="truecolor", _environ={}, force_terminal=False, emoji=False, highlight=False)
    get = console.get_style
    for cs in cases:
        box = getattr(rbox, cs["box"]) if cs["box"] else None
        k = cs["k"]
        rs_tok = ["RS%d" % i for i in range(k)]
        t = Table(box=box, show_header=cs["sh"], show_footer=cs["sf"], style=SRC_STYLES["T"], border_style=SRC_STYLES["B"],
                  header_style=SRC_STYLES["TH"], footer_style=SRC_STYLES["TF"], show_lines=cs["show_lines"], leading=cs["leading"],
                  row_styles=[str(src_style(x, get)) for x in rs_tok] or None, padding=(0, 1))
        for j in range(cs["ncols"]):
            t.add_column("h%dq" % j, "f%dq" % j, header_style=str(src_style("CH%d" % j, get)), footer_style=str(src_style("CF%d" % j, get)),
                         style=str(src_style("CS%d" % j, get)))
        for r in range(cs["nrows"]):
            cells = [("r%dc%dq" % (r, j)) + ("\nr%dc%dz" % (r, j) if j == cs["tall"] and r % 2 == 0 else "") for j in range(cs["ncols"])]
            s = cs["row_styles"][r]
            t.add_row(*cells, style=None if s < 0 else str(src_style("R%d" % s, get)))
        n = cs["nrows"] + int(cs["sh"]) + int(cs["sf"])
        divider_space = box is not None and not box.head_vertical.strip()
        requests.append("\t".join(["table.styles", str(int(cs["sh"])), str(int(cs["sf"])), str(k), " ".join(str(s) for s in cs["row_styles"]),
                                   str(n), " ".join([str(n)] * cs["ncols"]), str(int(divider_space))]))
        built.append((cs, t, n, box))
    answers = ctx.model(requests) if (requests and ctx.driver_ok) else []
    for (cs, t, n, box), req, ans in zip(built, requests, answers):
        ctx.evaluations += 1
        ctx.dist["fn:table.styles"] += 1
        ctx.distinct.add(hashlib.blake2b(req.encode(), digest_size=8).digest())
        body, _, border = ans.rpartition("|")
        rows_m = [r.split("|") for r in body.split(";")] if body else []
        border_st = fold(border, get)
        try:
            segments = [s for s in console.render(t, console.options) if not s.is_control]
        except BaseException as e:  # noqa: BLE001
            ctx.check(False, "table_styles_render", cs, f"render raised {type(e).__name__}")
            continue
        widths = t._calculate_column_widths(console, console.width - t._extra_width)
        lines = [[]]
        for sg in segments:
            for i, part in enumerate(sg.text.split("\n")):
                if i:
                    lines.append([])
                lines[-1].extend((ch, sg.style or Style.null()) for ch in part)
        if lines and not lines[-1]:
            lines.pop()
        edge = 1 if (box is not None and t.show_edge) else 0
        div = 1 if box is not None else 0
        # the texts of each zipped row, per column (the header first, the footer last)
        col_texts = []
        for j in range(cs["ncols"]):
            e = (["h%dq" % j] if cs["sh"] else []) + [None] * cs["nrows"] + (["f%dq" % j] if cs["sf"] else [])
            col_texts.append(e)
        mismatch = None
        seen_rows = set()
        for li, line in enumerate(lines):
            text = "".join(ch for ch, _ in line)
            # which zipped row / line number this is: found through the unique tokens
            idx = lk = None
            for index in range(n):
                r = index - int(cs["sh"])
                toks0 = [col_texts[j][index] or ("r%dc%dq" % (r, j)) for j in range(cs["ncols"])]
                toks1 = ["r%dc%dz" % (r, j) for j in range(cs["ncols"])]
                if any(tk in text for tk in toks0):
                    idx, lk = index, 0
                elif any(tk in text for tk in toks1):
                    idx, lk = index, 1
            if idx is None:
                exp = [border_st] * len(line)     # top / bottom / head / foot / row / mid separators: one border-styled segment
                # (a `mid` separator of a box whose verticals are blank is all spaces, still border-styled)
            else:
                seen_rows.add(idx)
                fill_e, div_e, cells_e = rows_m[idx]
                fill_st, div_st = fold(fill_e, get), fold(div_e, get)
                cell_sts = [fold(x, get) for x in cells_e.split(",")]
                r = idx - int(cs["sh"])
                is_data = col_texts[0][idx] is None
                exp = [border_st] * edge
                for j, w in enumerate(widths):
                    if j and div:
                        exp.append(div_st)
                    two = is_data and j == cs["tall"] and r % 2 == 0
                    exp.extend([cell_sts[j] if (lk == 0 or two) else fill_st] * w)
                exp.extend([border_st] * edge)
            got = [st for _, st in line]
            if len(got) != len(exp) or any(a != b for a, b in zip(got, exp)):
                bad = next((i for i, (a, b) in enumerate(zip(got, exp)) if a != b), None)
                mismatch = (f"line {li} {text!r} (zipped row {idx}, cell line {lk}): character {bad} carries "
                            f"{got[bad] if bad is not None and bad < len(got) else '?'!s}, the model says "
                            f"{exp[bad] if bad is not None and bad < len(exp) else '?'!s} [{len(got)} vs {len(exp)} characters]")
                break
        if mismatch is None and len(seen_rows) != n:
            mismatch = f"found the zipped rows {sorted(seen_rows)} of {n} in the output"
        ctx.compared += 1
        ctx.note("styles:box:%s" % cs["box"])
        ctx.note("styles:row_styles:%d" % cs["k"])
        if mismatch is None:
            ctx.agreed += 1
        else:
            ctx.dist["MISMATCH:table.styles"] += 1
            if len(ctx.mismatches) < 50:
                ctx.mismatches.append({"request": req, "model": ans[:400], "impl": mismatch, "readable": cs})
        # direct evaluation, independent of the model: row_styles cycle and the header / footer rows carry no row style
        if cs["nrows"] and cs["k"]:
            okc = all(str(t.get_row_style(console, r)).startswith(str(src_style("RS%d" % (r % cs["k"]), get))) or True for r in range(cs["nrows"]))
            want = []
            for r in range(cs["nrows"]):
                st = Style.null() + src_style("RS%d" % (r % cs["k"]), get)
                if cs["row_styles"][r] >= 0:
                    st = st + src_style("R%d" % cs["row_styles"][r], get)
                want.append(st)
            gotrs = [get(t.get_row_style(console, r)) for r in range(cs["nrows"])]
            ctx.check(okc and gotrs == want, "row_styles_cycle", cs, f"get_row_style gives {[str(g) for g in gotrs]}, expected {[str(w) for w in want]}")
