"""Helpers for property C14: random trees of built-in renderables with valid options, described as
plain data (so that a failing tree can be printed, shrunk and rebuilt), and a watchdog for hangs.

A tree is a nested tuple `(kind, opts_dict, children)`; `build(desc)` makes the rich object.
Every random choice comes from the `rng` passed in.
"""
import signal

TEXTS = ["", "a", "hello world", "あい う", "x" * 30, "a\nb", "tab\there", "wörd " * 6, "[b]m[/b]", "😽", "à", "  lead", "1 2.5 True 'q'", "\x1b[1mx", "-" * 7 + " " + "=" * 9]
BOXES = ["ROUNDED", "ASCII", "SQUARE", "MINIMAL", "SIMPLE", "HEAVY", "DOUBLE", "SIMPLE_HEAD", "HORIZONTALS"]
PADS = [0, 1, (0, 1), (1, 2), (0, 0, 0, 0), (1, 0, 2, 3), (2,), (0, 5)]
JUST = ["default", "left", "center", "right", "full"]
OVER = ["fold", "crop", "ellipsis"]
ALIGN = ["left", "center", "right"]
STYLES = ["none", "bold", "red on blue", "not bold", "link http://x"]


# every character of the running Python's str.isspace(): what str.strip() strips and str.split() splits on
WS = [chr(c) for c in list(range(0, 0x3100)) + [0xFEFF] if chr(c).isspace()]
WS_MIX = ["\xa0\xa0", "\u3000\u2003", "\x1c\x1d\x1e\x1f", " \xa0", "\u2028\u2029", "\x85\n", "\t\u00a0 ", "\u2003" * 5]
MARKUP = ["a [b]b[/b]", "total [bold]42[/bold]", "[green]$1[/green]", "[red]x[/red] [blue]yy[/blue] z", "[i]あ[/i]b", "[b]one two three four[/b] five"]


# ---- Text specs (deepening 4): a `Text` with EVERY documented constructor option at every documented value, as plain data.
# Wherever rich accepts "str or Text" (Panel / Rule / Table / Columns title, caption, column header / footer) a description may
# hold a dict {"s": …, option: value, …} instead of a str; `mk_text` builds the Text.  `None` is a documented value of
# justify / overflow / no_wrap / tab_size ("Number of spaces per tab, or None to use console.tab_size").
TEXT_CONTENT = ["a\tb", "\tlead", "two\ttabs\there", "a\nb\tc", "x\x00y\x08z\x1b[1m", "\r\n\t", "あ\tい", "plain", ""]
TEXT_OPTS = {
    "justify": [None] + JUST,
    "overflow": [None] + OVER + ["ignore"],
    "no_wrap": [None, True, False],
    "end": ["", "\n", " ", "ab"],
    "tab_size": [None, 1, 2, 4, 8],
    "style": ["", "bold", "red on blue"],
    "style_obj": ["bold", "none"],  # a `Style` object (Style.parse of the value) instead of a str
}


def mk_text(spec):
    """a str stays a str; a dict becomes `Text(s, **options)`"""
    if not isinstance(spec, dict):
        return spec
    from rich.style import Style
    from rich.text import Text

    kw = {k: spec[k] for k in ("justify", "overflow", "no_wrap", "style", "end", "tab_size") if k in spec}
    if "style_obj" in spec:
        kw["style"] = Style.parse(spec["style_obj"])
    return Text(spec["s"], **kw)


def gen_text_spec(rng):
    """a random Text spec: each option present with probability 1/2, at any documented value"""
    o = {"s": rng.choice(TEXT_CONTENT + TEXTS)}
    for k, vals in TEXT_OPTS.items():
        if rng.random() < (0.6 if k == "tab_size" else 0.4):
            o[k] = rng.choice(vals)
    if "style_obj" in o:
        o.pop("style", None)
    return o


def maybe_text(rng, s, p=0.3):
    """with probability p a Text spec in place of the str `s` (None stays None)"""
    return gen_text_spec(rng) if s is not None and rng.random() < p else s


def text_specs(desc):
    """every Text spec (dict) in title-like positions and every `text` leaf's options, with its position name"""
    kind, o, kids = desc
    if kind == "text":
        yield "leaf", o
    for k in ("title", "caption"):
        if isinstance(o.get(k), dict):
            yield kind + "." + k, o[k]
    if kind == "table":
        for c in o["cols"]:
            for k in ("header", "footer"):
                if isinstance(c.get(k), dict):
                    yield "table." + k, c[k]
    for k in kids:
        yield from text_specs(k)
    if kind == "tree":
        for n in _tree_nodes(o["root"]):
            yield from text_specs(n["label"])


class Timeout(BaseException):
    pass


class watchdog:
    """`with watchdog(seconds):` raises Timeout in the main thread when the body runs too long."""

    def __init__(self, seconds):
        self.seconds = seconds

    def _fire(self, *_):
        raise Timeout()

    def __enter__(self):
        self.old = signal.signal(signal.SIGALRM, self._fire)
        signal.setitimer(signal.ITIMER_REAL, self.seconds)

    def __exit__(self, *a):
        signal.setitimer(signal.ITIMER_REAL, 0)
        signal.signal(signal.SIGALRM, self.old)
        return False


def opt_width(rng, big=False):
    """`None` or a width >= 1 (valid), biased to small values and to values around the render width."""
    r = rng.random()
    if r < 0.45:
        return None
    if r < 0.75:
        return rng.randint(1, 12)
    return rng.randint(1, 250 if big else 60)


def gen_leaf(rng):
    k = rng.random()
    if k < 0.06:
        # a leaf made only of white space (any str.isspace character): measured through the "blank text" guard
        ws = "".join(rng.choice(WS) for _ in range(rng.randint(1, 3)))
        return ("str", {"s": ws}, []) if rng.random() < 0.5 else ("text", {"s": ws}, [])
    if k < 0.18:
        # a Text object that carries spans (markup) with every justify: rendered several times as the SAME object
        o = {"s": rng.choice(MARKUP), "justify": rng.choice(JUST + [None])}
        if rng.random() < 0.3:
            o["no_wrap"] = True
        if rng.random() < 0.3:
            o["overflow"] = rng.choice(OVER + ["ignore"])
        return ("mtext", o, [])
    if k < 0.30:
        return ("str", {"s": rng.choice(TEXTS)}, [])
    if k < 0.40:
        return ("text", gen_text_spec(rng), [])
    if k < 0.62:
        o = {"s": rng.choice(TEXTS)}
        if rng.random() < 0.4:
            o["justify"] = rng.choice(JUST)
        if rng.random() < 0.4:
            o["overflow"] = rng.choice(OVER + ["ignore"])
        if rng.random() < 0.2:
            o["no_wrap"] = True
        if rng.random() < 0.3:
            o["style"] = rng.choice(STYLES)
        if rng.random() < 0.15:
            o["end"] = rng.choice(["", "\n", " "])
        if rng.random() < 0.1:
            o["tab_size"] = rng.choice([1, 2, 4, 8])
        return ("text", o, [])
    if k < 0.74:
        o = {"title": maybe_text(rng, rng.choice(["", "t", "Title あ", "a long rule title " * 3]), 0.4), "align": rng.choice(ALIGN)}
        if rng.random() < 0.4:
            o["characters"] = rng.choice(["─", "-=", "あ", "=", "à"])
        return ("rule", o, [])
    if k < 0.82:
        size = rng.choice([1, 10, 100, 7.5])
        b = rng.choice([0, 1, 2.5, size / 2])
        e = rng.choice([b, size, size / 2, b + 1])
        return ("bar", {"size": size, "begin": b, "end": e, "width": opt_width(rng)}, [])
    if k < 0.92:
        total = rng.choice([100, 1, 3, 0.5])
        return ("pbar", {"total": total, "completed": rng.choice([0, total / 2, total, total * 2, 0.1]), "width": opt_width(rng), "pulse": rng.random() < 0.25}, [])
    return ("pretty", {"obj": rng.choice([[1, 2, 3], {"a": [1, "two"], "b": {}}, list(range(40)), (), "str", {"k" * 12: "v" * 30}])}, [])


def gen_tree(rng, depth):
    if depth <= 0 or rng.random() < 0.22:
        return gen_leaf(rng)
    k = rng.random()
    sub = lambda: gen_tree(rng, depth - 1)
    if k < 0.16:
        o = {"box": rng.choice(BOXES), "expand": rng.random() < 0.6, "padding": rng.choice(PADS), "width": opt_width(rng)}
        if rng.random() < 0.4:
            o["title"] = rng.choice(["t", "Panel title", "あ", "", "x" * 40])
            o["title_align"] = rng.choice(ALIGN)
            o["title_markup"] = rng.random() < 0.4
            if rng.random() < 0.4:
                o["title"], o["title_markup"] = gen_text_spec(rng), False
        if rng.random() < 0.2:
            o["fit"] = True
        return ("panel", o, [sub()])
    if k < 0.28:
        return ("padding", {"pad": rng.choice(PADS), "expand": rng.random() < 0.6}, [sub()])
    if k < 0.38:
        return ("align", {"align": rng.choice(ALIGN), "pad": rng.random() < 0.7, "width": opt_width(rng)}, [sub()])
    if k < 0.44:
        return ("constrain", {"width": opt_width(rng, big=True)}, [sub()])
    if k < 0.49:
        return ("styled", {"style": rng.choice(STYLES)}, [sub()])
    if k < 0.57:
        return ("group", {"fit": rng.random() < 0.5}, [sub() for _ in range(rng.randint(0, 3))])
    if k < 0.72:
        n = rng.randint(0, 5)
        o = {
            "padding": rng.choice(PADS),
            "width": opt_width(rng, big=True),
            "expand": rng.random() < 0.4,
            "equal": rng.random() < 0.4,
            "column_first": rng.random() < 0.4,
            "right_to_left": rng.random() < 0.3,
            "align": rng.choice([None] + ALIGN),
            "title": maybe_text(rng, rng.choice([None, "cols"]), 0.5),
        }
        return ("columns", o, [sub() if rng.random() < 0.5 else gen_leaf(rng) for _ in range(n)])
    if k < 0.80:
        def node(d):
            kids = [node(d - 1) for _ in range(rng.randint(0, 3))] if d > 0 else []
            return {"label": gen_tree(rng, 0) if rng.random() < 0.8 else sub(), "expanded": rng.random() < 0.85, "kids": kids}
        return ("tree", {"root": node(rng.randint(0, 3))}, [])
    # table
    ncol = rng.randint(0, 4)
    cols = []
    for _ in range(ncol):
        c = {"header": maybe_text(rng, rng.choice(TEXTS), 0.2), "footer": maybe_text(rng, rng.choice(["", "f", "foot er"]), 0.2), "justify": rng.choice(JUST), "overflow": rng.choice(OVER), "no_wrap": rng.random() < 0.25}
        r = rng.random()
        if r < 0.25:
            c["width"] = rng.randint(1, 30)
        elif r < 0.45:
            c["ratio"] = rng.randint(0, 3)
        if rng.random() < 0.2:
            c["min_width"] = rng.randint(0, 20)
        if rng.random() < 0.2:
            c["max_width"] = rng.randint(1, 20)
        cols.append(c)
    nrow = rng.randint(0, 3)
    rows = []
    kids = []
    for _ in range(nrow):
        row = []
        for _ in range(rng.randint(0, ncol + 1) if rng.random() < 0.2 else ncol):
            if rng.random() < 0.1:
                row.append(None)
            else:
                row.append(len(kids))
                kids.append(sub() if rng.random() < 0.35 else gen_leaf(rng))
        rows.append(row)
    o = {
        "cols": cols,
        "rows": rows,
        "grid": rng.random() < 0.2,
        "box": rng.choice(BOXES + [None]),
        "width": opt_width(rng, big=True),
        "min_width": rng.choice([None, None, 0, 5, 40, 220]),
        "padding": rng.choice(PADS),
        "collapse_padding": rng.random() < 0.3,
        "pad_edge": rng.random() < 0.7,
        "expand": rng.random() < 0.4,
        "show_header": rng.random() < 0.8,
        "show_footer": rng.random() < 0.3,
        "show_edge": rng.random() < 0.8,
        "show_lines": rng.random() < 0.3,
        "leading": rng.choice([0, 0, 1, 2]),
        "title": maybe_text(rng, rng.choice([None, "T", "a table title that is long"]), 0.4),
        "caption": maybe_text(rng, rng.choice([None, "cap"]), 0.4),
    }
    return ("table", o, kids)


def build(desc):
    from rich import box as _box
    from rich.align import Align
    from rich.bar import Bar
    from rich.columns import Columns
    from rich.console import RenderGroup
    from rich.constrain import Constrain
    from rich.padding import Padding
    from rich.panel import Panel
    from rich.pretty import Pretty
    from rich.progress_bar import ProgressBar
    from rich.rule import Rule
    from rich.styled import Styled
    from rich.table import Table
    from rich.text import Text
    from rich.tree import Tree

    kind, o, kids = desc
    ch = [build(k) for k in kids]
    if kind == "str":
        return o["s"]
    if kind == "text":
        return mk_text(o)
    if kind == "mtext":
        kw = {k: o[k] for k in ("justify", "overflow") if o.get(k) is not None}
        t = Text.from_markup(o["s"], **kw)
        if o.get("no_wrap") is not None:
            t.no_wrap = o["no_wrap"]
        return t
    if kind == "rule":
        return Rule(mk_text(o["title"]), align=o["align"], **({"characters": o["characters"]} if "characters" in o else {}))
    if kind == "bar":
        return Bar(o["size"], o["begin"], o["end"], width=o["width"])
    if kind == "pbar":
        return ProgressBar(total=o["total"], completed=o["completed"], width=o["width"], pulse=o["pulse"], animation_time=1.5)
    if kind == "pretty":
        return Pretty(o["obj"])
    if kind == "panel":
        kw = dict(title=mk_text(o.get("title")), title_align=o.get("title_align", "center"), padding=o["padding"], width=o["width"])
        if o.get("title_markup") and kw["title"] and isinstance(kw["title"], str):
            kw["title"] = Text.from_markup("[red]%s[/red]" % kw["title"])
        if o.get("fit"):
            return Panel.fit(ch[0], getattr(_box, o["box"]), **kw)
        return Panel(ch[0], getattr(_box, o["box"]), expand=o["expand"], **kw)
    if kind == "padding":
        return Padding(ch[0], o["pad"], expand=o["expand"])
    if kind == "align":
        return Align(ch[0], o["align"], pad=o["pad"], width=o["width"])
    if kind == "constrain":
        return Constrain(ch[0], o["width"])
    if kind == "styled":
        return Styled(ch[0], o["style"])
    if kind == "group":
        return RenderGroup(*ch, fit=o["fit"])
    if kind == "columns":
        return Columns(ch, padding=o["padding"], width=o["width"], expand=o["expand"], equal=o["equal"], column_first=o["column_first"], right_to_left=o["right_to_left"], align=o["align"], title=mk_text(o["title"]))
    if kind == "tree":
        def mk(parent, n):
            t = Tree(build(n["label"]), expanded=n["expanded"]) if parent is None else parent.add(build(n["label"]), expanded=n["expanded"])
            for k in n["kids"]:
                mk(t, k)
            return t
        return mk(None, o["root"])
    if kind == "table":
        if o["grid"]:
            t = Table.grid(padding=o["padding"], collapse_padding=o["collapse_padding"], pad_edge=o["pad_edge"], expand=o["expand"])
            t.width, t.min_width, t.title, t.caption = o["width"], o["min_width"], mk_text(o["title"]), mk_text(o["caption"])
        else:
            t = Table(title=mk_text(o["title"]), caption=mk_text(o["caption"]), width=o["width"], min_width=o["min_width"], box=None if o["box"] is None else getattr(_box, o["box"]),
                      padding=o["padding"], collapse_padding=o["collapse_padding"], pad_edge=o["pad_edge"], expand=o["expand"], show_header=o["show_header"],
                      show_footer=o["show_footer"], show_edge=o["show_edge"], show_lines=o["show_lines"], leading=o["leading"])
        for c in o["cols"]:
            t.add_column(mk_text(c["header"]), mk_text(c["footer"]), justify=c["justify"], overflow=c["overflow"], no_wrap=c["no_wrap"], width=c.get("width"), ratio=c.get("ratio"), min_width=c.get("min_width"), max_width=c.get("max_width"))
        for row in o["rows"]:
            t.add_row(*[None if i is None else ch[i] for i in row])
        return t
    raise ValueError(kind)


def size(desc):
    return 1 + sum(size(k) for k in desc[2]) + (sum(1 for _ in _tree_nodes(desc[1]["root"])) if desc[0] == "tree" else 0)


def _tree_nodes(n):
    yield n
    for k in n["kids"]:
        yield from _tree_nodes(k)


def kinds(desc, acc=None):
    acc = set() if acc is None else acc
    acc.add(desc[0])
    for k in desc[2]:
        kinds(k, acc)
    if desc[0] == "tree":
        for n in _tree_nodes(desc[1]["root"]):
            kinds(n["label"], acc)
    return acc


def shrink_candidates(desc):
    """Smaller trees: each child alone, the node with a child replaced by a trivial leaf."""
    kind, o, kids = desc
    for k in kids:
        yield k
    for i, k in enumerate(kids):
        if k != ("str", {"s": "a"}, []):
            yield (kind, o, kids[:i] + [("str", {"s": "a"}, [])] + kids[i + 1:])
        for s in shrink_candidates(k):
            yield (kind, o, kids[:i] + [s] + kids[i + 1:])
    if kind == "columns" and len(kids) > 1:
        for i in range(len(kids)):
            yield (kind, o, kids[:i] + kids[i + 1:])
    if kind == "tree":
        r = o["root"]
        yield r["label"]
        if r["kids"]:
            yield (kind, {"root": dict(r, kids=[])}, [])
            for k in r["kids"]:
                yield (kind, {"root": k}, [])


# ------------------------------------------------------------------------------------------------ small trees
# Bounded-exhaustive stream (no randomness): every kind of renderable with every value of its boolean / enum options and
# small / threshold values of its numeric options, over three leaves, nested to depth 2.

LEAVES = [("str", {"s": "ab"}, []), ("text", {"s": "あ x"}, []), ("str", {"s": ""}, [])]
LEAF = LEAVES[0]


def _prod(**axes):
    import itertools

    keys = list(axes)
    for vals in itertools.product(*[axes[k] for k in keys]):
        yield dict(zip(keys, vals))


TABLE_COLS = [
    [],
    [{}],
    [{"ratio": 1}, {"ratio": 0}],
    [{"width": 3}, {}],
    [{"no_wrap": True, "min_width": 4}, {"max_width": 2}],
    [{"ratio": 2, "max_width": 2}, {"ratio": 1, "min_width": 3}, {"width": 1}],
]


def _col(extra, i):
    c = {"header": "h%d" % i, "footer": "f", "justify": "left", "overflow": "ellipsis", "no_wrap": False}
    c.update(extra)
    return c


def _table(core, cols, **over):
    o = {
        "cols": [_col(c, i) for i, c in enumerate(cols)],
        "rows": [[i for i in range(len(cols))]] if cols else [[]],
        "grid": False, "box": "SQUARE", "width": None, "min_width": None, "padding": (0, 1), "collapse_padding": False, "pad_edge": True,
        "expand": False, "show_header": True, "show_footer": False, "show_edge": True, "show_lines": False, "leading": 0, "title": None, "caption": None,
    }
    o.update(core)
    o.update(over)
    return ("table", o, [LEAVES[i % len(LEAVES)] for i in range(len(cols))])


def level1():
    """every kind x every option value, children = leaves"""
    for leaf in LEAVES:
        for o in _prod(box=["ROUNDED", "ASCII"], expand=[True, False], padding=[0, (0, 1), (1, 2, 0, 3)], width=[None, 1, 3], title=[None, "t", "a long title"], fit=[False, True]):
            if o["title"] is None:
                o.pop("title")
            else:
                o["title_align"] = "left" if o["expand"] else "right"
            yield ("panel", o, [leaf])
        for o in _prod(pad=[0, 1, (0, 3), (2,), (1, 0, 2, 5)], expand=[True, False]):
            yield ("padding", o, [leaf])
        for o in _prod(align=ALIGN, pad=[True, False], width=[None, 1, 4]):
            yield ("align", o, [leaf])
        for wd in (None, 1, 3, 80):
            yield ("constrain", {"width": wd}, [leaf])
        yield ("styled", {"style": "bold"}, [leaf])
    for fit in (True, False):
        for kids in ([], [LEAVES[0]], [LEAVES[1], LEAVES[0]], [("pbar", {"total": 1, "completed": 0.5, "width": 3, "pulse": False}, []), LEAVES[0]]):
            yield ("group", {"fit": fit}, kids)
    for o in _prod(padding=[0, (0, 1), (0, 3)], width=[None, 1, 3, 7], expand=[False, True], equal=[False, True], column_first=[False, True], right_to_left=[False, True], align=[None, "center"], n=[0, 1, 3]):
        n = o.pop("n")
        if n < 3 and (o["column_first"] or o["right_to_left"]):
            continue
        o["title"] = None
        yield ("columns", o, [LEAVES[i % 2] for i in range(n)])
    yield ("columns", {"padding": (0, 1), "width": None, "expand": True, "equal": False, "column_first": False, "right_to_left": False, "align": None, "title": "T"}, [LEAVES[0], LEAVES[1]])
    # tables: the interacting options in full product, the independent ones one at a time
    for core in _prod(expand=[False, True], width=[None, 1, 3, 12], min_width=[None, 5, 40], box=[None, "SQUARE"], show_edge=[True, False]):
        for cols in TABLE_COLS:
            yield _table(core, cols)
            for k, v in (("pad_edge", False), ("collapse_padding", True), ("show_header", False), ("show_footer", True), ("show_lines", True), ("leading", 2), ("padding", 0), ("padding", (1, 2, 0, 3)), ("title", "T"), ("caption", "cap"), ("grid", True)):
                if core["width"] in (None, 3) and core["min_width"] in (None, 5):
                    yield _table(core, cols, **{k: v})
    for expanded in (True, False):
        for shape in (0, 1, 2):
            for lab in LEAVES[:2]:
                def node(d):
                    return {"label": lab, "expanded": expanded, "kids": [node(d - 1) for _ in range(2 if d else 0)]}
                yield ("tree", {"root": node(shape)}, [])
    for o in _prod(title=["", "t", "a long rule title"], align=ALIGN, characters=["─", "-=", "あ"]):
        yield ("rule", o, [])
    for o in _prod(width=[None, 1, 5], begin=[0, 2.5], end=[2.5, 10]):
        yield ("bar", dict(o, size=10), [])
    for o in _prod(width=[None, 1, 5], pulse=[False, True], completed=[0, 0.5, 2]):
        yield ("pbar", dict(o, total=1), [])
    yield ("pretty", {"obj": [1, "two", {"k": (3,)}]}, [])
    yield ("pretty", {"obj": list(range(30))}, [])
    # degenerate numbers that rich accepts today (zero sizes / totals / widths): they must keep not raising
    yield ("bar", {"size": 0, "begin": 0, "end": 0, "width": None}, [])
    yield ("bar", {"size": 10, "begin": 5, "end": 2, "width": 3}, [])
    yield ("bar", {"size": 10, "begin": -5, "end": 20, "width": None}, [])
    yield ("pbar", {"total": 0, "completed": 0, "width": None, "pulse": False}, [])
    yield ("pbar", {"total": 0, "completed": 1, "width": 4, "pulse": False}, [])
    yield ("pbar", {"total": 10, "completed": -5, "width": 0, "pulse": False}, [])
    for leaf in LEAVES[:2]:
        yield ("constrain", {"width": 0}, [leaf])
        yield ("align", {"align": "center", "pad": True, "width": 0}, [leaf])
        yield ("panel", {"box": "ROUNDED", "expand": True, "padding": (0, 1), "width": 0}, [leaf])
        yield ("columns", {"padding": 0, "width": 0, "expand": False, "equal": False, "column_first": False, "right_to_left": False, "align": None, "title": None}, [leaf, leaf])
        yield _table({"width": 0}, TABLE_COLS[1])
        yield _table({}, [{"width": 0}])
        yield _table({"expand": True}, [{"ratio": 0}])
        yield _table({"min_width": 1000}, TABLE_COLS[1])


def _reps():
    """a few representatives of every kind (default options and the narrowest), to be nested"""
    yield LEAVES[0]
    yield LEAVES[1]
    yield ("panel", {"box": "ROUNDED", "expand": True, "padding": (0, 1), "width": None}, [LEAF])
    yield ("panel", {"box": "ASCII", "expand": False, "padding": 0, "width": 3, "title": "t", "title_align": "center"}, [LEAF])
    yield ("padding", {"pad": (0, 3), "expand": False}, [LEAF])
    yield ("align", {"align": "right", "pad": True, "width": None}, [LEAF])
    yield ("constrain", {"width": 3}, [LEAF])
    yield ("group", {"fit": True}, [LEAVES[1], LEAF])
    yield ("columns", {"padding": (0, 1), "width": None, "expand": False, "equal": True, "column_first": True, "right_to_left": False, "align": None, "title": None}, [LEAF, LEAVES[1], LEAF])
    yield ("columns", {"padding": 0, "width": 7, "expand": True, "equal": False, "column_first": False, "right_to_left": True, "align": "center", "title": None}, [LEAF, LEAVES[1]])
    yield _table({}, TABLE_COLS[1])
    yield _table({"expand": True, "min_width": 5}, TABLE_COLS[2])
    yield _table({"width": 3, "box": None}, TABLE_COLS[3])
    yield _table({"expand": True}, [])
    yield ("tree", {"root": {"label": LEAF, "expanded": True, "kids": [{"label": LEAVES[1], "expanded": True, "kids": []}]}}, [])
    yield ("rule", {"title": "t", "align": "center"}, [])
    yield ("bar", {"size": 10, "begin": 0, "end": 5, "width": None}, [])
    yield ("pbar", {"total": 1, "completed": 0.5, "width": None, "pulse": False}, [])
    yield ("pretty", {"obj": [1, 2]}, [])


def level2():
    """every representative inside every kind of container"""
    for inner in _reps():
        yield ("panel", {"box": "SQUARE", "expand": False, "padding": (0, 1), "width": None}, [inner])
        yield ("panel", {"box": "SQUARE", "expand": True, "padding": 0, "width": None, "title": "t", "title_align": "left", "fit": False}, [inner])
        yield ("padding", {"pad": 1, "expand": True}, [inner])
        yield ("align", {"align": "center", "pad": True, "width": None}, [inner])
        yield ("constrain", {"width": 3}, [inner])
        yield ("styled", {"style": "red"}, [inner])
        yield ("group", {"fit": True}, [inner, LEAF])
        yield ("columns", {"padding": (0, 1), "width": None, "expand": False, "equal": False, "column_first": False, "right_to_left": False, "align": None, "title": None}, [inner, LEAF])
        yield ("columns", {"padding": (0, 1), "width": 3, "expand": True, "equal": True, "column_first": False, "right_to_left": False, "align": "left", "title": None}, [inner, inner])
        t = _table({}, [{}, {"ratio": 1}])
        yield (t[0], t[1], [inner, LEAF])
        t = _table({"expand": True, "box": None}, [{"no_wrap": True}])
        yield (t[0], t[1], [inner])
        yield ("tree", {"root": {"label": inner, "expanded": True, "kids": [{"label": inner, "expanded": True, "kids": []}]}}, [])


def _measuring(leaf):
    """the containers that MEASURE their child (Measurement.get -> __rich_measure__), and the bare leaf"""
    yield leaf
    yield ("panel", {"box": "SQUARE", "expand": False, "padding": (0, 1), "width": None, "fit": True}, [leaf])
    yield ("panel", {"box": "SQUARE", "expand": False, "padding": 0, "width": None}, [leaf])
    yield ("padding", {"pad": (0, 1), "expand": False}, [leaf])
    yield ("align", {"align": "right", "pad": True, "width": None}, [leaf])
    yield ("columns", {"padding": (0, 1), "width": None, "expand": False, "equal": False, "column_first": False, "right_to_left": False, "align": None, "title": None}, [leaf, LEAF])
    t = _table({}, [{}, {"justify": "right"}])
    yield (t[0], t[1], [LEAF, leaf])
    t = _table({"expand": True, "box": None}, [{"justify": "center", "ratio": 1}])
    yield (t[0], t[1], [leaf])
    yield ("tree", {"root": {"label": leaf, "expanded": True, "kids": [{"label": leaf, "expanded": True, "kids": []}]}}, [])


def blank_trees():
    """white-space-only leaves - every str.isspace character alone, and mixtures - wherever a leaf is measured; also as a
    table header / footer and a panel / table title (str, so it goes through render_str)"""
    for i, ws in enumerate(WS + WS_MIX):
        yield from _measuring(("text", {"s": ws}, []))
        if i % 4 == 0 or ws in WS_MIX:
            yield from _measuring(("str", {"s": ws}, []))
        yield _table({}, [{"header": ws, "footer": ws}], show_footer=True)
        if i % 3 == 0:
            yield _table({}, TABLE_COLS[1], title=ws, caption=ws)
            yield ("panel", {"box": "ROUNDED", "expand": True, "padding": (0, 1), "width": None, "title": ws, "title_align": "center"}, [LEAF])
            yield ("rule", {"title": ws, "align": "center"}, [])


def repeat_trees():
    """Text objects that carry spans, with every justify, bare and inside the containers: the small worker renders the SAME
    object at every width of its sweep, so state shared between an object and its copies shows"""
    for o in _prod(s=MARKUP[:3], justify=[None, "left", "center", "right", "full"], no_wrap=[None, True]):
        leaf = ("mtext", dict(o), [])
        yield leaf
        if o["s"] == MARKUP[0]:
            yield from _measuring(leaf)
    for align in ALIGN:
        yield ("panel", {"box": "ROUNDED", "expand": True, "padding": (0, 1), "width": None, "title": "T", "title_align": align, "title_markup": True}, [LEAF])
    for just in JUST:
        t = _table({}, [{}, {"justify": just}])
        yield (t[0], t[1], [LEAF, ("mtext", {"s": MARKUP[2], "justify": None}, [])])
        t = _table({"expand": True}, [{"justify": just, "no_wrap": True}])
        yield (t[0], t[1], [("mtext", {"s": MARKUP[1], "justify": None}, [])])


def _text_positions(spec):
    """the Text `spec` in every position where rich takes "str or Text", and as a leaf wherever a leaf is measured"""
    yield from _measuring(("text", spec, []))
    for align in ALIGN:
        yield ("rule", {"title": spec, "align": align}, [])
        yield ("panel", {"box": "ROUNDED", "expand": True, "padding": (0, 1), "width": None, "title": spec, "title_align": align}, [LEAF])
    yield ("panel", {"box": "ASCII", "expand": False, "padding": 0, "width": None, "title": spec, "title_align": "center", "fit": True}, [LEAF])
    yield _table({}, TABLE_COLS[1], title=spec, caption=spec)
    yield _table({}, [{"header": spec, "footer": spec}], show_footer=True)
    yield _table({"expand": True, "box": None}, [{"header": spec, "footer": spec, "ratio": 1, "no_wrap": True}], show_footer=True)
    yield ("columns", {"padding": (0, 1), "width": None, "expand": False, "equal": False, "column_first": False, "right_to_left": False, "align": None, "title": spec}, [LEAF, LEAF])


def text_option_trees(quick=False):
    """deepening 4: every documented `Text` option at every documented value (one option varied at a time over the
    defaults, then every option at None / its emptiest value together), on contents with tabs, line feeds and control
    characters, in every position (`_text_positions`).  No randomness."""
    for s in TEXT_CONTENT:
        full = not quick or s in (TEXT_CONTENT[0], TEXT_CONTENT[3])  # quick tier: the per-option sweep on two contents only
        specs = [{"s": s}]
        for k, vals in TEXT_OPTS.items() if full else ():
            specs += [{"s": s, k: v} for v in vals]
        specs.append({"s": s, "justify": None, "overflow": None, "no_wrap": None, "end": "", "tab_size": None, "style": ""})
        specs.append({"s": s, "justify": "full", "overflow": "ignore", "no_wrap": True, "end": "ab", "tab_size": 1, "style_obj": "bold"})
        for spec in specs:
            yield from _text_positions(spec)


def small_trees(quick=False):
    yield from text_option_trees(quick)
    yield from level1()
    yield from level2()
    yield from blank_trees()
    yield from repeat_trees()


def option_widths(desc):
    """explicit width options anywhere in the tree (structural thresholds)"""
    out = set()
    kind, o, kids = desc
    for k in ("width", "min_width"):
        if isinstance(o.get(k), int):
            out.add(o[k])
    for c in o.get("cols", []) if kind == "table" else []:
        for k in ("width", "min_width", "max_width"):
            if isinstance(c.get(k), int):
                out.add(c[k])
    for k in kids:
        out |= option_widths(k)
    if kind == "tree":
        for n in _tree_nodes(o["root"]):
            out |= option_widths(n["label"])
    return out

