"""Deterministic scheduler for real threads (property C11; DESIGN.md section 7 "C11", section 5 "real OS threads").

Real `threading.Thread`s run ONE AT A TIME.  A thread parks at every *yield point*; the controller picks which
parked thread performs its next stretch of code.  Yield points are

* "sync" points: the cooperative lock proxies (`LockProxy.acquire/release`, outermost level), the file
  object (`YFile.write`), and the traced shared objects of the console / live display (`TracedList`,
  the traced `_live_render`) — each of them yields *before* it touches the shared state and logs an event
  right *after*, without yielding in between, so the event log is the order in which the shared accesses
  really happened;
* in line mode additionally every executed source line of the given files (`sys.settrace` line events).

Nothing sleeps, nothing depends on time.  A run is a function of the list of choices (thread ids) made at the
yield points: the same choices replay the same run.  Deadlock = some thread is unfinished and no thread is
runnable (every parked thread waits for a lock another thread owns).

Strategies (all randomness comes from the `random.Random` handed in):
* `explore(make_run, bound)`   stateless depth-first enumeration of every schedule with at most `bound`
  preemptions (a switch away from a thread that could have continued), sync granularity;
* `PCT(rng, n_threads, depth, est_len)`   priority-based random scheduling (Burckhardt et al.) for line mode;
* `RandomWalk(rng, p)`   keep running the current thread, switch with probability p.
"""
import sys
import threading

__all__ = ["Sched", "LockProxy", "YFile", "TracedList", "Replay", "PCT", "RandomWalk", "PreemptAt", "explore", "children", "Deadlock"]


class Deadlock(Exception):
    pass


class SchedulerStuck(RuntimeError):
    """The code under test did not come back to a yield point (harness problem or an endless loop)."""


class Sched:
    def __init__(self, line_files=(), step_limit=200000, wait_s=30):
        self.tl = threading.local()
        self.go = {}
        self.ctrl = threading.Semaphore(0)
        self.state = {}  # tid -> "running" | "parked" | "done"
        self.pending = {}  # tid -> (kind, lock or None) of the yield point the thread is parked at
        self.exc = {}
        self.events = []  # (tid, kind, payload): the shared accesses in the order they happened
        self.choices = []  # tid chosen at every scheduling step
        self.runnable_log = []  # runnable set at every scheduling step
        self.line_files = tuple(line_files)
        self.step_limit = step_limit
        self.wait_s = wait_s
        self.threads = {}
        self.aborted = False
        self.n_line = 0

    # ------------------------------------------------------------ worker side
    def current(self):
        return getattr(self.tl, "tid", None)

    def log(self, kind, payload=None):
        tid = self.current()
        if tid is not None:
            self.events.append((tid, kind, payload))

    def sync(self, kind, lock=None):
        """Yield point.  Harness threads (no tid) never yield."""
        tid = self.current()
        if tid is None or getattr(self.tl, "quiet", False):
            return
        self.pending[tid] = (kind, lock)
        self.state[tid] = "parked"
        self.ctrl.release()
        self.go[tid].acquire()
        if self.aborted:
            raise SystemExit

    def _tracer(self, frame, event, arg):
        if frame.f_code.co_filename.endswith(self.line_files):
            return self._local
        return None

    def _local(self, frame, event, arg):
        if event == "line":
            self.n_line += 1
            self.where = (frame.f_code.co_filename, frame.f_lineno, frame.f_code.co_name)
            self.sync("line", self.where)
        return self._local

    # ------------------------------------------------------------ controller side
    def spawn(self, tid, fn):
        self.go[tid] = threading.Semaphore(0)
        self.state[tid] = "running"

        def runner():
            self.tl.tid = tid
            try:
                self.sync("begin")
                if self.line_files:
                    sys.settrace(self._tracer)
                try:
                    fn()
                finally:
                    sys.settrace(None)
            except SystemExit:
                pass
            except BaseException as e:  # noqa: BLE001 — an exception in the code under test is an observation
                self.exc[tid] = e
            finally:
                self.state[tid] = "done"
                self.pending.pop(tid, None)
                self.ctrl.release()

        th = threading.Thread(target=runner, daemon=True)
        self.threads[tid] = th
        th.start()
        self._wait()

    def _wait(self):
        if not self.ctrl.acquire(timeout=self.wait_s):
            raise SchedulerStuck("running thread neither parked nor finished within %d s" % self.wait_s)

    def runnable(self):
        out = []
        for tid, st in self.state.items():
            if st != "parked":
                continue
            kind, lock = self.pending[tid]
            if kind == "acq" and lock.owner is not None and lock.owner != tid:
                continue
            if kind == "gate" and not lock(self):  # harness-level barrier: `lock` is a predicate on the scheduler
                continue
            out.append(tid)
        return sorted(out)

    def unfinished(self):
        return sorted(t for t, st in self.state.items() if st != "done")

    def step(self, tid):
        self.state[tid] = "running"
        self.go[tid].release()
        self._wait()

    def run(self, chooser):
        """Run until every thread is done.  Raises Deadlock when none can move."""
        last = None
        while True:
            r = self.runnable()
            if not r:
                if self.unfinished():
                    self.abort()
                    raise Deadlock({t: (self.pending[t][0], getattr(self.pending[t][1], "name", None)) for t in self.unfinished()})
                return
            if len(self.choices) >= self.step_limit:
                self.abort()
                raise SchedulerStuck("more than %d scheduling steps" % self.step_limit)
            tid = chooser(self, r, last)
            self.choices.append(tid)
            self.runnable_log.append(r)
            self.step(tid)
            last = tid

    def abort(self):
        """Let the parked threads die (they raise SystemExit at their yield point)."""
        self.aborted = True
        for tid, st in list(self.state.items()):
            if st == "parked":
                self.state[tid] = "running"
                self.go[tid].release()
                self._wait()


class LockProxy:
    """Cooperative re-entrant lock.  Only one thread runs at a time, so no real lock is needed: the scheduler
    never resumes a thread parked at `acq` while another thread owns the lock."""

    def __init__(self, sched, name):
        self.sched = sched
        self.name = name
        self.owner = None
        self.count = 0
        self.errors = []

    def held_by_current(self):
        return self.owner == (self.sched.current() or "main")

    def acquire(self, blocking=True, timeout=-1):
        me = self.sched.current() or "main"
        if self.owner == me:
            self.count += 1
            return True
        self.sched.sync("acq", self)
        if self.owner is not None:
            self.errors.append(("acquired while owned", self.owner, me))
        self.owner = me
        self.count = 1
        self.sched.log("acq" + self.name)
        return True

    def release(self):
        me = self.sched.current() or "main"
        if self.owner != me:
            raise RuntimeError("cannot release un-acquired lock")
        if self.count > 1:
            self.count -= 1
            return
        self.sched.sync("rel", self)
        self.count = 0
        self.owner = None
        self.sched.log("rel" + self.name)

    def __enter__(self):
        self.acquire()
        return self

    def __exit__(self, *a):
        self.release()


class YFile:
    """The console's file: every write is a yield point and an event; `guard` is the lock that must be held."""

    def __init__(self, sched, guard=None):
        self.sched = sched
        self.guard = guard
        self.writes = []  # (tid, text)
        self.unguarded = []
        self.in_write = None
        self.reentered = []

    def write(self, text):
        self.sched.sync("w")
        tid = self.sched.current()
        if self.guard is not None and not self.guard.held_by_current():
            self.unguarded.append((tid, text))
        self.writes.append((tid, text))
        self.sched.log("w", text)
        return len(text)

    def flush(self):
        pass

    def isatty(self):
        return True

    def getvalue(self):
        return "".join(t for _, t in self.writes)


class TracedList(list):
    """`console._render_hooks` / `console._record_buffer`: iteration, append, pop, extend are shared accesses."""

    def __init__(self, sched, tag, items=()):
        super().__init__(items)
        self.sched = sched
        self.tag = tag

    def __iter__(self):
        self.sched.sync(self.tag + "r")
        self.sched.log(self.tag + "r", len(self) > 0)
        return list.__iter__(self)

    def append(self, x):
        self.sched.sync(self.tag + "+")
        list.append(self, x)
        self.sched.log(self.tag + "+")

    def pop(self, *a):
        self.sched.sync(self.tag + "-")
        r = list.pop(self, *a)
        self.sched.log(self.tag + "-")
        return r

    def __delitem__(self, key):
        self.sched.sync(self.tag + "d")
        list.__delitem__(self, key)
        self.sched.log(self.tag + "d")

    def extend(self, xs):
        xs = list(xs)
        self.sched.sync(self.tag + "e")
        list.extend(self, xs)
        self.sched.log(self.tag + "e", len(xs))


# ---------------------------------------------------------------------------------- choosers
class Replay:
    """Follow an explicit list of choices, then run the current thread on / the lowest runnable id."""

    def __init__(self, prefix):
        self.prefix = list(prefix)
        self.i = 0
        self.diverged = False

    def __call__(self, sched, runnable, last):
        if self.i < len(self.prefix):
            t = self.prefix[self.i]
            self.i += 1
            if t in runnable:
                return t
            self.diverged = True
        return last if last in runnable else runnable[0]


class PreemptAt:
    """Line mode: run thread `tid` until it is parked for the `k`-th time at a source line of a file ending in
    `file_suffix` (k = 0, 1, …), then run every other thread as far as it goes, then finish `tid`.  `hits` counts the
    line points of that file seen on the way (so the caller knows how many k exist)."""

    def __init__(self, tid, file_suffix, k):
        self.tid, self.suffix, self.k = tid, file_suffix, k
        self.hits = 0          # line points of that file at which `tid` has parked so far
        self.fired = False
        self.where = None
        self.steps = 0         # how often `tid` was chosen
        self.counted = -1

    def __call__(self, sched, runnable, last):
        if not self.fired and self.tid in runnable:
            kind, info = sched.pending[self.tid]
            if kind == "line" and info[0].endswith(self.suffix) and self.counted != self.steps:
                self.counted = self.steps
                if self.hits == self.k:
                    self.fired, self.where = True, info
                self.hits += 1
            if not self.fired:
                self.steps += 1
                return self.tid
        others = [t for t in runnable if t != self.tid]
        if self.fired and others:
            return last if last in others else others[0]
        return last if last in runnable else runnable[0]


class RandomWalk:
    def __init__(self, rng, p):
        self.rng = rng
        self.p = p

    def __call__(self, sched, runnable, last):
        if last in runnable and self.rng.random() >= self.p:
            return last
        return self.rng.choice(runnable)


class PCT:
    """Random priorities, `depth - 1` priority change points among the first `est_len` steps."""

    def __init__(self, rng, tids, depth, est_len):
        tids = list(tids)
        pr = list(range(depth, depth + len(tids)))
        rng.shuffle(pr)
        self.prio = dict(zip(tids, pr))
        self.change = {rng.randrange(max(est_len, 1)): depth - 1 - i for i in range(max(depth - 1, 0))}
        self.n = 0

    def __call__(self, sched, runnable, last):
        t = max(runnable, key=lambda x: self.prio.get(x, 0))
        if self.n in self.change:
            self.prio[t] = self.change[self.n]
            t = max(runnable, key=lambda x: self.prio.get(x, 0))
        self.n += 1
        return t


def children(choices, runnable_log, prefix_len, used, bound):
    """The nodes below a run in the preemption-bounded search tree: (forced prefix, preemptions used)."""
    kids = []
    for i in range(prefix_len, len(choices)):
        cur = choices[i - 1] if i > 0 else None
        for alt in runnable_log[i]:
            if alt == choices[i]:
                continue
            cost = 1 if (cur is not None and cur in runnable_log[i]) else 0
            if used + cost <= bound:
                kids.append((tuple(choices[:i]) + (alt,), used + cost))
    return kids


def explore(run_with, bound, max_runs=None, start=((), 0)):
    """Every schedule with at most `bound` preemptions below the node `start` = (forced prefix, preemptions used).

    `run_with(chooser)` executes one fresh run and returns an object with `.choices` and `.runnable_log`.
    Yields `(prefix, result)` for every run.  Stateless DFS: a node is the forced prefix of choices; after the
    prefix the run continues without preemption (the current thread while it can, else the lowest runnable
    id).  Children of a node: at every position at or after the end of its prefix, every other runnable
    thread (a switch away from a thread that could have continued costs one preemption).  Each schedule is
    generated exactly once.
    """
    stack = [start]
    runs = 0
    while stack:
        prefix, used = stack.pop()
        res = run_with(Replay(prefix))
        runs += 1
        yield prefix, res
        if max_runs is not None and runs >= max_runs:
            return
        stack.extend(reversed(children(res.choices, res.runnable_log, len(prefix), used, bound)))
