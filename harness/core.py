"""Shared machinery for every property check (see DESIGN.md sections 3 and 4).

A property module (harness/props/cXX.py) exposes

    PROPERTY = "C13"
    def run(ctx): ...            # correspondence + direct evaluation of the property on real rich
    def replay(ctx, case): ...   # optional: re-run one recorded case

and uses the `Ctx` API:

    ctx.tier, ctx.seed, ctx.rng, ctx.quick
    ctx.case(fn, args, impl_answer, shape=..., sample=...)   queue one model-vs-implementation case
    ctx.flush()                                              run the queued cases through the Lean driver
    ctx.check(ok, site, inp, what, finding=None)             direct evaluation of the property (3d)
    ctx.note(key)                                            input-distribution counter

`ctx.finish()` (called by ./check) turns what was seen into the verdict protocol.
"""
import collections
import fcntl
import hashlib
import json
import os
import random
import re
import subprocess
import sys
import time

HERE = os.path.dirname(os.path.abspath(__file__))
VERIF = os.path.dirname(HERE)
LEAN = os.path.join(VERIF, "lean")
REPO = os.environ.get("VERIF_REPO", "/repo")


def driver_path(prop):
    return os.path.join(LEAN, ".lake", "build", "bin", "drv_" + prop.lower())

KNOWN = os.path.join(VERIF, "known_findings.txt")

ALLOWED_AXIOMS = {"propext", "Classical.choice", "Quot.sound"}
FORBIDDEN = re.compile(
    r"\bsorry\b|\badmit\b|^\s*axiom\s|\bnative_decide\b|\bbv_decide\b|\bimplemented_by\b|\bunsafe\s|maxHeartbeats\s+0\b",
    re.M,
)

TRUSTED_BASE = [
    "Lean 4.33.0 kernel (leanchecker re-check in the thorough tier)",
    "axioms allowed in property theorems: propext, Classical.choice, Quot.sound (audited by #print axioms each run)",
    "translator harness/tables.py (Python literals -> Lean literals, regenerated each run)",
    "correspondence harness (generators, adapters, canonicaliser) comparing the Lean model with real rich in-process",
    "CPython 3.12 semantics assumed by the hand-written models (floor //, slicing, stable sort, dict order)",
]


def sh(cmd, cwd=None, timeout=None, env=None):
    p = subprocess.run(cmd, cwd=cwd, timeout=timeout, env=env, stdout=subprocess.PIPE, stderr=subprocess.STDOUT, text=True)
    return p.returncode, p.stdout


class BuildLock:
    """Serialises lake invocations (several checks may be started at once)."""

    def __enter__(self):
        os.makedirs(os.path.join(LEAN, ".lake"), exist_ok=True)
        self.f = open(os.path.join(LEAN, ".lake", "verif.lock"), "w")
        fcntl.flock(self.f, fcntl.LOCK_EX)
        return self

    def __exit__(self, *a):
        fcntl.flock(self.f, fcntl.LOCK_UN)
        self.f.close()


def strip_comments(src):
    src = re.sub(r"/-.*?-/", "", src, flags=re.S)
    src = re.sub(r"--.*", "", src)
    return src


def lean_files():
    out = []
    for root, _dirs, files in os.walk(LEAN):
        if ".lake" in root:
            continue
        for f in files:
            if f.endswith(".lean"):
                out.append(os.path.join(root, f))
    return sorted(out)


def import_closure(roots):
    """Lean source files reachable through `import RichModel.*` / `import Drivers.*` from the given modules."""
    seen, todo = {}, list(roots)
    while todo:
        mod = todo.pop()
        if mod in seen:
            continue
        path = os.path.join(LEAN, *mod.split(".")) + ".lean"
        if not os.path.exists(path):
            continue
        seen[mod] = path
        for m in re.finditer(r"^\s*(?:public\s+)?import\s+((?:RichModel|Drivers)\.[\w.]+)", open(path, encoding="utf-8").read(), flags=re.M):
            todo.append(m.group(1))
    return sorted(seen.values())


def props_file(prop):
    return os.path.join(LEAN, "RichModel", "Props", f"{prop}.lean")


def theorem_names(prop):
    """Fully qualified names of the theorems stated in Props/<prop>.lean (the obligations)."""
    path = props_file(prop)
    if not os.path.exists(path):
        return []
    src = strip_comments(open(path, encoding="utf-8").read())
    ns = []
    names = []
    for line in src.splitlines():
        m = re.match(r"\s*namespace\s+(\S+)", line)
        if m:
            ns.append(m.group(1))
            continue
        m = re.match(r"\s*end\s+(\S+)", line)
        if m and ns and ns[-1] == m.group(1):
            ns.pop()
            continue
        m = re.match(r"\s*(?:@\[[^\]]*\]\s*)?(?:private\s+|protected\s+)?theorem\s+(\S+)", line)
        if m:
            names.append(".".join(ns + [m.group(1)]))
    return names


class Ctx:
    def __init__(self, prop, tier, seed):
        self.prop = prop
        self.tier = tier
        self.quick = tier == "quick"
        self.seed = seed
        self.rng = random.Random(seed)
        self.t0 = time.time()
        self.queue = []  # (line, impl_answer, meta)
        self.evaluations = 0
        self.compared = 0
        self.agreed = 0
        self.unmodelled = 0
        self.distinct = set()
        self.dist = collections.Counter()
        self.samples = []
        self.mismatches = []  # dicts
        self.failures = []  # dicts: site,input,what,finding
        self.obligations = []
        self.discharged = []
        self.build_errors = []  # strings naming theorem/module that no longer checks
        self.table_obligations = []
        self.assumptions = []
        self.extra_cov = {}
        self.rule = ""
        self.exhaustive = False
        self.driver = driver_path(prop)
        self.driver_ok = os.path.exists(self.driver)

    # ---------------------------------------------------------------- build + audit
    def build(self):
        """Regenerate tables, build model + proofs for this property + driver, audit axioms."""
        sys.path.insert(0, HERE)
        import tables

        with BuildLock():
            try:
                changed = tables.regenerate()
            except Exception as e:  # a table the translator cannot read any more
                changed = []
                self.build_errors.append(f"translator: {type(e).__name__}: {e}")
            if changed:
                self.dist["gen_tables_changed:" + ",".join(changed)] += 1
            # driver first: it contains no proofs and is needed for the correspondence
            drv = "drv_" + self.prop.lower()
            rc, out = sh(["lake", "build", drv], cwd=LEAN, timeout=1500)
            self.driver_ok = rc == 0 and os.path.exists(self.driver)
            if rc != 0:
                self.build_errors.append(f"lake build {drv} failed (the executable model no longer builds):\n" + _tail(out))
            mod = f"RichModel.Props.{self.prop}"
            self.obligations = theorem_names(self.prop)
            if not self.obligations:
                self.build_errors.append(f"no theorems found in Props/{self.prop}.lean")
                return
            rc, out = sh(["lake", "build", mod], cwd=LEAN, timeout=1500)
            if rc != 0:
                self.build_errors.append(f"lake build {mod} failed (a proof obligation no longer checks):\n" + _tail(out))
                return
            # forbidden tokens anywhere in the Lean sources this property depends on (import closure)
            for path in import_closure([mod, f"Drivers.{self.prop}"]):
                src = strip_comments(open(path, encoding="utf-8").read())
                m = FORBIDDEN.search(src)
                if m:
                    self.build_errors.append(f"forbidden token {m.group(0).strip()!r} in {os.path.relpath(path, LEAN)}")
            # axiom audit
            audit_dir = os.path.join(LEAN, ".lake", "audit")
            os.makedirs(audit_dir, exist_ok=True)
            audit = os.path.join(audit_dir, f"{self.prop}.lean")
            with open(audit, "w") as f:
                f.write(f"import {mod}\n")
                for n in self.obligations:
                    f.write(f"#print axioms {n}\n")
            rc, out = sh(["lake", "env", "lean", audit], cwd=LEAN, timeout=600)
            if rc != 0:
                self.build_errors.append("axiom audit failed to run:\n" + _tail(out))
                return
            seen = {}
            for m in re.finditer(r"'([^']+)' (does not depend on any axioms|depends on axioms: \[([^\]]*)\])", out, flags=re.S):
                axs = set() if m.group(3) is None else {a.strip() for a in m.group(3).replace("\n", " ").split(",") if a.strip()}
                seen[m.group(1)] = axs
            for n in self.obligations:
                if n not in seen:
                    self.build_errors.append(f"audit: no axiom report for {n}")
                elif not seen[n] <= ALLOWED_AXIOMS:
                    self.build_errors.append(f"audit: {n} depends on {sorted(seen[n] - ALLOWED_AXIOMS)}")
                else:
                    self.discharged.append(n)
            self.axioms = {n: sorted(a) for n, a in seen.items()}

    def leanchecker(self):
        mod = f"RichModel.Props.{self.prop}"
        with BuildLock():
            rc, out = sh(["lake", "env", "leanchecker", mod], cwd=LEAN, timeout=3000)
        self.extra_cov["leanchecker"] = "ok" if rc == 0 else "FAILED"
        if rc != 0:
            self.build_errors.append("leanchecker rejected " + mod + ":\n" + _tail(out))

    # ---------------------------------------------------------------- correspondence
    def case(self, fn, args, impl_answer, shape=None, sample=None):
        """Queue one request for the model; `impl_answer` is the canonical answer computed from real rich."""
        line = fn + "\t" + "\t".join(str(a) for a in args)
        assert "\n" not in line
        self.queue.append((line, str(impl_answer), sample))
        self.dist["fn:" + fn] += 1
        if shape is not None:
            self.dist[f"{fn}:{shape}"] += 1
        if len(self.queue) >= 200000:
            self.flush()

    def model(self, lines):
        """Ask the model directly (list of request lines -> list of answers)."""
        if not self.driver_ok:
            return None
        p = subprocess.run([self.driver], input="\n".join(lines) + "\n", stdout=subprocess.PIPE, stderr=subprocess.PIPE, text=True, timeout=1800)
        if p.returncode != 0:
            raise RuntimeError("driver crashed: " + p.stderr[-2000:])
        out = p.stdout.split("\n")
        if out and out[-1] == "":
            out.pop()
        if len(out) != len(lines):
            raise RuntimeError(f"driver answered {len(out)} lines for {len(lines)} requests")
        return out

    def flush(self):
        q, self.queue = self.queue, []
        if not q:
            return
        self.evaluations += len(q)
        for line, _, _ in q:
            self.distinct.add(hashlib.blake2b(line.encode(), digest_size=8).digest())
        if not self.driver_ok:
            self.dist["driver_unavailable"] += len(q)
            return
        answers = self.model([l for l, _, _ in q])
        for (line, impl, sample), ans in zip(q, answers):
            if ans == "unmodelled":
                self.unmodelled += 1
                continue
            self.compared += 1
            if ans == impl:
                self.agreed += 1
                if sample is not None and len(self.samples) < 12 and self.rng.random() < 0.01 + (len(self.samples) < 3):
                    self.samples.append({"request": line, "answer": ans, "readable": sample})
            else:
                if len(self.mismatches) < 50:
                    self.mismatches.append({"request": line, "model": ans, "impl": impl, "readable": sample})
                self.dist["MISMATCH:" + line.split("\t", 1)[0]] += 1

    # ---------------------------------------------------------------- direct evaluation (3d)
    def check(self, ok, site, inp, what, finding=None):
        """Evaluate the property itself on the real code's output. `finding` is the slug produced by a
        narrow classifier for this failure shape (None = unclassified)."""
        self.dist["prop:" + site] += 1
        if ok:
            return True
        key = (site, finding)
        self.dist["PROPFAIL:" + site + (":" + finding if finding else "")] += 1
        # keep the smallest input per (site, finding)
        for f in self.failures:
            if (f["site"], f["finding"]) == key:
                if len(repr(inp)) < len(repr(f["input"])):
                    f.update(input=inp, what=what)
                return False
        self.failures.append({"site": site, "input": inp, "what": what, "finding": finding})
        return False

    def note(self, key, n=1):
        self.dist[key] += n

    def add_sample(self, s):
        if len(self.samples) < 12:
            self.samples.append(s)

    # ---------------------------------------------------------------- verdict
    def finish(self):
        self.flush()
        known, fixed = read_known(self.prop)
        violations = []
        printed = []
        for f in self.failures:
            if f["finding"] and f["finding"] in known:
                printed.append(f"KNOWN-FINDING: property={self.prop} {f['finding']}: {known[f['finding']]}")
            else:
                violations.append(("impl", f))
        # every known finding must still be announced (it is a property of the unchanged tree)
        for slug, text in known.items():
            if not any(f["finding"] == slug for f in self.failures):
                printed.append(f"KNOWN-FINDING: property={self.prop} {slug}: {text} (not re-observed in this run)")
        exit_code = 0
        os.makedirs(os.path.join(VERIF, "replays"), exist_ok=True)
        lines = []
        if violations:
            for _, f in violations:
                path = self._write_replay({"kind": "property-fails-on-implementation", **f})
                lines.append(f"VIOLATION property={self.prop} replay={path}")
            exit_code = 1
        elif self.mismatches or self.build_errors:
            body = {
                "kind": "no-longer-shown",
                "broken": self.build_errors,
                "correspondence_mismatches": self.mismatches[:10],
                "note": "model and implementation disagree, or a proof obligation no longer checks; "
                "the failing-input search (direct evaluation of the property on the real code over this run's "
                "generators and corpus) found no input on which the property fails",
            }
            path = self._write_replay(body)
            lines.append(f"VIOLATION property={self.prop} replay={path} no-failing-input-found")
            exit_code = 1
        for l in dict.fromkeys(printed):  # one line per finding, whatever the number of sites it shows at
            print(l)
        for l in lines:
            print(l)
        self._write_evidence(len(violations) + (1 if exit_code and not violations else 0))
        return exit_code

    def _write_replay(self, body):
        body = dict(body)
        body.update(property=self.prop, seed=self.seed, tier=self.tier, cmd=f"./check {self.prop} --tier {self.tier}", env={"VERIF_SEED": self.seed})
        blob = json.dumps(body, indent=1, ensure_ascii=False, default=repr)
        h = hashlib.sha1(blob.encode()).hexdigest()[:10]
        rel = f"replays/{self.prop}-{h}.json"
        with open(os.path.join(VERIF, rel), "w") as f:
            f.write(blob)
        return rel

    def _write_evidence(self, nviol):
        os.makedirs(os.path.join(VERIF, "evidence"), exist_ok=True)
        n_obl = len(self.obligations) + len(self.table_obligations)
        cov = {
            "obligations": max(n_obl, 1),
            "discharged": len(self.discharged) + len([t for t in self.table_obligations if t[1]]),
            "checker_cmd": f"cd lean && lake build RichModel.Props.{self.prop} && lake env lean .lake/audit/{self.prop}.lean  (#print axioms)"
            + ("; lake env leanchecker RichModel.Props.%s" % self.prop if not self.quick else ""),
            "trusted_base": TRUSTED_BASE,
            "theorems": self.obligations,
            "axioms": getattr(self, "axioms", {}),
            "evaluations": self.evaluations + sum(v for k, v in self.dist.items() if k.startswith("prop:")),
            "distinct_nontrivial": len(self.distinct),
            "rule": self.rule
            or "distinct = distinct request lines sent to the model (hash of the canonical request); every request exercises a modelled function on a generated input",
            "samples": self.samples[:12] or [{"note": "no sample recorded"}],
            "traces_validated_against_impl": self.agreed,
            "model_vs_impl_compared": self.compared,
            "model_vs_impl_mismatches": sum(v for k, v in self.dist.items() if k.startswith("MISMATCH:")),
            "unmodelled_requests": self.unmodelled,
            "property_evaluations_on_impl": sum(v for k, v in self.dist.items() if k.startswith("prop:")),
            "property_failures_on_impl": [dict(f, input=_short(f["input"])) for f in self.failures],
            "input_distribution": dict(sorted(self.dist.items())),
            "exhaustive": self.exhaustive,
            "build_errors": [b[:2000] for b in self.build_errors],
        }
        cov.update(self.extra_cov)
        ev = {
            "property_id": self.prop,
            "tier": self.tier,
            "seed": self.seed,
            "level": "proof",
            "coverage": cov,
            "assumptions": self.assumptions,
            "wall_s": round(time.time() - self.t0, 2),
            "violations": nviol,
        }
        with open(os.path.join(VERIF, "evidence", f"{self.prop}.json"), "w") as f:
            json.dump(ev, f, indent=1, ensure_ascii=False, default=repr)


def _short(x, n=600):
    r = x if isinstance(x, str) else repr(x)
    return r if len(r) <= n else r[:n] + "…"


def _tail(s, n=3000):
    return s[-n:]


def read_known(prop):
    """known_findings.txt -> ({slug: text} for `known:` lines of this property, [fixed lines])."""
    known, fixed = {}, []
    if not os.path.exists(KNOWN):
        return known, fixed
    for line in open(KNOWN, encoding="utf-8"):
        line = line.strip()
        if not line or line.startswith("#"):
            continue
        m = re.match(r"known:\s+property=(\S+)\s+id=(\S+)\s+(.*)", line)
        if m and m.group(1) == prop:
            known[m.group(2)] = m.group(3)
        m = re.match(r"fixed:\s+property=(\S+)\s+(.*)", line)
        if m and m.group(1) == prop:
            fixed.append(m.group(2))
    return known, fixed


# ------------------------------------------------------------------ encoding helpers (line protocol)
def enc_str(s):
    return " ".join(str(ord(c)) for c in s)


def dec_str(s):
    return "" if s == "" else "".join(chr(int(t)) for t in s.split(" "))


def enc_str_list(l):
    return f"{len(l)}:" + ",".join(enc_str(s) for s in l)


def enc_bool(b):
    return "1" if b else "0"


def enc_opt(n):
    return "-" if n is None else str(n)
