"""C08 deepening: the STYLES of rich.progress_bar.ProgressBar (non-pulse path) and rich.bar.Bar.

run_bars(ctx, quick):
  (i)  correspondence  Lean `progressStyled` / `barStyled` (Model/FramesBarsStyled.lean, handlers in Drv/C08Bars.lean)  vs
       the segments of `ProgressBar(...).__rich_console__(console, options)` / `Bar(...).__rich_console__`, each segment
       reported as (style id, text); the style id is found by comparing the segment's style with
       `console.get_style(<that style of the bar>)` (four distinct styles, so the ids are unambiguous);
  (ii) direct evaluation of the split theorem (`progressStyled_split`) on rich's own output with an oracle that does not
       use the Lean model: cells per style are counted and compared with `complete_halves` computed with
       `fractions.Fraction`.
The pulse path (`_render_pulse`) depends on `monotonic()` and cosine-blended colours; it is not covered here (its width is
covered by the text model: progress_pulse_exact_width).
Numbers are ints or dyadic fractions (exact in binary64), small enough that `int(width * 2 * completed / total)` equals the
truncated exact quotient.
"""
from fractions import Fraction

from core import enc_bool, enc_str
import lib_frames as LF

# style names handed to the ProgressBar: pairwise different, so a segment's style identifies its role
PB_STYLES = {"complete": "green", "finished": "bold blue", "back": "red", "pulse": "yellow"}
STY_ID = {"complete": 0, "finished": 1, "back": 2, "pulse": 3, "own": 4, "line": 5}
BAR_COLOR, BAR_BGCOLOR = "magenta", "cyan"


def _frac(x):
    f = Fraction(x)
    return [str(f.numerator), str(f.denominator)]


def _opt(n):
    return "-" if n is None else str(int(n))


def _enc_segments(ids_texts):
    return "ok:" + "|".join(f"{i};{enc_str(t)}" for i, t in ids_texts)


def _err(e):
    return "err:Other:" + type(e).__name__


# ---------------------------------------------------------------------------------------------- ProgressBar
def pbar_segments(console, bar, mw):
    """[(style id, text)] of the bar rendered with options.max_width = mw (called directly: no Console.render guard)."""
    segs = list(bar.__rich_console__(console, console.options.update(width=mw)))
    roles = [(console.get_style(bar.complete_style), 0), (console.get_style(bar.finished_style), 1),
             (console.get_style(bar.style), 2), (console.get_style(bar.pulse_style), 3)]
    out = []
    for s in segs:
        sid = 9
        for st, i in roles:
            if s.style == st:
                sid = i
                break
        if s.is_control:
            sid = 8
        out.append((sid, s.text))
    return out


def pbar_oracle(env, total, completed, wopt, mw, segs):
    """The statement of the split theorem on rich's output; returns None or a description of the failure."""
    total, completed = Fraction(total), Fraction(completed)
    width = mw if not wopt else min(wopt, mw)
    if width < 0:
        return None  # outside the theorem's hypothesis (0 <= width)
    ascii_ = env.legacy_windows or env.ascii_only
    bar, half_r, half_l = ("-", " ", " ") if ascii_ else ("━", "╸", "╺")
    clamped = min(total, max(Fraction(0), completed))
    halves = int(Fraction(2 * width) * clamped / total) if total != 0 else 2 * width  # int() truncates toward zero
    colour = (not env.no_color) and env.color_system is not None
    fill = 0 if completed < total else 1
    if any(t == "" for _, t in segs):
        return "an empty segment"
    if len(segs) > 4:
        return f"{len(segs)} segments"
    cells = [(c, i) for i, t in segs for c in t]
    n_fill = 0
    while n_fill < len(cells) and cells[n_fill][1] == fill:
        n_fill += 1
    done, rest = cells[:n_fill], cells[n_fill:]
    if any(i != 2 for _, i in rest):
        other = sorted({i for _, i in rest if i != 2})
        return f"style ids {other} after the completed part (fill style expected {fill})"
    want_done = [bar] * (halves // 2) + [half_r] * (halves % 2)
    if [c for c, _ in done] != want_done:
        return f"completed part {''.join(c for c, _ in done)!r}, expected {''.join(want_done)!r} ({halves} half cells)"
    if not colour:
        if rest:
            return f"{len(rest)} background cells although colour is not available"
        if len(cells) > width:
            return f"{len(cells)} cells exceed the width {width}"
        return None
    remaining = width - halves // 2 - halves % 2
    if remaining < 0:
        return f"completed part of {len(done)} cells exceeds the width {width}"
    lead = 1 if (halves % 2 == 0 and halves // 2 > 0 and remaining > 0) else 0
    want_rest = [half_l] * lead + [bar] * (remaining - lead)
    if [c for c, _ in rest] != want_rest:
        return f"remaining part {''.join(c for c, _ in rest)!r}, expected {''.join(want_rest)!r}"
    if len(cells) != width:
        return f"{len(cells)} cells, width {width}"
    return None


def _pbar_case(ctx, env, console, bar, total, completed, wopt, mw, do_check=True):
    from rich.progress_bar import ProgressBar  # noqa: F401  (import error surfaces here, not inside the guard)

    inp = f"ProgressBar(total={total!r}, completed={completed!r}, width={wopt!r}) at max_width={mw} on {env!r}"
    try:
        bar.update(LF._num(completed), LF._num(total))
        bar.width = wopt
        segs = pbar_segments(console, bar, mw)
        ans = _enc_segments(segs)
    except BaseException as e:  # an exception here is undocumented: property failure + mismatch
        ctx.check(False, "pbar_styled_raises", inp, f"{type(e).__name__}: {e}")
        segs, ans = None, _err(e)
    args = [enc_bool(env.ascii_only), enc_bool(env.legacy_windows), enc_bool(env.no_color), str(LF.COLOR_SYSTEMS.index(env.color_system))]
    args += _frac(total) + _frac(completed) + [_opt(wopt), "0", str(mw)]
    colour = (not env.no_color) and env.color_system is not None
    ctx.case("frames_pbar_styled", args, ans, shape=("colour" if colour else "nocolour") + ("/ascii" if env.legacy_windows or env.ascii_only else ""),
             sample=inp)
    if segs is not None and do_check:
        try:
            why = pbar_oracle(env, total, completed, wopt, mw, segs)
        except ZeroDivisionError:
            why = "oracle: division by zero"
        ctx.check(why is None, "pbar_styled_split", inp, f"{why}; segments {segs!r}")
        if total != 0 and Fraction(completed) >= Fraction(total) and (wopt is None or wopt >= 0):
            # a finished bar is all bar cells in the finished style
            ok = all(i == 1 for i, _ in segs) and sum(len(t) for _, t in segs) == (mw if not wopt else min(wopt, mw))
            ctx.check(ok, "pbar_styled_finished_full", inp, f"finished bar is not entirely in the finished style / not full: {segs!r}")


def _completed_grid(total):
    t = Fraction(total)
    if t == 0:
        return [Fraction(-1), Fraction(0), Fraction(1), Fraction(5, 2)]
    out = [Fraction(-1), Fraction(0)] + [t * k / 8 for k in range(1, 9)] + [t + 1, 2 * t, t - Fraction(1, 16)]
    seen, res = set(), []
    for c in out:
        if c not in seen:
            seen.add(c)
            res.append(c)
    return res


def _envs(quick):
    E = LF.Env
    envs = [E(40, color_system="standard"), E(40, ascii_only=True, color_system="standard"),
            E(40, legacy_windows=True, color_system="windows"), E(40, no_color=True, color_system="standard"),
            E(40, color_system=None), E(40, ascii_only=True, no_color=True, color_system=None)]
    if not quick:
        envs += [E(40, color_system="truecolor"), E(40, color_system="256"), E(40, legacy_windows=True, color_system=None),
                 E(40, ascii_only=True, legacy_windows=True, color_system="standard"), E(40, no_color=True, color_system=None),
                 E(40, legacy_windows=True, no_color=True, color_system="windows")]
    return envs


def run_pbar(ctx, quick):
    from rich.progress_bar import ProgressBar

    envs = [(e, e.console()) for e in _envs(quick)]
    wopts = [None, 0, 5, 20] if quick else [None, 0, 1, 5, 12, 20, -2]
    n = 0
    # bounded-exhaustive: one bar object per (total, width option) updated in place (as rich.progress does), rendered on
    # every console in turn so that configurations interleave on shared objects
    for total in [0, 1, 3, 7, 100, Fraction(5, 2)] + ([] if quick else [-4, 64]):
        for wopt in wopts:
            bar = ProgressBar(total=LF._num(total), completed=0, width=wopt, style=PB_STYLES["back"], complete_style=PB_STYLES["complete"],
                              finished_style=PB_STYLES["finished"], pulse_style=PB_STYLES["pulse"])
            for completed in _completed_grid(total):
                for mw in range(0, 13):
                    for env, console in envs:
                        _pbar_case(ctx, env, console, bar, total, completed, wopt, mw)
                        n += 1
    ctx.note("bars:pbar_exhaustive", n)
    # seeded random beyond the grid
    rng = ctx.rng
    for _ in range(300 if quick else 6000):
        den = rng.choice([1, 1, 2, 4, 16])
        total = Fraction(rng.randint(1, 400 * den), den) if rng.random() < 0.93 else Fraction(0)
        hi = int(total * 16 * 3 / 2) + 16
        completed = Fraction(rng.randint(-hi // 8, hi), 16) if rng.random() < 0.7 else Fraction(rng.randint(0, int(total) + 2))
        if rng.random() < 0.1:
            completed = total
        wopt = None if rng.random() < 0.4 else rng.randint(0, 150)
        mw = rng.choice([rng.randint(0, 30), rng.randint(0, 200)])
        env, console = rng.choice(envs)
        bar = ProgressBar(total=LF._num(total), completed=0, width=wopt, style=PB_STYLES["back"], complete_style=PB_STYLES["complete"],
                          finished_style=PB_STYLES["finished"], pulse_style=PB_STYLES["pulse"])
        _pbar_case(ctx, env, console, bar, total, completed, wopt, mw)
        ctx.note("bars:pbar_random")


# ---------------------------------------------------------------------------------------------- Bar
def _bar_case(ctx, console, own, size, begin, end, wopt, mw):
    from rich.bar import Bar

    inp = f"Bar({size!r}, {begin!r}, {end!r}, width={wopt!r}, color={BAR_COLOR!r}, bgcolor={BAR_BGCOLOR!r}) at max_width={mw}"
    try:
        b = Bar(LF._num(size), LF._num(begin), LF._num(end), width=wopt, color=BAR_COLOR, bgcolor=BAR_BGCOLOR)
        raw = list(b.__rich_console__(console, console.options.update(width=mw)))
        segs = [((8 if s.is_control else 5 if s.style is None else 4 if s.style == own else 9), s.text) for s in raw]
        ans = _enc_segments(segs)
    except BaseException as e:
        ctx.check(False, "bar_styled_raises", inp, f"{type(e).__name__}: {e}")
        segs, ans = None, _err(e)
    ctx.case("frames_bar_styled", _frac(size) + _frac(begin) + _frac(end) + [_opt(wopt), str(mw)], ans,
             shape="empty" if max(Fraction(begin), 0) >= min(Fraction(end), Fraction(size)) else "drawn", sample=inp)
    if segs is not None:
        # barStyled_shape: one segment in the bar's own style (no line feed inside) and then Segment.line()
        ok = len(segs) == 2 and segs[0][0] == 4 and "\n" not in segs[0][1] and segs[1] == (5, "\n")
        ctx.check(ok, "bar_styled_shape", inp, f"segments {segs!r}: expected [(own style, text), (None, line feed)]")


def run_bar(ctx, quick):
    from rich.style import Style

    env = LF.Env(40, color_system="standard")
    console = env.console()
    own = Style(color=BAR_COLOR, bgcolor=BAR_BGCOLOR)
    n = 0
    for size in [1, 3, 8, 10] + ([] if quick else [100, Fraction(5, 2)]):
        s = Fraction(size)
        pts = sorted({Fraction(-1), Fraction(0), s / 8, s / 4, s * 3 / 8, s / 2, s * 3 / 4, s * 15 / 16, s, s + 1})
        for begin in pts:
            for end in pts:
                for wopt in ([None, 5] if quick else [None, 0, 5, 20]):
                    for mw in ([0, 1, 2, 5, 8, 12] if quick else range(0, 13)):
                        _bar_case(ctx, console, own, size, begin, end, wopt, mw)
                        n += 1
    ctx.note("bars:bar_exhaustive", n)
    rng = ctx.rng
    for _ in range(200 if quick else 4000):
        den = rng.choice([1, 2, 8])
        size = Fraction(rng.randint(1, 200 * den), den)
        hi = int(size * 16) + 32
        begin, end = Fraction(rng.randint(-16, hi), 16), Fraction(rng.randint(-16, hi), 16)
        wopt = None if rng.random() < 0.5 else rng.randint(0, 120)
        _bar_case(ctx, console, own, size, begin, end, wopt, rng.randint(0, 150))
        ctx.note("bars:bar_random")


BARS_RULE = ("frames_pbar_styled / frames_bar_styled: bounded-exhaustive max_width 0..12 x width option (None / 0 / given / larger than "
             "max_width) x total in {0,1,3,7,100,5/2} x completed on the eighths of total plus -1, total+1, 2*total, total-1/16 x "
             "(ascii_only, legacy_windows, no_color, color_system) representatives, one ProgressBar per (total, width) updated in "
             "place and rendered on every console in turn; then seeded random ints / dyadic fractions; pulse=False only; a case is "
             "distinct by its request line")


def run_bars(ctx, quick):
    """ctx.rule is a string owned by props/c08.py: append BARS_RULE there."""
    run_pbar(ctx, quick)
    run_bar(ctx, quick)
    ctx.flush()
