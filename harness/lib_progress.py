"""Helpers for property C12 (progress accounting): injected clock, operation adapters for the real
rich.progress.Progress, canonical dumps, a spec-level tracker for direct evaluation, and a
deterministic thread scheduler (threads gated at the clock read outside the lock and at the
acquisition of the progress lock; no sleeps, no timing dependence).

Units.  Amounts are integers in units of 1/A step, times integers in ticks of 1/T second (A, T powers
of two, magnitudes far below 2**52/A), so every float the real code computes by + and - is exact and
`to_units` can turn it back into the integer the Lean model works with.
"""
import collections
import io
import math
import threading
from fractions import Fraction

STATS = collections.Counter()  # which derived values the dumps actually exercised (copied into the evidence)


class DomainError(Exception):
    """A real value left the exactly-representable domain (harness bug, never a property failure)."""


def to_units(x, scale):
    if x is None:
        return None
    f = Fraction(x) * scale
    if f.denominator != 1:
        raise DomainError(f"{x!r} is not a multiple of 1/{scale}")
    return int(f)


def opt(x):
    return "_" if x is None else str(x)


def frac(f):
    return f"{f.numerator}/{f.denominator}"


class Lazy:
    """input description built only when a check fails"""

    def __init__(self, fn):
        self.fn = fn
        self.val = None

    def __repr__(self):
        if self.val is None:
            self.val = repr(self.fn())
        return self.val


class Units:
    def __init__(self, A, T, int_only=False):
        self.A, self.T, self.int_only = A, T, int_only

    def amt(self, k):
        """Python value for k amount-units: int when possible (and sometimes a float), else float."""
        if k is None:
            return None
        if k % self.A == 0:
            q = k // self.A
            if self.int_only or q % 3 != 1 or abs(q) > 2 ** 50:
                return q
            return float(q)
        return k / self.A

    def time(self, k):
        if self.T == 1 and k % 2 == 0:
            return k
        return k / self.T


class Clock:
    """get_time: the k-th call returns readings[k] (ticks -> seconds)."""

    def __init__(self, readings, units, hook=None):
        self.readings = readings
        self.units = units
        self.k = 0
        self.hook = hook

    def __call__(self):
        if self.hook is not None:
            self.hook()
        if self.k >= len(self.readings):
            raise DomainError("clock exhausted (harness gave too few readings)")
        v = self.readings[self.k]
        self.k += 1
        return self.units.time(v)


def make_progress(clock, period_ticks, units, lock=None, terminal=False, auto_refresh=False):
    from rich.console import Console
    from rich.progress import Progress

    console = Console(file=io.StringIO(), force_terminal=terminal, width=60, color_system=None,
                      _environ={"TERM": "xterm"})
    p = Progress(console=console, auto_refresh=auto_refresh, get_time=clock,
                 speed_estimate_period=units.time(period_ticks), redirect_stdout=False, redirect_stderr=False)
    if lock is not None:
        p._lock = lock
    return p


# get_time() calls of one refresh() per visible task with the default columns on a terminal
# (4 x ProgressColumn.__call__ + BarColumn.render); 0 when the console is not a terminal
REFRESH_READS = 5


# ------------------------------------------------------------------ operations
# ("A", start, total, completed, visible, desc, fields)      desc: int n  <->  description "d<n>"
# ("S", id) ("P", id) ("D", id) ("V", id, amt)                fields: [(k, v)]  <->  f<k>=v
# ("U", id, total, completed, advance, visible, refresh, desc|None, fields)
# ("R", id, start, total, completed, visible, desc|None, fields)
# ("F",) Progress.refresh()   ("B",) Progress.start()   ("E",) Progress.stop()

def norm(op):
    k = op[0]
    if k == "A" and len(op) == 5:
        return op + (0, [])
    if k == "U" and len(op) == 7:
        return op + (None, [])
    if k == "R" and len(op) == 6:
        return op + (None, [])
    return op


def enc_fields(f):
    return ",".join(f"{k}:{v}" for k, v in f) if f else "-"


def enc_op(op):
    def b(x):
        return "_" if x is None else ("1" if x else "0")

    op = norm(op)
    k = op[0]
    if k == "A":
        return f"A {b(op[1])} {op[2]} {op[3]} {b(op[4])} {op[5]} {enc_fields(op[6])}"
    if k in "SPD":
        return f"{k} {op[1]}"
    if k == "U":
        return f"U {op[1]} {opt(op[2])} {opt(op[3])} {opt(op[4])} {b(op[5])} {b(op[6])} {opt(op[7])} {enc_fields(op[8])}"
    if k == "R":
        return f"R {op[1]} {b(op[2])} {opt(op[3])} {op[4]} {b(op[5])} {opt(op[6])} {enc_fields(op[7])}"
    if k == "V":
        return f"V {op[1]} {op[2]}"
    if k in "FBE":
        return k
    raise ValueError(op)


LAST = {"add_id": None}


def apply_op(p, op, u, glue=0):
    """Run one operation on the real Progress; returns 'ok' / 'KeyError' / 'err:Other:<cls>'."""
    op = norm(op)
    k = op[0]
    try:
        if k == "A":
            kw = {f"f{a}": v for a, v in op[6]}
            LAST["add_id"] = p.add_task(f"d{op[5]}", start=op[1], total=u.amt(op[2]), completed=u.amt(op[3]), visible=op[4], **kw)
        elif k == "S":
            p.start_task(op[1])
        elif k == "P":
            p.stop_task(op[1])
        elif k == "D":
            p.remove_task(op[1])
        elif k == "U":
            kw = {f"f{a}": v for a, v in op[8]}
            if op[2] is not None:
                kw["total"] = u.amt(op[2])
            if op[3] is not None:
                kw["completed"] = u.amt(op[3])
            if op[4] is not None:
                kw["advance"] = u.amt(op[4])
            if op[5] is not None:
                kw["visible"] = op[5]
            if op[7] is not None:
                kw["description"] = f"d{op[7]}"
            p.update(op[1], refresh=op[6], **kw)
        elif k == "R":
            kw = {f"f{a}": v for a, v in op[7]}
            if op[3] is not None:
                kw["total"] = u.amt(op[3])
            if op[5] is not None:
                kw["visible"] = op[5]
            if op[6] is not None:
                kw["description"] = f"d{op[6]}"
            p.reset(op[1], start=op[2], completed=u.amt(op[4]), **kw)
        elif k == "V":
            p.advance(op[1], u.amt(op[2]))
        elif k == "F":
            p.refresh()
        elif k == "B":
            p.start()
        elif k == "E":
            p.stop()
        else:
            raise ValueError(op)
    except KeyError:
        return "KeyError"
    except DomainError:
        raise
    except Exception as e:  # noqa: BLE001 - reported as a model/impl difference
        return "err:Other:" + type(e).__name__
    return "ok"


# ------------------------------------------------------------------ canonical dump of the real tasks
REL = Fraction(1, 10 ** 11)


def close(real, exact):
    """decision: is the float the code produced the exact value up to double rounding?"""
    if isinstance(real, bool) or not isinstance(real, (int, float)):
        return False
    if isinstance(real, float) and not math.isfinite(real):
        return False
    r = Fraction(real)
    return abs(r - exact) <= REL * max(1, abs(exact))


class Raised:
    """a derived-value getter of the real task raised"""

    def __init__(self, e):
        self.cls = type(e).__name__

    def __repr__(self):
        return "raise:" + self.cls


def get(task, attr):
    try:
        return getattr(task, attr)
    except DomainError:
        raise
    except Exception as e:  # noqa: BLE001
        return Raised(e)


def exact_percentage(total, completed):
    total, completed = Fraction(total), Fraction(completed)
    if total == 0:
        return Fraction(0)
    return min(Fraction(100), max(Fraction(0), completed / total * 100))


def exact_speed(task):
    """steps per second from the raw deque, exactly; None where the definition gives None."""
    if task.start_time is None:
        return None
    pr = list(task._progress)
    if not pr:
        return None
    tt = Fraction(pr[-1].timestamp) - Fraction(pr[0].timestamp)
    if tt == 0:
        return None
    return sum((Fraction(s.completed) for s in pr[1:]), Fraction(0)) / tt


def exact_time_remaining(task):
    if task.finished_time is not None:
        return 0
    sp = exact_speed(task)
    if not sp:
        return None
    return math.ceil((Fraction(task.total) - Fraction(task.completed)) / sp)


def canon_time_remaining(task):
    """canonical answer: the exact ceiling if the real value is the ceiling of a float within rounding
    distance of the exact quotient, else the real value marked as deviating."""
    real = get(task, "time_remaining")
    want = exact_time_remaining(task)
    if isinstance(real, Raised):
        return repr(real)
    if want is None or real is None:
        return "_" if (want is None and real is None) else f"float:{real!r}"
    if task.finished_time is not None:
        return "0" if real == 0 else f"float:{real!r}"
    x = (Fraction(task.total) - Fraction(task.completed)) / exact_speed(task)
    d = REL * max(1, abs(x))
    if isinstance(real, int) and math.ceil(x - d) <= real <= math.ceil(x + d):
        return str(want)
    return f"float:{real!r}"


def dec_desc(d):
    return d[1:] if isinstance(d, str) and d[:1] == "d" and d[1:].isdigit() else f"str:{d!r}"


def dec_field(k):
    return k[1:] if isinstance(k, str) and k[:1] == "f" and k[1:].isdigit() else f"str:{k!r}"


def dump_task(task, u, elapsed=False):
    A, T = u.A, u.T
    total = to_units(task.total, A)
    completed = to_units(task.completed, A)
    samples = " ".join(f"{to_units(s.timestamp, T)}:{to_units(s.completed, A)}" for s in task._progress)
    pe = exact_percentage(task.total, task.completed)
    pr = get(task, "percentage")
    pct = frac(pe) if close(pr, pe) and isinstance(pr, float) else f"float:{pr!r}"
    se = exact_speed(task)
    sr = get(task, "speed")
    if se is None or sr is None:
        sp = "_" if (se is None and sr is None) else f"float:{sr!r}"
    else:
        sp = frac(se * A / T) if close(sr, se) else f"float:{sr!r}"
    tr = canon_time_remaining(task)
    STATS["dump:speed=" + ("none" if sp == "_" else "value")] += 1
    STATS["dump:time_remaining=" + ("none" if tr == "_" else "zero" if tr == "0" else "value")] += 1
    STATS["dump:percentage=" + ("0" if pct == "0/1" else "100" if pct == "100/1" else "between")] += 1
    STATS["dump:samples=" + str(min(len(task._progress), 3)) + ("+" if len(task._progress) >= 3 else "")] += 1
    fields = [
        str(task.id), str(total), str(completed), opt(to_units(task.finished_time, T)),
        "1" if task.visible else "0", opt(to_units(task.start_time, T)), opt(to_units(task.stop_time, T)),
        samples, pct, sp, tr,
        ("1" if task.started else "0") + ("1" if task.finished else "0"), str(to_units(task.remaining, A)),
        dec_desc(task.description), " ".join(f"{dec_field(k)}:{v}" for k, v in task.fields.items()),
    ]
    if elapsed:
        el = get(task, "elapsed")
        fields.append(repr(el) if isinstance(el, Raised) else opt(to_units(el, T)))
    return ",".join(fields)


def dump(p, u, elapsed=False):
    return "|".join(dump_task(t, u, elapsed) for t in p.tasks)


# ------------------------------------------------------------------ spec-level tracker (direct evaluation)
class Spec:
    """What the statement of C12 says, kept independently of rich and of the Lean model:
    last explicitly set value + advances since; finish-time stability; taints for the hypotheses."""

    def __init__(self):
        self.next_id = 0
        self.base = {}      # id -> Fraction last explicitly set value
        self.advs = {}      # id -> Fraction sum of advances since
        self.neg = {}       # id -> a negative advance may sit in the samples
        self.cold = {}      # id -> advanced/updated while not started (since last clear)
        self.fin = {}       # id -> recorded finished_time (real value) or None
        self.rws = {}       # id -> the task was reset while it was stopped (stop_time survives reset)
        self.ever = set()   # every id ever handed out by add_task
        self.reused = []    # ids handed out twice

    def apply(self, op, u, started_before, stopped_before=False, real_id=None):
        """book-keeping for an operation that succeeded (or add_task)."""
        op = norm(op)
        k = op[0]
        if k in "FBE":
            return None
        if k == "A":
            i = self.next_id if real_id is None else real_id
            self.next_id += 1
            if i in self.ever:
                self.reused.append(i)
            self.ever.add(i)
            self.rws[i] = False
            self.base[i] = Fraction(u.amt(op[3]))
            self.advs[i] = Fraction(0)
            self.neg[i] = False
            self.cold[i] = False
            self.fin[i] = None
            return i
        i = op[1]
        if i not in self.base:
            return None
        if k == "D":
            for d in (self.base, self.advs, self.neg, self.cold, self.fin, self.rws):
                d.pop(i, None)
        elif k == "V":
            self.advs[i] += Fraction(u.amt(op[2]))
            if op[2] < 0:
                self.neg[i] = True
            if not started_before:
                self.cold[i] = True
        elif k == "U":
            if op[2] is not None:  # total changes: samples cleared
                self.neg[i] = False
                self.cold[i] = False
            if op[3] is not None:
                self.base[i] = Fraction(u.amt(op[3]))
                self.advs[i] = Fraction(0)
            elif op[4] is not None:
                self.advs[i] += Fraction(u.amt(op[4]))
            if not started_before:
                self.cold[i] = True
        elif k == "R":
            self.base[i] = Fraction(u.amt(op[4]))
            self.advs[i] = Fraction(0)
            self.neg[i] = False
            self.cold[i] = False
            if stopped_before:
                self.rws[i] = True
        return i


def evaluate(ctx, p, spec, op, res, before, site, inp, check_time=True, classify=None):
    """Direct evaluation of the statement of C12 on the real tasks after `op` (which returned `res`).
    `before` = {id: (started, finished_time)} observed before the operation."""
    tasks = {t.id: t for t in p.tasks}
    ok_all = True
    k = op[0] if op else None
    tgt = op[1] if op and k not in ("A", "F", "B", "E") else None
    ids = [t.id for t in p.tasks]
    ok_all &= ctx.check(len(set(ids)) == len(ids) and not spec.reused, site + ":ids_never_reused", inp,
                        f"task ids {ids}: add_task handed out {spec.reused} a second time" if spec.reused else f"duplicate ids {ids}")
    for i, t in tasks.items():
        if i not in spec.base:
            continue
        if not spec.rws.get(i, False):
            neg_el = t.start_time is not None and t.stop_time is not None and t.stop_time < t.start_time
            neg_fin = t.finished_time is not None and t.finished_time < 0
            ok_all &= ctx.check(not (neg_el or neg_fin), site + ":elapsed_nonneg", inp,
                                f"task {i} never reset while stopped, yet start={t.start_time!r} stop={t.stop_time!r} finished_time={t.finished_time!r}")
        elif (t.stop_time is not None and t.start_time is not None and t.stop_time < t.start_time):
            ctx.note("obs:negative-elapsed-after-reset-of-stopped-task")
        want = spec.base[i] + spec.advs[i]
        ok_all &= ctx.check(Fraction(t.completed) == want, site + ":completed_exact", inp,
                            f"task {i}: completed={t.completed!r}, last set value + advances since = {want}")
        pe = exact_percentage(t.total, t.completed)
        pr = get(t, "percentage")
        ok_all &= ctx.check(isinstance(pr, float) and close(pr, pe) and 0.0 <= pr <= 100.0,
                            site + ":percentage_spec", inp,
                            f"task {i}: percentage={pr!r} for completed={t.completed!r} total={t.total!r} (exact {pe})")
        if res == "ok" and k in ("V", "U") and tgt == i and t.started and Fraction(t.completed) >= Fraction(t.total):
            ok_all &= ctx.check(t.finished and t.finished_time is not None, site + ":finished_after_reaching_total", inp,
                                f"task {i} started, completed={t.completed!r} >= total={t.total!r} after {op} but finished={t.finished}")
        if i in before and before[i][1] is not None:
            changes = res == "ok" and tgt == i and (k == "R" or (k == "U" and op[2] is not None))
            if not changes:
                ok_all &= ctx.check(t.finished_time == before[i][1], site + ":finish_time_stable", inp,
                                    f"task {i}: finished_time went {before[i][1]!r} -> {t.finished_time!r} across {op}")
        if check_time and not spec.neg[i]:
            sp = get(t, "speed")
            good = sp is None or (not isinstance(sp, Raised) and sp >= 0)
            ok_all &= ctx.check(good, site + ":speed_nonneg", inp,
                                f"task {i}: speed={sp!r} with samples {list(t._progress)!r}",
                                finding=None if good or classify is None else classify(t))
            if not spec.cold[i]:
                tr = get(t, "time_remaining")
                good = tr is None or (not isinstance(tr, Raised) and tr >= 0)
                ok_all &= ctx.check(good, site + ":remaining_nonneg_when_running", inp,
                                    f"task {i}: time_remaining={tr!r} (completed={t.completed!r} total={t.total!r} speed={get(t, 'speed')!r})",
                                    finding=None if good or classify is None else classify(t))
    return ok_all


# ------------------------------------------------------------------ deterministic scheduler
class Sched:
    """Runs real threads one at a time.  A thread parks at every *yield point* (clock read outside the
    progress lock, outermost acquisition of the progress lock, Event.wait of the track thread, explicit
    points of the harness); the controller picks which parked thread performs its next step.  The log of
    (kind, tid) pairs is the schedule; replaying the same choices replays the run exactly."""

    def __init__(self):
        self.tl = threading.local()
        self.go = {}
        self.ctrl = threading.Semaphore(0)
        self.state = {}
        self.kind = {}
        self.waiting_for = {}
        self.events = []
        self.exc = {}
        self.first_park = {}
        self.threads = {}

    def current(self):
        return getattr(self.tl, "tid", None)

    # -- controller side
    def spawn(self, tid, fn):
        self.go[tid] = threading.Semaphore(0)
        self.state[tid] = "running"

        def runner():
            self.tl.tid = tid
            try:
                fn()
            except BaseException as e:  # noqa: BLE001
                self.exc[tid] = e
            finally:
                self.state[tid] = "done"
                self.ctrl.release()

        th = threading.Thread(target=runner, daemon=True)
        self.threads[tid] = th
        th.start()
        self._wait_ctrl()

    def _wait_ctrl(self):
        if not self.ctrl.acquire(timeout=60):
            raise RuntimeError("scheduler: running thread neither parked nor finished within 60 s")

    def runnable(self):
        out = []
        for tid, s in self.state.items():
            if s != "parked":
                continue
            w = self.waiting_for.get(tid)
            if w is not None and self.state.get(w) != "done":
                continue
            out.append(tid)
        return sorted(out, key=str)

    def step(self, tid):
        self.events.append((self.kind[tid], tid))
        self.waiting_for.pop(tid, None)
        self.state[tid] = "running"
        self.go[tid].release()
        self._wait_ctrl()

    def check_exc(self):
        for tid, e in self.exc.items():
            raise RuntimeError(f"scheduled thread {tid} raised {type(e).__name__}: {e}") from e

    # -- worker side
    def yield_point(self, kind, waiting_for=None):
        tid = self.current()
        if tid is None:
            return
        self.kind[tid] = kind
        if waiting_for is not None:
            self.waiting_for[tid] = waiting_for
        self.state[tid] = "parked"
        self.ctrl.release()
        self.go[tid].acquire()

    # -- threads created by the code under test (the track thread)
    def register_child(self, tid):
        self.go[tid] = threading.Semaphore(0)
        self.first_park[tid] = threading.Semaphore(0)
        self.state[tid] = "running"

    def child_enter(self, tid):
        self.tl.tid = tid
        self.kind[tid] = "s"
        self.state[tid] = "parked"
        self.first_park[tid].release()
        self.go[tid].acquire()

    def child_exit(self, tid):
        self.state[tid] = "done"
        self.ctrl.release()


class LockProxy:
    """Stands in for Progress._lock: a re-entrant lock whose outermost acquisition by a scheduled thread
    is a yield point.  A thread holding it never yields, so bodies are atomic in the explored schedules."""

    def __init__(self, sched):
        self.sched = sched
        self.real = threading.RLock()
        self.depth = {}
        self.acq_count = {}

    def held(self):
        return self.depth.get(self.sched.current(), 0) > 0

    def acquire(self, *a, **k):
        tid = self.sched.current()
        if self.depth.get(tid, 0) == 0:
            self.acq_count[tid] = self.acq_count.get(tid, 0) + 1
            if tid is not None:
                self.sched.yield_point("c")
        r = self.real.acquire(*a, **k)
        self.depth[tid] = self.depth.get(tid, 0) + 1
        return r

    def release(self):
        tid = self.sched.current()
        self.depth[tid] -= 1
        self.real.release()

    def __enter__(self):
        self.acquire()
        return self

    def __exit__(self, *a):
        self.release()


def make_guarded_task_class(sched, lock, violations):
    """rich.progress.Task whose attribute writes by scheduled threads are checked against the lock"""
    import rich.progress as rp

    class GuardedTask(rp.Task):
        def __setattr__(self, k, v):
            if sched.current() is not None and not lock.held():
                violations.append(k)
            object.__setattr__(self, k, v)

    return GuardedTask


class SchedEvent:
    """threading.Event for the track thread: wait() is a yield point and never sleeps."""

    def __init__(self, sched):
        self.sched = sched
        self.flag = False

    def set(self):
        self.flag = True

    def is_set(self):
        return self.flag

    def wait(self, timeout=None):
        self.sched.yield_point("w")
        return self.flag


def make_refresh_thread_class(sched):
    """Subclass of rich's _RefreshThread on the scheduler's primitives; `run` and `stop` are rich's own."""
    import rich.progress as rp

    class SchedRefreshThread(rp._RefreshThread):
        def __init__(self, progress, refresh_per_second=10):
            super().__init__(progress, refresh_per_second)
            self.done = SchedEvent(sched)
            self._tid = "refresh"

        def start(self):
            sched.register_child(self._tid)
            super().start()
            if not sched.first_park[self._tid].acquire(timeout=60):
                raise RuntimeError("refresh thread did not park")

        def run(self):
            sched.child_enter(self._tid)
            try:
                super().run()
            except BaseException as e:  # noqa: BLE001
                sched.exc[self._tid] = e
            finally:
                sched.child_exit(self._tid)

        def join(self, timeout=None):
            if sched.state.get(self._tid) != "done":
                sched.yield_point("j", waiting_for=self._tid)
            super().join(timeout)

    return SchedRefreshThread


def make_track_thread_class(sched, seen_log):
    """Subclass of rich's _TrackThread whose threading primitives are the scheduler's; `run`, `__enter__`,
    `__exit__` are rich's own code."""
    import rich.progress as rp

    class SchedTrackThread(rp._TrackThread):
        def __init__(self, progress, task_id, update_period):
            super().__init__(progress, task_id, update_period)
            self.done = SchedEvent(sched)
            self._tid = "track"
            self._count = 0

        @property
        def completed(self):
            if sched.current() == self._tid:
                seen_log.append((self._count, bool(self.done.flag)))
            return self._count

        @completed.setter
        def completed(self, v):
            self._count = v

        def start(self):
            sched.register_child(self._tid)
            super().start()
            if not sched.first_park[self._tid].acquire(timeout=60):
                raise RuntimeError("track thread did not park")

        def run(self):
            sched.child_enter(self._tid)
            try:
                super().run()
            except BaseException as e:  # noqa: BLE001
                sched.exc[self._tid] = e
            finally:
                sched.child_exit(self._tid)

        def join(self, timeout=None):
            if sched.state.get(self._tid) != "done":
                sched.yield_point("j", waiting_for=self._tid)
            super().join(timeout)

    return SchedTrackThread
