"""Helpers for C01 / C09 (the composition layer): renderable trees as plain Python tuples ("specs"), built both as
real rich objects and as requests for the Lean model (`Model/Layout.lean`, driver `Drv/C01.lean`); the independent
oracles of the direct evaluation (structural minimum, the property's domain, line widths).

spec :=  ("T", {text})                                   rich.text.Text
       | ("PAD", (t, r, b, l), expand, spec)             rich.padding.Padding
       | ("PANEL", {opts}, spec)                         rich.panel.Panel
       | ("ALIGN", {opts}, spec)                         rich.align.Align
       | ("CON", width|None, spec)                       rich.constrain.Constrain
       | ("STY", spec) | ("CAST", spec) | ("OPQ", spec)  rich.styled.Styled / object with __rich__ / object without __rich_measure__
       | ("GRP", fit, [spec])                            rich.console.RenderGroup
       | ("RULE", {opts}) | ("BAR", {opts}) | ("PBAR", {opts})
       | ("TABLE", {opts}, [({colopts}, header, footer, [cells])])
       | ("COLS", {opts}, [spec])                        rich.columns.Columns
       | ("TREE", node)   node := (label spec, guide_style, expanded, [node])
"""
import io
import os
import signal
import sys
from fractions import Fraction

from core import enc_bool, enc_str

HERE = os.path.dirname(os.path.abspath(__file__))

STYLES = ["", "bold", "italic", "red", "on blue"]
SID = {n: i for i, n in enumerate(STYLES)}
J = {None: "N", "default": "d", "left": "l", "center": "c", "right": "r", "full": "f"}
O = {None: "N", "fold": "f", "crop": "c", "ellipsis": "e", "ignore": "i"}
A = {"left": "l", "center": "c", "right": "r"}
GUIDE_STYLES = ["tree.line", "bold", "underline2", "not bold", "none"]
TABLE_BOXES = ["ASCII", "SQUARE", "MINIMAL", "SIMPLE", "HEAVY_HEAD", "ROUNDED", "DOUBLE", "HORIZONTALS", "SIMPLE_HEAVY", "MINIMAL_DOUBLE_HEAD"]
PANEL_BOXES = ["ROUNDED", "ASCII", "SQUARE", "HEAVY", "DOUBLE"]


class _File(io.StringIO):
    encoding = "utf-8"


def _cenv(c):
    """console spec: an int (width) or (width, ascii_only, legacy_windows, color_system)"""
    if isinstance(c, int):
        return (c, False, False, None)
    return tuple(c)


class _AsciiFile(io.StringIO):
    encoding = "ascii"


def make_console(cenv):
    from rich.console import Console

    width, ascii_only, legacy, color_system = _cenv(cenv)
    c = Console(width=width, height=25, file=_AsciiFile() if ascii_only else _File(), color_system=color_system, legacy_windows=legacy,
                safe_box=True, no_color=False, force_terminal=False, force_jupyter=False, _environ={})
    assert c.width == width and c.options.ascii_only == ascii_only and c.options.legacy_windows == legacy and c.tab_size == 8
    assert c.color_system == color_system
    return c


COLOR_SYSTEMS = [None, "standard", "256", "truecolor", "windows"]


def env_enc(cenv):
    width, ascii_only, legacy, color_system = _cenv(cenv)
    return f"{width},{enc_bool(ascii_only)},{enc_bool(legacy)},1,0,{COLOR_SYSTEMS.index(color_system)}"


class Cast:
    """an object that is cast to a renderable through `__rich__`"""

    def __init__(self, r):
        self.r = r

    def __rich__(self):
        return self.r


class Opaque:
    """a renderable without `__rich_measure__`"""

    def __init__(self, r):
        self.r = r

    def __rich_console__(self, console, options):
        yield self.r


_panel_names = None


def panel_box_names():
    global _panel_names
    if _panel_names is None:
        sys.path.insert(0, HERE)
        import lib_frames

        _panel_names = lib_frames.box_names()
    return _panel_names


# ----------------------------------------------------------------------------------------------- real objects
def build_text(d):
    from rich.text import Text

    t = Text(d["plain"], style=STYLES[d.get("style", 0)], justify=d.get("justify"), overflow=d.get("overflow"), no_wrap=d.get("no_wrap"),
             end=d.get("end", "\n"), tab_size=d.get("tab_size", 8))
    for a, b, s in d.get("spans", ()):
        t.stylize(STYLES[s], a, b)
    return t


def build(e):
    """a FRESH real rich object for the spec (Rule and Text.truncate mutate their arguments: never share)"""
    from rich import box as rbox
    from rich.align import Align
    from rich.bar import Bar
    from rich.columns import Columns
    from rich.console import RenderGroup
    from rich.constrain import Constrain
    from rich.padding import Padding
    from rich.panel import Panel
    from rich.progress_bar import ProgressBar
    from rich.rule import Rule
    from rich.styled import Styled
    from rich.table import Table
    from rich.tree import Tree

    k = e[0]
    if k == "T":
        return build_text(e[1])
    if k == "S":
        return e[1]
    if k == "PAD":
        return Padding(build(e[3]), tuple(e[1]), expand=e[2])
    if k == "PANEL":
        o = dict(e[1])
        o["box"] = getattr(rbox, o.get("box", "ROUNDED"))
        if "padding" in o:
            o["padding"] = tuple(o["padding"])
        if o.pop("title_styled", False) and o.get("title"):
            from rich.text import Text

            tt = Text(o["title"], style="italic")
            tt.stylize("bold", 0, max(1, len(o["title"]) // 2))
            o["title"] = tt
        if o.get("expand", True) is False and "width" not in o:
            o.pop("expand")
            return Panel.fit(build(e[2]), **o)
        return Panel(build(e[2]), **o)
    if k == "ALIGN":
        o = dict(e[1])
        a = o.pop("align")
        return Align(build(e[2]), a, **o)
    if k == "CON":
        return Constrain(build(e[2]), e[1])
    if k == "STY":
        return Styled(build(e[1]), "bold")
    if k == "CAST":
        return Cast(build(e[1]))
    if k == "OPQ":
        return Opaque(build(e[1]))
    if k == "GRP":
        return RenderGroup(*[build(c) for c in e[2]], fit=e[1])
    if k == "RULE":
        o = dict(e[1])
        if o.pop("title_styled", False) and o.get("title"):
            from rich.text import Text

            tt = Text(o["title"], style="italic")
            tt.stylize("bold", 0, max(1, len(o["title"]) // 2))
            o["title"] = tt
        return Rule(**o)
    if k == "BAR":
        o = e[1]
        return Bar(o["size"], o["begin"], o["end"], width=o.get("width"))
    if k == "PBAR":
        o = e[1]
        return ProgressBar(total=o.get("total", 100), completed=o.get("completed", 0), width=o.get("width"), pulse=o.get("pulse", False),
                           animation_time=o.get("time", 0))
    if k == "TABLE":
        o = dict(e[1])
        cols = e[2]
        box = o.pop("box", "HEAVY_HEAD")
        secs = o.pop("end_sections", None)
        for key in ("title", "caption"):
            if o.get(key) is not None:
                o[key] = build_text(o[key])
        if "padding" in o:
            o["padding"] = tuple(o["padding"])
        t = Table(box=None if box is None else getattr(rbox, box), **o)
        for co, h, f, _cells in cols:
            t.add_column(header=build(h), footer=build(f), **co)
        nrows = len(cols[0][3]) if cols else 0
        for i in range(nrows):
            t.add_row(*[build(c[3][i]) for c in cols], end_section=bool(secs[i]) if secs else False)
        return t
    if k == "COLS":
        o = dict(e[1])
        if o.get("title") is not None:
            o["title"] = build_text(o["title"])
        pad = tuple(o.pop("padding", (0, 1)))
        return Columns([build(c) for c in e[2]], pad, **o)
    if k == "TREE":

        def mk(node):
            label, gs, expanded, children = node
            t = Tree(build(label), guide_style=gs, expanded=expanded)
            t.children = [mk(c) for c in children]
            return t

        return mk(e[1])
    raise ValueError(k)


# ----------------------------------------------------------------------------------------------- wire format
def _opt(n):
    return "-" if n is None else str(int(n))


def _frac(x):
    f = Fraction(x)
    return [str(f.numerator), str(f.denominator)]


def enc_text_obj(t):
    """Drv/C02 `decText?` format, from the REAL Text object (so the constructor's processing is part of the tie)"""
    sid = lambda s: str(SID.get(s if isinstance(s, str) else str(s), 5))  # styles are opaque: any other name is "5"
    spans = "/".join(f"{sp.start},{sp.end},{sid(sp.style)}" for sp in t._spans)
    return ";".join([enc_str(t.plain), str(t._length), sid(t.style), spans, J[t.justify], O[t.overflow],
                     "N" if t.no_wrap is None else enc_bool(t.no_wrap), enc_str(t.end), "N" if t.tab_size is None else str(t.tab_size)])


def enc_text(d):
    return enc_text_obj(build_text(d))


def enc_opt_text(d):
    return "-" if d is None else enc_text(d)


def tri(v):
    return "-" if v is None else enc_bool(v)


def toks(e, console):
    k = e[0]
    if k == "T":
        return ["T", enc_text(e[1])]
    if k == "S":  # a str is what console.render_str makes of it (markup, emoji codes, highlighter spans)
        return ["S", enc_text_obj(console.render_str(e[1]))]
    if k == "PAD":
        return ["PAD"] + [str(x) for x in e[1]] + [enc_bool(e[2])] + toks(e[3], console)
    if k == "PANEL":
        o = e[1]
        d = list(o.get("padding", (0, 1)))
        sb = o.get("safe_box")
        return (["PANEL", str(panel_box_names().index(o.get("box", "ROUNDED"))), enc_str(o.get("title") or ""), A[o.get("title_align", "center")],
                 "-" if sb is None else enc_bool(sb), enc_bool(o.get("expand", True)), _opt(o.get("width")), str(len(d))]
                + [str(x) for x in d] + toks(e[2], console))
    if k == "ALIGN":
        o = e[1]
        return ["ALIGN", A[o["align"]], enc_bool(o.get("pad", True)), _opt(o.get("width"))] + toks(e[2], console)
    if k == "CON":
        return ["CON", _opt(e[1])] + toks(e[2], console)
    if k in ("STY", "CAST", "OPQ"):
        return [k] + toks(e[1], console)
    if k == "GRP":
        out = ["GRP", enc_bool(e[1]), str(len(e[2]))]
        for c in e[2]:
            out += toks(c, console)
        return out
    if k == "RULE":
        o = e[1]
        return ["RULE", enc_str(o.get("title", "")), enc_str(o.get("characters", "─")), enc_str(o.get("end", "\n")), A[o.get("align", "center")]]
    if k == "BAR":
        o = e[1]
        return ["BAR"] + _frac(o["size"]) + _frac(o["begin"]) + _frac(o["end"]) + [_opt(o.get("width"))]
    if k == "PBAR":
        o = e[1]
        return ["PBAR"] + _frac(o.get("total", 100)) + _frac(o.get("completed", 0)) + [_opt(o.get("width")), enc_bool(o.get("pulse", False))] + _frac(o.get("time", 0))
    if k == "TABLE":
        o = e[1]
        cols = e[2]
        pad = list(o.get("padding", (0, 1)))
        pad = pad * 4 if len(pad) == 1 else (pad * 2 if len(pad) == 2 else pad)
        nrows = len(cols[0][3]) if cols else 0
        secs = o.get("end_sections") or [False] * nrows
        box = o.get("box", "HEAVY_HEAD")
        out = ["TABLE", "-" if box is None else box, tri(o.get("safe_box")), enc_bool(o.get("show_header", True)), enc_bool(o.get("show_footer", False)),
               enc_bool(o.get("show_edge", True)), enc_bool(o.get("show_lines", False)), str(o.get("leading", 0))]
        out += [str(x) for x in pad]
        out += [enc_bool(o.get("pad_edge", True)), enc_bool(o.get("collapse_padding", False)), enc_bool(o.get("expand", False)),
                _opt(o.get("width")), _opt(o.get("min_width")), enc_opt_text(o.get("title")), enc_opt_text(o.get("caption")),
                J[o.get("title_justify", "center")], J[o.get("caption_justify", "center")], str(len(secs))]
        out += [enc_bool(s) for s in secs]
        out.append(str(len(cols)))
        for co, h, f, cells in cols:
            out += ["COL", J[co.get("justify", "left")], O[co.get("overflow", "ellipsis")], enc_bool(co.get("no_wrap", False)), _opt(co.get("width")),
                    _opt(co.get("min_width")), _opt(co.get("max_width")), _opt(co.get("ratio"))]
            out += toks(h, console) + toks(f, console) + [str(len(cells))]
            for c in cells:
                out += toks(c, console)
        return out
    if k == "COLS":
        o = e[1]
        pad = list(o.get("padding", (0, 1)))
        out = ["COLS", str(len(pad))] + [str(x) for x in pad]
        out += [_opt(o.get("width")), enc_bool(o.get("equal", False)), enc_bool(o.get("column_first", False)), enc_bool(o.get("right_to_left", False)),
                enc_bool(o.get("expand", False)), "-" if o.get("align") is None else A[o["align"]], enc_opt_text(o.get("title")), str(len(e[2]))]
        for c in e[2]:
            out += toks(c, console)
        return out
    if k == "TREE":

        def node(n):
            label, gs, expanded, children = n
            st = console.get_style(gs)
            out = ["N", tri(st.bold), tri(st.underline2), enc_bool(expanded), str(len(children))] + toks(label, console)
            for c in children:
                out += node(c)
            return out

        return ["TREE"] + node(e[1])
    raise ValueError(k)


def enc(e, console):
    return "|".join(toks(e, console))


def enc_opts(opts):
    return ",".join([J[opts.get("justify")], O[opts.get("overflow")], "N" if opts.get("no_wrap", False) is None else enc_bool(opts.get("no_wrap", False))])


# ----------------------------------------------------------------------------------------------- running real rich
class Timeout(BaseException):
    pass


def _alarm(_sig, _frm):
    raise Timeout()


def _guarded_once(f, seconds):
    old = signal.signal(signal.SIGALRM, _alarm)
    signal.setitimer(signal.ITIMER_REAL, seconds)
    try:
        return f()
    except Timeout:
        return Timeout
    except BaseException as ex:  # noqa: BLE001 - an undocumented exception is an observation, not a harness error
        if isinstance(ex, (KeyboardInterrupt, SystemExit)):
            raise
        return "err:Other:" + type(ex).__name__
    finally:
        signal.setitimer(signal.ITIMER_REAL, 0)
        signal.signal(signal.SIGALRM, old)


def guarded(f, seconds=20):
    """run f() with a wall-clock limit (a mutated loop may not terminate); every exception is an answer.  A first timeout is retried
    once with a longer limit: on a loaded machine a 0.2 s rendering has been seen to stall for more than 10 s."""
    r = _guarded_once(f, seconds)
    if r is Timeout:
        r = _guarded_once(f, 4 * seconds)
    return "err:Other:Timeout" if r is Timeout else r


def options_for(console, opts, w):
    o = console.options.update(width=w)
    o.justify = opts.get("justify")
    o.overflow = opts.get("overflow")
    o.no_wrap = opts.get("no_wrap", False)
    return o


def real_text(console, e, opts, w, obj=None):
    """the concatenated text of list(console.render(obj, options)) (control segments dropped), or err:…
    `obj` = an already built object to render AGAIN (state kept between renderings would show as a mismatch)"""

    def go():
        segs = list(console.render(build(e) if obj is None else obj, options_for(console, opts, w)))
        return "".join(s.text for s in segs if not s.is_control)

    return guarded(go)


def real_measure(console, e, w, obj=None):
    from rich.measure import Measurement

    def go():
        m = Measurement.get(console, build(e) if obj is None else obj, w)
        return (m.minimum, m.maximum)

    return guarded(go)


_ref = None


def width_table():
    """rich's CELL_WIDTHS as PARSED FROM THE SOURCE by the translator (harness/tables.py: `ast.literal_eval`, no import of rich) — the
    same rows the Lean model's `Gen.cellWidths` is generated from; nothing of rich.cells (binary search, cache) is involved"""
    try:
        import tables

        return list(tables._module_assign(os.path.join(tables.REPO, "rich", "_cell_widths.py"), "CELL_WIDTHS"))
    except Exception:  # noqa: BLE001 - the translator was refactored: fall back to the module's data (still not rich.cells)
        from rich._cell_widths import CELL_WIDTHS

        return list(CELL_WIDTHS)


_boundary = None


def boundary_chars():
    """Range-BOUNDARY characters of rich's width table, picked from the table itself (deterministic, no hand-made list): for the
    double-width and for the zero-width rows — the first five single-code-point ranges, and the FIRST and LAST code point of the first
    five longer ranges, of the five longest ranges and of the last two ranges.  (A comparison off by one in the table lookup —
    `>` / `>=`, `<` / `<=` — changes the width of exactly these and of no character inside a long range; the sixth seeded round.)
    Returns (wide, zero): two lists of one-character strings.  Control characters, surrogates and `str.splitlines` separators are left out."""
    global _boundary
    if _boundary is not None:
        return _boundary
    rows = [(a, b, (0 if w == -1 else w)) for a, b, w in width_table() if a >= 0x300]
    res = {}
    for width in (2, 0):
        rs = [(a, b) for a, b, w in rows if w == width]
        single = [r for r in rs if r[0] == r[1]][:5]
        longer = [r for r in rs if r[0] < r[1]]
        pick = single + longer[:5] + sorted(longer, key=lambda r: (r[0] - r[1], r[0]))[:5] + longer[-2:]
        cps = []
        for a, b in pick:
            for cp in (a, b):
                ch = chr(cp)
                if 0xD800 <= cp <= 0xDFFF or cp in (0x85, 0x2028, 0x2029) or not ch.isprintable() and width == 2:
                    continue
                if ch not in cps:
                    cps.append(ch)
        res[width] = cps
    _boundary = (res[2], res[0])
    return _boundary


def boundary_words():
    """words for the content alphabets: every boundary double-width character alone and in a run, zero-width boundary characters
    attached to a base letter"""
    wide, zero = boundary_chars()
    out = list(wide) + [c * 3 for c in wide[:6]] + ["a" + z for z in zero] + [wide[i % len(wide)] + z for i, z in enumerate(zero[:6])]
    return out


def char_width(ch):
    """first-match scan of CELL_WIDTHS (independent of rich.cells' binary search and cache)"""
    global _ref
    if _ref is None:
        _ref = width_table()
    cp = ord(ch)
    if 32 <= cp < 127:
        return 1
    for s, e_, w in _ref:
        if s <= cp <= e_:
            return 0 if w == -1 else w
    return 1


_cw_cache = {}


def cells(s):
    t = 0
    for ch in s:
        w = _cw_cache.get(ch)
        if w is None:
            w = _cw_cache[ch] = char_width(ch)
        t += w
    return t


def line_widths(text):
    return [cells(l) for l in text.split("\n")]


# ----------------------------------------------------------------------------------------------- structural minimum (independent of the Lean model)
def _lr(pad):
    pad = list(pad)
    if len(pad) == 1:
        return pad[0], pad[0]
    if len(pad) == 2:
        return pad[1], pad[1]
    return pad[3], pad[1]


def smin(e):
    """borders and padding plus room for one character (two if a double-width character occurs) in every innermost column"""
    k = e[0]
    if k == "T":
        return 2 if any(char_width(c) >= 2 for c in build_text(e[1]).plain) else 1
    if k == "S":
        from rich.text import Text

        return 2 if any(char_width(c) >= 2 for c in Text.from_markup(e[1]).plain) else 1
    if k == "PAD":
        return e[1][3] + e[1][1] + smin(e[3])
    if k == "PANEL":
        left, right = _lr(e[1].get("padding", (0, 1)))
        return max(2 + left + right + smin(e[2]), 4 if e[1].get("title") else 2)
    if k == "ALIGN":
        return smin(e[2])
    if k == "CON":
        return smin(e[2])
    if k in ("STY", "CAST", "OPQ"):
        return smin(e[1])
    if k == "GRP":
        return max([1] + [smin(c) for c in e[2]])
    if k in ("RULE", "BAR", "PBAR"):
        return 1
    if k == "TABLE":
        o, cols = e[1], e[2]
        box = o.get("box", "HEAVY_HEAD")
        extra = (2 if box is not None and o.get("show_edge", True) else 0) + (len(cols) - 1 if box is not None and cols else 0)
        left, right = _lr(o.get("padding", (0, 1)))
        total = 0
        for _co, h, f, cs in cols:
            inner = [1] + [smin(c) for c in cs]
            if o.get("show_header", True):
                inner.append(smin(h))
            if o.get("show_footer", False):
                inner.append(smin(f))
            total += left + right + max(inner)
        return max(1, extra + total, o.get("width") or 0)
    if k == "COLS":
        left, right = _lr(e[1].get("padding", (0, 1)))
        items = e[2]
        return max(1, sum(max(1, smin(c)) for c in items) + max(left, right) * max(0, len(items) - 1))
    if k == "TREE":

        def node(n, depth):
            label, _gs, expanded, children = n
            return max([4 * depth + smin(label)] + ([node(c, depth + 1) for c in children] if expanded else []))

        return node(e[1], 0)
    raise ValueError(k)


# ----------------------------------------------------------------------------------------------- the property's domain
def closed(e):
    """does the renderable always end its last line (static)"""
    k = e[0]
    if k == "T":
        return e[1].get("end", "\n") == "\n"
    if k == "RULE":
        return e[1].get("end", "\n") == "\n"
    if k == "PBAR":
        return False
    if k in ("CON",):
        return closed(e[2])
    if k in ("STY", "CAST", "OPQ"):
        return closed(e[1])
    if k == "GRP":
        return all(closed(c) for c in e[2])
    if k in ("TABLE", "COLS"):
        return all((e[1].get(key) or {}).get("end", "\n") == "\n" for key in ("title", "caption"))
    return True


def only_bars_open(e):
    """is every reason for `not closed(e)` a ProgressBar (the known finding F23)"""
    k = e[0]
    if k == "PBAR":
        return True
    if k == "CON":
        return only_bars_open(e[2])
    if k in ("STY", "CAST", "OPQ"):
        return only_bars_open(e[1])
    if k == "GRP":
        return all(closed(c) or only_bars_open(c) for c in e[2])
    return closed(e)


def eff_overflow(d, opts):
    return d.get("overflow") or opts.get("overflow") or "fold"


def domain(e, opts, console, w=None):
    """The Lean `Dom cfg r opts w` (Lemmas/LayoutBase.lean) for a renderable in EXPOSED position, rendered with `w` cells available
    (default: `console._verif_w`, the width of the current rendering).  Returns
    'in'        inside `Dom`;
    'f23'       inside, except that a ProgressBar is followed by a sibling in a group (known finding progressbar-no-newline);
    'floor:<n>' a root table with arbitrary columns inside `tableBudget` whose min_width binds: `table_general_bound` allows n more cells;
    'open'      ('open:f23' when a ProgressBar is also followed by a sibling) outside `Dom` only through the condition still marked NOT DISCHARGED in Props/C01.lean, Columns(width >= 1) (formerly also: a free table / Columns offered less than
                one cell per column inside a narrower Constrain / Align, Columns(width >= 1)): no counterexample is known — the check
                evaluates the bound there too, under its own site name, and any failure would be a new witness;
    'out'       outside `Dom` with a witness (`excluded_*`): text / str with effective overflow="ignore", an `end` other than "\n" (""
                is inside for texts and rules), a group member that does not end its line followed by a sibling, a table with width /
                min_width / no_wrap columns outside the budget, Columns(width=0)."""
    if w is None:
        w = getattr(console, "_verif_w", None)
        if w is None:
            # a caller that does not say at which width (harness/props/c09.py): the width-dependent conditions cannot be evaluated;
            # the undischarged region is then treated as inside, as it always was there
            r = _domain_at(e, opts, console, None)
            return {"open": "in", "open:f23": "f23"}.get(r, r)
    return _domain_at(e, opts, console, w)


def _domain_at(e, opts, console, w):
    domain = _domain_at  # recursive calls below thread the width explicitly
    k = e[0]
    res = "in"
    rank = {"in": 0, "f23": 1, "open": 2, "open:f23": 3, "out": 4}

    def join(r):
        nonlocal res
        if r.startswith("floor:"):
            r = "out"  # (a min_width floor is only accounted for when the table is the root)
        if {r, res} <= {"f23", "open", "open:f23"} and r != res:
            res = "open:f23"  # an undischarged condition AND a ProgressBar followed by a sibling
        elif rank[r] > rank[res]:
            res = r

    if k == "T":
        return "out" if eff_overflow(e[1], opts) == "ignore" or e[1].get("end", "\n") not in ("\n", "") else "in"
    if k == "S":
        return "out" if opts.get("overflow") == "ignore" else "in"
    if k in ("PAD", "PANEL", "TREE", "BAR", "PBAR"):
        return "in"
    if k == "RULE":
        return "out" if e[1].get("end", "\n") not in ("\n", "") else "in"
    if k in ("STY", "CAST", "OPQ"):
        return domain(e[1], opts, console, w)
    if k == "CON":
        # Dom (.constrain k c) o w = Dom c o (min k w): no condition on the inner width itself
        inner = w if (e[1] is None or w is None) else min(e[1], w)
        return domain(e[2], opts, console, inner)
    if k == "ALIGN":
        inner = w
        if w is not None:
            m = real_measure(console, e[2], console.width)
            if isinstance(m, str):
                return "out"
            inner = min(max(1, m[1]), w) if e[1].get("width") is None else min(max(1, m[1]), e[1]["width"], w)
        return domain(e[2], opts, console, inner)
    if k == "GRP":
        items = e[2]
        for i, c in enumerate(items):
            join(domain(c, opts, console, w))
            if i + 1 < len(items) and not closed(c):
                join("f23" if only_bars_open(c) else "out")
        return res
    if k == "TABLE":
        o, cols = e[1], e[2]
        for key in ("title", "caption"):
            d = o.get(key)
            if d is not None and (eff_overflow(d, opts) == "ignore" or d.get("end", "\n") != "\n"):
                return "out"
        if any(co.get("width") is not None or co.get("min_width") is not None or co.get("no_wrap", False) for co, _h, _f, _cs in cols):
            # columns that are not free to wrap: `tableBudget` (C07 width_bound_general), computed on the real table
            floor = table_general(e, console, w)
            return "in" if floor == 0 else ("out" if floor is None else "floor:%d" % floor)
        # free columns: inside `Dom` at EVERY width since the fourth deepening round (`free_table_below_one_cell_per_column`: below one cell
        # per column every column ends at exactly one cell) — formerly 'open' when the width the table is laid out for left less
        return "in"
    if k == "COLS":
        d = e[1].get("title")
        if d is not None and (eff_overflow(d, opts) == "ignore" or d.get("end", "\n") != "\n"):
            return "out"
        if e[1].get("width") == 0:
            return "out"  # witness `excluded_columns_width_zero`
        if e[1].get("width") is not None:
            return "open"
        return "in"  # fewer cells than items (inside a narrow Constrain / Align): discharged, `columnsConsole_decomp_any`
    raise ValueError(k)


def table_general(e, console, w):
    """for a table with columns that are not free to wrap, rendered with `w` cells available: None when the budget of C07's
    width_bound_general is not met (or a ratio is active, or w is unknown), else `floorSum` — the table may be that much wider than w.
    Computed on the REAL table: first-pass column measurements, Table._extra_width, Table._get_padding_width."""
    if w is None or e[0] != "TABLE" or not e[2]:
        return None
    o, cols = e[1], e[2]
    expands = o.get("expand", False) or o.get("width") is not None
    if expands and any(co.get("ratio") for co, _h, _f, _cs in cols):
        return None

    def go():
        t = build(e)
        max_width = (t.width if t.width is not None else w) - t._extra_width
        need = 0
        for col in t.columns:
            m = t._measure_column(console, col, max_width).maximum or 1
            need += m if (col.width is not None or col.no_wrap) else 1
        if need > max_width:
            return None
        return sum(col.min_width + t._get_padding_width(col._index) for col in t.columns if col.min_width is not None and col.width is None)

    r = guarded(go)
    return None if isinstance(r, str) else r


def ratio_zero_table(e):
    """an expanding table with an active ratio column AND a ratio=0 column (finding table-ratio-zero-column): the ratio=0
    column is handed 0 cells, and one cell by the re-measure after a collapse"""
    if e[0] != "TABLE":
        return False
    o, cols = e[1], e[2]
    expands = o.get("expand", False) or o.get("width") is not None
    ratios = [co.get("ratio") for co, _h, _f, _cs in cols]
    return bool(expands and any(r for r in ratios) and any(r == 0 for r in ratios))


def any_ratio_zero_table(e):
    k = e[0]
    if k == "TABLE":
        return ratio_zero_table(e) or any(any_ratio_zero_table(h) or any_ratio_zero_table(f) or any(any_ratio_zero_table(c) for c in cs) for _co, h, f, cs in e[2])
    if k == "PAD":
        return any_ratio_zero_table(e[3])
    if k in ("PANEL", "ALIGN", "CON"):
        return any_ratio_zero_table(e[2])
    if k in ("STY", "CAST", "OPQ"):
        return any_ratio_zero_table(e[1])
    if k in ("GRP", "COLS"):
        return any(any_ratio_zero_table(c) for c in e[2])
    if k == "TREE":

        def node(n):
            return any_ratio_zero_table(n[0]) or any(node(c) for c in n[3])

        return node(e[1])
    return False


def has_styled_rule(e):
    """a Rule whose title is a Text object: Rule.__rich_console__ truncates that object in place, so rendering the same Rule
    twice (first narrow, then wide) keeps the narrow title — state outside the composition model (rule.py:67-79)"""
    k = e[0]
    if k == "RULE":
        return bool(e[1].get("title_styled") and e[1].get("title"))
    if k == "PAD":
        return has_styled_rule(e[3])
    if k in ("PANEL", "ALIGN", "CON"):
        return has_styled_rule(e[2])
    if k in ("STY", "CAST", "OPQ"):
        return has_styled_rule(e[1])
    if k in ("GRP", "COLS"):
        return any(has_styled_rule(c) for c in e[2])
    if k == "TABLE":
        return any(has_styled_rule(h) or has_styled_rule(f) or any(has_styled_rule(c) for c in cs) for _co, h, f, cs in e[2])
    if k == "TREE":

        def node(n):
            return has_styled_rule(n[0]) or any(node(c) for c in n[3])

        return node(e[1])
    return False


def has_kind(e, kind):
    k = e[0]
    if k == kind:
        return True
    if k in ("PAD",):
        return has_kind(e[3], kind)
    if k in ("PANEL", "ALIGN", "CON"):
        return has_kind(e[2], kind)
    if k in ("STY", "CAST", "OPQ"):
        return has_kind(e[1], kind)
    if k in ("GRP", "COLS"):
        return any(has_kind(c, kind) for c in e[2])
    if k == "TABLE":
        return any(has_kind(h, kind) or has_kind(f, kind) or any(has_kind(c, kind) for c in cs) for _co, h, f, cs in e[2])
    if k == "TREE":

        def node(n):
            return has_kind(n[0], kind) or any(node(c) for c in n[3])

        return node(e[1])
    return False


def depth(e):
    k = e[0]
    if k == "PAD":
        return 1 + depth(e[3])
    if k in ("PANEL", "ALIGN", "CON"):
        return 1 + depth(e[2])
    if k in ("STY", "CAST", "OPQ"):
        return 1 + depth(e[1])
    if k in ("GRP", "COLS"):
        return 1 + max([0] + [depth(c) for c in e[2]])
    if k == "TABLE":
        return 1 + max([0] + [max([depth(h), depth(f)] + [depth(c) for c in cs]) for _co, h, f, cs in e[2]])
    if k == "TREE":

        def node(n):
            return max([depth(n[0])] + [node(c) for c in n[3]])

        return 1 + node(e[1])
    return 0


# ----------------------------------------------------------------------------------------------- generators
WORDS = ["a", "ab", "abc", "hello", "x", "あ", "あい", "😽", "à", "b​c", "wörld", "supercalifragilistic", "漢字かな交じり文", "e̊e̊",
         "がぎぐげご", "あ̀い̀う̀"]  # the last two: #code points == #cells with no one-cell character


def gen_plain(rng, rich_chars=True):
    n = rng.choice([0, 1, 1, 2, 2, 3, 4, 6, 9])
    parts = []
    bw = boundary_words()
    for _ in range(n):
        w = rng.choice(WORDS if rich_chars else WORDS[:5])
        if rich_chars and rng.random() < 0.12:  # a range-boundary character of the width table (first / last code point of a range)
            w = rng.choice(bw)
        parts.append(w)
        r = rng.random()
        parts.append(" " if r < 0.7 else ("\n" if r < 0.85 else ("  " if r < 0.93 else "")))
    s = "".join(parts)
    if rng.random() < 0.06:
        s = " " + s
    if rng.random() < 0.05:
        s = s.replace(" ", "\t", 1)
    if rng.random() < 0.5:
        s = s.rstrip(" ")
    return s


def gen_text(rng, simple=False):
    plain = gen_plain(rng)
    d = {"plain": plain}
    if rng.random() < 0.4 and plain:
        n = len(plain)
        d["spans"] = [tuple(sorted((rng.randint(0, n), rng.randint(0, n)))) + (rng.randint(1, 4),) for _ in range(rng.randint(1, 3))]
    if rng.random() < 0.2:
        d["style"] = rng.randint(1, 4)
    if not simple:
        if rng.random() < 0.25:
            d["justify"] = rng.choice(["default", "left", "center", "right", "full"])
        if rng.random() < 0.25:
            d["overflow"] = rng.choice(["fold", "crop", "ellipsis", "ellipsis", "ignore"])
        if rng.random() < 0.1:
            d["no_wrap"] = rng.choice([True, False])
    return d


def gen_pad(rng):
    return rng.choice([(0, 0, 0, 0), (0, 1, 0, 1), (1, 1, 1, 1), (0, 2, 0, 0), (0, 0, 1, 3), (1, 2, 0, 1), (0, 3, 0, 2)])


TITLES = [None, None, "T", "hello title", "あ̀x", "two\nlines", "a b", "tab\there", "nb\xa0sp x", "a rather long panel title that will not fit a narrow panel"]


STRS = ["", "plain str", "a [bold]marked[/bold] up str", "emoji :smiley: code", "日本語 str 42", "two\nlines True", "x" * 17, "[red]r[/red] [b]b[/b]"]


def gen_leaf(rng):
    r = rng.random()
    if r < 0.08:
        return ("S", rng.choice(STRS))
    if r < 0.72:
        return ("T", gen_text(rng))
    if r < 0.80:
        o = {}
        if rng.random() < 0.6:
            o["title"] = rng.choice(["t", "Title", "あい", "a b c", "long title here"])
        if rng.random() < 0.3:
            o["characters"] = rng.choice(["-", "=*", "あ", "─"])
        if rng.random() < 0.5:
            o["align"] = rng.choice(["left", "center", "right"])
        if rng.random() < 0.25:
            o["title_styled"] = True
        if rng.random() < 0.1:
            o["end"] = ""
        return ("RULE", o)
    if r < 0.88:
        size = rng.choice([1, 10, 100])
        b = rng.choice([0, 0.25, 0.5, 2, 5])
        o = {"size": size, "begin": b, "end": rng.choice([b, b + 0.5, size / 2, size, size + 3])}
        if rng.random() < 0.5:
            o["width"] = rng.choice([1, 3, 8, 20])
        return ("BAR", o)
    o = {"total": rng.choice([100, 7, 0]), "completed": rng.choice([0, 3, 50, 100, 120])}
    if rng.random() < 0.6:
        o["width"] = rng.choice([1, 2, 5, 12])
    if rng.random() < 0.15:
        o["pulse"] = True
        o["time"] = rng.choice([0, 0.5, 1.25])
    return ("PBAR", o)


def gen_col_opts(rng, free):
    co = {}
    if rng.random() < 0.5:
        co["justify"] = rng.choice(["left", "center", "right", "full", "default"])
    if rng.random() < 0.5:
        co["overflow"] = rng.choice(["fold", "crop", "ellipsis", "ignore"])
    if rng.random() < 0.25:
        co["max_width"] = rng.choice([1, 3, 6, 12])
    if rng.random() < 0.2:
        co["ratio"] = rng.choice([1, 2, 3, 1, 2, 0])
    if not free:
        r = rng.random()
        if r < 0.35:
            co["width"] = rng.choice([1, 3, 7])
        elif r < 0.6:
            co["min_width"] = rng.choice([2, 5, 9])
        elif r < 0.85:
            co["no_wrap"] = True
    return co


def gen_table(rng, d, free=None):
    if free is None:
        free = rng.random() < 0.75
    ncols = rng.choice([1, 2, 2, 3, 4]) if rng.random() > 0.04 else 0
    nrows = rng.choice([0, 1, 1, 2, 3]) if ncols else 0
    o = {"box": rng.choice(TABLE_BOXES + [None, None])}
    if rng.random() < 0.15:
        o["safe_box"] = rng.choice([True, False])
    for key, p in (("show_header", 0.3), ("show_footer", 0.3), ("show_edge", 0.25), ("show_lines", 0.25), ("pad_edge", 0.3),
                   ("collapse_padding", 0.3), ("expand", 0.3)):
        if rng.random() < p:
            o[key] = key in ("show_footer", "show_lines", "collapse_padding", "expand")
    if rng.random() < 0.2:
        o["leading"] = rng.choice([1, 2])
    if rng.random() < 0.5:
        o["padding"] = gen_pad(rng)
    if rng.random() < 0.15:
        o["min_width"] = rng.choice([0, 6, 15, 30])
    if rng.random() < 0.08:
        o["width"] = rng.choice([8, 15, 30])
    if rng.random() < 0.25:
        o["title"] = gen_text(rng, simple=rng.random() < 0.7)
        if rng.random() < 0.5:
            o["title_justify"] = rng.choice(["left", "center", "right", "full"])
    if rng.random() < 0.15:
        o["caption"] = gen_text(rng, simple=True)
        if rng.random() < 0.5:
            o["caption_justify"] = rng.choice(["left", "right"])
    if nrows and rng.random() < 0.3:
        o["end_sections"] = [rng.random() < 0.4 for _ in range(nrows)]
    if ncols >= 2 and rng.random() < 0.12:  # expanding table: ratio columns next to a wide ordinary column
        o["expand"] = True
    cols = []
    for _ in range(ncols):
        cols.append((gen_col_opts(rng, free), gen_tree(rng, 0) if rng.random() < 0.8 else gen_tree(rng, d - 1), ("T", gen_text(rng, simple=True)),
                     [gen_tree(rng, d - 1) for _ in range(nrows)]))
    return ("TABLE", o, cols)


def gen_node(rng, d, fan):
    label = gen_tree(rng, d - 1)
    kids = [gen_node(rng, d - 1, max(0, fan - 1)) for _ in range(rng.randint(0, fan))] if d > 0 else []
    return (label, rng.choice(GUIDE_STYLES), rng.random() < 0.85, kids)


def gen_tree(rng, d):
    """a random renderable tree of nesting depth <= d"""
    if d <= 0 or rng.random() < 0.18:
        return gen_leaf(rng)
    r = rng.random()
    if r < 0.12:
        return ("PAD", gen_pad(rng), rng.random() < 0.6, gen_tree(rng, d - 1))
    if r < 0.26:
        o = {}
        if rng.random() < 0.5:
            o["box"] = rng.choice(PANEL_BOXES)
        t = rng.choice(TITLES)
        if t is not None:
            o["title"] = t
            if rng.random() < 0.5:
                o["title_align"] = rng.choice(["left", "center", "right"])
            # the spans of a styled title are not modelled (PanelOpts.title is the plain text): they only show when an over-long line
            # is cropped exactly at a zero-width character, so styled titles are generated without zero-width characters
            if rng.random() < 0.25 and all(char_width(ch) > 0 for ch in t):
                o["title_styled"] = True
        if rng.random() < 0.35:
            o["expand"] = False
        if rng.random() < 0.2:
            o["width"] = rng.choice([4, 9, 17, 30])
        if rng.random() < 0.5:
            o["padding"] = rng.choice([(0,), (1,), (0, 1), (1, 2), (0, 0, 1, 3), (0, 2, 0, 0)])
        return ("PANEL", o, gen_tree(rng, d - 1))
    if r < 0.34:
        o = {"align": rng.choice(["left", "center", "right"])}
        if rng.random() < 0.3:
            o["pad"] = False
        if rng.random() < 0.25:
            o["width"] = rng.choice([3, 8, 20])
        return ("ALIGN", o, gen_tree(rng, d - 1))
    if r < 0.40:
        return ("CON", rng.choice([None, 2, 5, 12, 40]), gen_tree(rng, d - 1))
    if r < 0.45:
        return ("STY", gen_tree(rng, d - 1))
    if r < 0.49:
        c = gen_tree(rng, d - 1)
        return ("CAST", c) if c[0] != "CAST" else c
    if r < 0.53:
        return ("OPQ", gen_tree(rng, d - 1))
    if r < 0.65:
        return ("GRP", rng.random() < 0.8, [gen_tree(rng, d - 1) for _ in range(rng.choice([0, 1, 2, 2, 3]))])
    if r < 0.83:
        return gen_table(rng, d)
    if r < 0.92:
        o = {}
        if rng.random() < 0.5:
            o["padding"] = rng.choice([(0, 1), (0,), (1, 2), (0, 0, 0, 3), (0, 2, 0, 0), (0, 1, 0, 3), (1, 3, 0, 1)])
        for key in ("equal", "column_first", "right_to_left", "expand"):
            if rng.random() < 0.3:
                o[key] = True
        if rng.random() < 0.3:
            o["align"] = rng.choice(["left", "center", "right"])
        if rng.random() < 0.15:
            o["title"] = gen_text(rng, simple=True)
        if rng.random() < 0.2:
            o["width"] = rng.choice([0, 1, 3, 6, 10, 25])
        return ("COLS", o, [gen_tree(rng, d - 1) for _ in range(rng.choice([0, 1, 2, 3, 5]))])
    return ("TREE", gen_node(rng, d, 2))
