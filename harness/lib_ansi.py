"""Helpers for the C19 check (ANSI decoder / truecolor encoder / FileProxy).

* wire encoders mirroring lean/RichModel/Drv/C19.lean;
* an SGR interpreter written from ECMA-48 / ISO 8613-6 (NOT from rich/ansi.py): the oracle for "what
  does this escape-coded stream mean per character";
* the specification of the proxy as a 15-line function over the flattened character stream.
"""
from core import enc_str

ATTRS = ["bold", "dim", "italic", "underline", "blink", "blink2", "reverse", "conceal", "strike", "underline2", "frame", "encircle", "overline"]
ESC = "\x1b"


# ------------------------------------------------------------------ wire formats
def enc_optstr(s):
    return "-" if s is None else "=" + enc_str(s)


def enc_color(c):
    if c is None:
        return "-"
    num = "-" if c.number is None else str(int(c.number))
    trip = "-" if c.triplet is None else ".".join(str(int(x)) for x in c.triplet)
    return f"{enc_str(c.name)}/{int(c.type)}/{num}/{trip}"


def enc_style(s):
    return "|".join([enc_color(s._color), enc_color(s._bgcolor), str(s._attributes), str(s._set_attributes), enc_optstr(s._link)])


def enc_span_style(st):
    from rich.style import Style

    if isinstance(st, Style):
        return enc_style(st)
    if st == "":
        return "E"
    return "Q=" + enc_str(str(st))


def enc_text(t):
    """plain^span;span… of a rich Text (span styles: Style fields, `E` for the "" style)."""
    return enc_str(t.plain) + "^" + ";".join(f"{s.start}~{s.end}~{enc_span_style(s.style)}" for s in t.spans)


def enc_final(st):
    return enc_style(st) + "|n" + ("0" if st else "1")


def enc_decoded(lines, final, err):
    return f"{len(lines)}#" + "#".join(enc_text(t) for t in lines) + "!" + enc_final(final) + "!" + ("ok" if err is None else "err:" + type(err).__name__)


def enc_seg(text, style, link_id):
    if style is None:
        st = "-"
    else:
        st = enc_style(style) + "|n" + ("0" if style else "1")
    return f"{enc_str(text)}~{st}~{enc_str(link_id)}"


def enc_segs(segs):
    return f"{len(segs)}:" + ";".join(enc_seg(*s) for s in segs)


def enc_ops(ops):
    return ",".join("W=" + enc_str(o[1]) if o[0] == "w" else ("F1" if o[1] else "F0") for o in ops)


# ------------------------------------------------------------------ ECMA-48 SGR interpreter (oracle)
def _blank():
    return {"on": frozenset(), "fg": None, "bg": None}


def sgr_fold(state, params, off_single=False):
    """Apply one SGR control function (list of numeric parameters; empty = [0]).
    `off_single=True` is NOT the standard: 24 / 25 then leave the double underline / rapid blink on (used only to
    recognise that known deviation of rich's decoder)."""
    on, fg, bg = set(state["on"]), state["fg"], state["bg"]
    ps = list(params) or [0]
    i = 0
    SET = {1: "bold", 2: "dim", 3: "italic", 4: "underline", 5: "blink", 6: "blink2", 7: "reverse", 8: "conceal", 9: "strike",
           21: "underline2", 51: "frame", 52: "encircle", 53: "overline"}
    OFF = {22: ("bold", "dim"), 23: ("italic",), 24: ("underline", "underline2"), 25: ("blink", "blink2"), 27: ("reverse",),
           28: ("conceal",), 29: ("strike",), 54: ("frame", "encircle"), 55: ("overline",)}
    if off_single:
        OFF[24], OFF[25] = ("underline",), ("blink",)
    while i < len(ps):
        p = ps[i]
        i += 1
        if p == 0:
            on, fg, bg = set(), None, None
        elif p in SET:
            on.add(SET[p])
        elif p in OFF:
            on.difference_update(OFF[p])
        elif 30 <= p <= 37:
            fg = ("idx", p - 30)
        elif 90 <= p <= 97:
            fg = ("idx", p - 90 + 8)
        elif 40 <= p <= 47:
            bg = ("idx", p - 40)
        elif 100 <= p <= 107:
            bg = ("idx", p - 100 + 8)
        elif p == 39:
            fg = None
        elif p == 49:
            bg = None
        elif p in (38, 48):
            col = None
            if i < len(ps) and ps[i] == 5 and i + 1 < len(ps):
                col = ("idx", ps[i + 1])
                i += 2
            elif i < len(ps) and ps[i] == 2 and i + 3 < len(ps):
                col = ("rgb", ps[i + 1], ps[i + 2], ps[i + 3])
                i += 4
            else:
                i = len(ps)  # truncated extended colour: nothing more can be read
            if col is not None:
                if p == 38:
                    fg = col
                else:
                    bg = col
    return {"on": frozenset(on), "fg": fg, "bg": bg}


def cell_meaning(cell):
    """(char, on-attributes, fg, bg, link) of a term.Screen cell `(ch, sgr, link)`."""
    ch, sgr, link = cell
    st = _blank()
    for ps in sgr:
        st = sgr_fold(st, ps)
    return (ch, st["on"], st["fg"], st["bg"], link)


def stream_meaning(s, deviation=None):
    """Per character meaning of an escape-coded string without cursor movement: list of rows, each a list of
    (char, on, fg, bg, link).  Uses the independent tokenizer of harness/term.py; SGR state is folded here
    (a 0 anywhere in a parameter list resets).
    `deviation` (None = the standard) names ONE known deviation of rich's decoder to apply instead, so that a failure can
    be recognised as exactly that deviation: "empty" (omitted parameters dropped), "reset-link" (SGR 0 drops the link),
    "off-single" (24 / 25 keep the double variants)."""
    import re

    import term

    rows = [[]]
    st = _blank()
    link = None
    unknown = 0
    if deviation == "osc-bel":
        # rich 9.10.0: an OSC string ending in BEL is not an OSC token; re_csi strips the "ESC ]" and the rest is text
        s = re.sub(r"\x1b\]([^\x07\x1b\n]*)\x07", lambda m: m.group(1), s)
    if deviation == "cr":
        # rich 9.10.0: what follows the LAST carriage return of each line (a trailing CR erases the line)
        s = "\n".join(l.rsplit("\r", 1)[-1] for l in s.split("\n"))
    if deviation == "csi-lazy":
        # rich 9.10.0: `ESC [ (.*?) m` — any CSI start swallows up to the next "m" and is read as SGR parameters
        def lazy(m):
            codes = []
            for p in m.group(1).split(";"):
                if p == "":
                    codes.append("0")
                elif p.isdigit() and p.isascii():
                    codes.append(str(min(255, int(p))))
            return "\x1b[" + ";".join(codes) + "m" if codes else ""
        s = re.sub(r"\x1b\[([^\n]*?)m", lazy, s)
    if deviation == "empty":
        def drop(m):
            ps = [p for p in m.group(1).split(";") if p != ""]
            return "\x1b[" + ";".join(ps) + "m" if ps else ""
        s = re.sub(r"\x1b\[([0-9;]*)m", drop, s)
    for t in term.tokenize(s):
        k = t[0]
        if k == "T":
            for ch in t[1]:
                rows[-1].append((ch, st["on"], st["fg"], st["bg"], link))
        elif k == "LF":
            rows.append([])
        elif k == "SGR":
            st = sgr_fold(st, t[1], off_single=deviation == "off-single")
            if deviation == "reset-link" and 0 in (list(t[1]) or [0]):
                link = None
        elif k == "OSC8":
            link = t[2] or None
        else:
            unknown += 1
    return rows, unknown


def style_key(st):
    """Terminal meaning of a rich Style (or None): (on-attributes, fg, bg, link)."""
    if st is None:
        return (frozenset(), None, None, None)

    def ck(c):
        if c is None or c.is_default:
            return None
        if c.triplet is not None and c.number is None:
            return ("rgb",) + tuple(int(x) for x in c.triplet)
        return ("idx", int(c.number))

    on = frozenset(a for a in ATTRS if getattr(st, a))
    return (on, ck(st.color), ck(st.bgcolor), st.link or None)


def strict_color(c):
    """(type, number, triplet) of a Color, the name left out."""
    if c is None:
        return None
    return (int(c.type), None if c.number is None else int(c.number), None if c.triplet is None else tuple(int(x) for x in c.triplet))


def strict_key(st):
    if st is None:
        return (frozenset(), None, None, None)
    return (frozenset(a for a in ATTRS if getattr(st, a)), strict_color(st.color), strict_color(st.bgcolor), st.link or None)


def text_char_styles(text, combine):
    """Per character style of a decoded Text: combination (in span order) of the spans covering it."""
    out = []
    for i in range(len(text.plain)):
        sts = [s.style for s in text.spans if s.start <= i < s.end and not isinstance(s.style, str)]
        out.append(combine(sts) if sts else None)
    return out


# ------------------------------------------------------------------ proxy specification
def spec_units(ops):
    """What must be printed, in order: the flattened character stream of all writes is cut at every newline
    (always a unit, even if empty) and at every flush (a unit only if something is pending).  Where one
    write ends and the next begins plays no role."""
    units, cur = [], []
    for op in ops:
        if op[0] == "w":
            for ch in op[1]:
                if ch == "\n":
                    units.append("".join(cur))
                    cur = []
                else:
                    cur.append(ch)
        else:
            if cur:
                units.append("".join(cur))
                cur = []
    return units, "".join(cur)


# ------------------------------------------------------------------ lines with stripped control characters (oracle)
STRIP_CTRL = ("\x08", "\x0b", "\x0c")  # BS VT FF: rich.control.strip_control_codes removes them (and CR) from appended text; BEL is kept


def ctl_stream(parts):
    """The characters written for a structured line: ("t", text) | ("c", control char) | ("s", SGR params) | ("l", url or None) | ("cr",)."""
    out = []
    for p in parts:
        if p[0] in ("t", "c"):
            out.append(p[1])
        elif p[0] == "s":
            out.append(ESC + "[" + ";".join(str(x) for x in p[1]) + "m")
        elif p[0] == "l":
            out.append(ESC + "]8;;" + (p[1] or "") + ESC + "\\")
        else:
            out.append("\r")
    return "".join(out)


def ctl_line_meaning(parts, state=None, link=None):
    """Per character meaning of ONE structured line, computed from its structure (no tokenizer involved, nothing shared
    with the Lean model or rich): the characters of the text parts, each with the SGR state (ECMA-48 fold) and hyperlink
    in force where it stands; BS / VT / FF occupy no cell and do not move any styling (a BEL outside an OSC string is an
    ordinary character of the text and keeps its place); carriage returns at the END
    of the line erase nothing; what precedes the last other carriage return is not shown and — as decode_line cuts it
    off before reading any escape — has no effect on the state either.
    Returns (cells, state, link): the state and link carried to the next line decoded by the same decoder."""
    st = state or _blank()
    parts = list(parts)
    while parts and parts[-1][0] == "cr":
        parts.pop()
    last = max((i for i, p in enumerate(parts) if p[0] == "cr"), default=-1)
    cells = []
    for p in parts[last + 1:]:
        if p[0] == "t" or (p[0] == "c" and p[1] not in STRIP_CTRL):
            for ch in p[1]:
                cells.append((ch, st["on"], st["fg"], st["bg"], link))
        elif p[0] == "s":
            st = sgr_fold(st, p[1])
        elif p[0] == "l":
            link = p[1] or None
    return cells, st, link
