"""Helpers for property C18 (colour down-conversion): wire encoding of colours, the *independent*
oracle used for the direct evaluation of the property on rich's own outputs, and the worker
functions run in a multiprocessing pool (the pool only parallelises calls into real rich on inputs
that were generated deterministically in the parent from ctx.rng).
"""
from core import enc_opt, enc_str

SYSTEMS = (1, 2, 3, 4)  # STANDARD, EIGHT_BIT, TRUECOLOR, WINDOWS

SLUG_STD_RENUMBER = "downgrade-standard-renumbers-16-colour-index"


# ------------------------------------------------------------------ wire format
def unwrap(f):
    """the function behind functools.lru_cache, or f itself when the code does not (any longer) cache it that way"""
    return getattr(f, "__wrapped__", f)


def enc_triplet(t):
    return "-" if t is None else "%s,%s,%s" % (t[0], t[1], t[2])


def color_fields(c):
    """name, type, number, triplet fields of a request."""
    return [enc_str(c.name), int(c.type), enc_opt(c.number), enc_triplet(c.triplet)]


def enc_color(c):
    return "%d|%s|%s|%s" % (int(c.type), enc_opt(c.number), enc_triplet(c.triplet), enc_str(c.name))


def enc_exc(e):
    n = type(e).__name__
    if n in ("AssertionError", "IndexError", "ValueError"):
        return "err:" + n
    return "err:Other:" + n


def call(fn, enc):
    """canonical answer of a call into rich: `ok <value>` or the error enum."""
    try:
        r = fn()
    except Exception as e:  # noqa: BLE001 - every Python error is part of the modelled behaviour
        return enc_exc(e), None
    return "ok " + enc(r), r


def color_key(c):
    return (c.name, int(c.type), c.number, None if c.triplet is None else tuple(c.triplet))


# ------------------------------------------------------------------ independent oracle
def raw(pal):
    """the palette's data as plain tuples (not through Palette.__getitem__)."""
    return [tuple(x) for x in pal._colors]


def dist2(c, p):
    """Rich's weighted-RGB ("redmean") metric, squared, in exact integer arithmetic."""
    rm = (c[0] + p[0]) // 2
    dr, dg, db = c[0] - p[0], c[1] - p[1], c[2] - p[2]
    return (((512 + rm) * dr * dr) >> 8) + 4 * dg * dg + (((767 - rm) * db * db) >> 8)


def nearest(pal, c):
    """index of the first entry of minimum distance."""
    best, bd = 0, None
    for i, p in enumerate(pal):
        d = dist2(c, p)
        if bd is None or d < bd:
            best, bd = i, d
    return best


def wf(c):
    """well-formed colour: what the constructors of rich produce (plus EIGHT_BIT numbers below 16)."""
    t = int(c.type)
    num_ok = isinstance(c.number, int) and not isinstance(c.number, bool)
    if t == 0:
        return c.number is None and c.triplet is None
    if t in (1, 4):
        return num_ok and 0 <= c.number < 16 and c.triplet is None
    if t == 2:
        return num_ok and 0 <= c.number < 256 and c.triplet is None
    if t == 3:
        return c.number is None and c.triplet is not None and all(isinstance(x, int) and 0 <= x <= 255 for x in c.triplet)
    return False


def in_gamut(r, system):
    t = int(r.type)
    if system == 1:
        return t == 0 or (t == 1 and wf(r))
    if system == 4:
        return t == 0 or (t == 4 and wf(r))
    if system == 2:
        return t != 3 and wf(r)
    return wf(r)


def sgr_spec(c, foreground):
    """the standard SGR parameters for a colour of each kind (ECMA-48 / xterm), as strings."""
    t = int(c.type)
    if t == 0:
        return ("39",) if foreground else ("49",)
    if t in (1, 4):
        n = c.number
        if n < 8:
            return (str((30 if foreground else 40) + n),)
        return (str((90 if foreground else 100) + (n - 8)),)
    if t == 2:
        return ("38" if foreground else "48", "5", str(c.number))
    r, g, b = c.triplet
    return ("38" if foreground else "48", "2", str(r), str(g), str(b))


# (max, min) pairs whose saturation is *exactly* 10% and which the double-precision computation of the running
# Python puts below 0.1 (tolerated: the documented rule "under 10% is grey" is decided on an exact tie there).
FLOAT_TIE_GREYS = frozenset([(55, 45), (77, 63), (110, 90), (121, 99), (147, 123), (174, 156), (201, 189), (210, 200), (246, 244)])

# documented mapping, tabulated once in exact arithmetic:
#  cube coordinate of a channel = index of the nearest of the six evenly spaced levels 0, 51, ..., 255
#  grey level of a lightness l = (max+min)/510 = nearest of the 26 evenly spaced levels k/25 (half-way cases to even)
CUBE_LEVEL = [min(range(6), key=lambda k, c=c: (abs(c - 51 * k), k)) for c in range(256)]


def _grey_level(s2):
    from fractions import Fraction

    return round(Fraction(25 * s2, 510))  # Fraction.__round__ is exact round-half-even


GREY_LEVEL = [_grey_level(s2) for s2 in range(511)]


def doc256(t):
    """The documented truecolor -> 256 mapping (color.py: "If saturation is under 10% assume it is grayscale", grey ramp
    232..255 with black 16 / white 231 at the ends, else the 6x6x6 cube), in exact integer arithmetic."""
    M, m = max(t), min(t)
    if M == m:
        grey = True
    else:
        den = (M + m) if (M + m) <= 255 else 510 - M - m  # saturation = (M-m)/den  (HLS, channels scaled to 0..1)
        grey = 10 * (M - m) < den or (10 * (M - m) == den and (M, m) in FLOAT_TIE_GREYS)
    if grey:
        k = GREY_LEVEL[M + m]
        return 16 if k == 0 else 231 if k == 25 else 231 + k
    return 16 + 36 * CUBE_LEVEL[t[0]] + 6 * CUBE_LEVEL[t[1]] + CUBE_LEVEL[t[2]]


class Oracle:
    """holds the raw palette data of the rich under test"""

    def __init__(self):
        from rich._palettes import EIGHT_BIT_PALETTE, STANDARD_PALETTE, WINDOWS_PALETTE

        self.std = raw(STANDARD_PALETTE)
        self.win = raw(WINDOWS_PALETTE)
        self.eight = raw(EIGHT_BIT_PALETTE)
        from rich.terminal_theme import TerminalTheme

        # a theme that displays STANDARD colours as the palette they are searched in
        self.std_theme = TerminalTheme((0, 0, 0), (255, 255, 255), self.std[:8], self.std[8:])

    def source_triplet(self, c):
        """the RGB value the palette search is specified over (None: no search is specified)."""
        t = int(c.type)
        if t == 3:
            return tuple(c.triplet)
        if t == 2 and c.number >= 16:
            return self.eight[c.number]
        return None

    def evaluate(self, c, system, res, again):
        """Direct evaluation of the C18 statement on one real call `res = c.downgrade(system)`,
        `again = res.downgrade(system)`; c is well-formed.  Returns [(site, what, finding)]."""
        out = []
        t = int(c.type)
        inp_num = c.number
        if res.name != c.name:
            out.append(("downgrade:name", f"name changed to {res.name!r}", None))
        if not in_gamut(res, system):
            out.append(("downgrade:gamut", f"result {res!r} (number={res.number}, triplet={res.triplet}) is not representable in system {system}", None))
        if again != res:
            out.append(("downgrade:idempotent", f"converting again gives {again!r} number={again.number}, first gave {res!r} number={res.number}", None))
        if t == 0 and res != c:
            out.append(("downgrade:default", f"default became {res!r}", None))
        # already representable -> unchanged
        if t == system or system == 3 or (system == 2 and t != 3):
            if res != c:
                out.append(("downgrade:native", f"native colour changed: {res!r} number={res.number}", None))
        if system in (1, 4) and t in (1, 2, 4) and inp_num < 16:
            if res.number != inp_num or res.triplet is not None:
                finding = None
                if system == 1 and int(res.type) == 1 and res.number == nearest(self.std, self.eight[inp_num]):
                    finding = SLUG_STD_RENUMBER
                out.append(("downgrade:representable", f"16-colour index {inp_num} became {res.number}", finding))
        # nearest entry
        if system in (1, 4):
            src = self.source_triplet(c)
            if src is not None and res.number is not None:
                pal = self.std if system == 1 else self.win
                want = nearest(pal, src)
                if res.number != want:
                    dn = dist2(src, pal[res.number]) if 0 <= res.number < len(pal) else None
                    out.append(("downgrade:nearest", f"picked entry {res.number} (distance^2 {dn}) for {src}, entry {want} has distance^2 {dist2(src, pal[want])} (ties go to the lowest index)", None))
        # what the downgraded colour denotes is the matched / computed palette entry
        if t == 3 and system in (1, 2, 4) and isinstance(res.number, int) and 0 <= res.number < 256:
            try:
                shown = tuple(res.get_truecolor(self.std_theme))
            except Exception as e:  # noqa: BLE001
                shown = "raised " + type(e).__name__
            src = tuple(c.triplet)
            want = self.eight[res.number] if system == 2 else (self.std if system == 1 else self.win)[nearest(self.std if system == 1 else self.win, src)]
            if shown != want:
                out.append(("downgrade+get_truecolor", f"the downgraded colour {res!r} number={res.number} is displayed as {shown}, the palette entry is {want}", None))
        # the documented 256-colour mapping (grey test, grey ramp step, cube coordinates)
        if system == 2 and t == 3:
            want = doc256(tuple(c.triplet))
            if res.number != want:
                out.append(("downgrade:256-mapping", f"{tuple(c.triplet)} became colour number {res.number}; the documented mapping (nearest cube level per channel / grey ramp when saturation < 10%) gives {want}", None))
        # greys
        if system == 2 and t == 3 and c.triplet[0] == c.triplet[1] == c.triplet[2]:
            if not (res.number in (16, 231) or (isinstance(res.number, int) and 232 <= res.number <= 255)):
                out.append(("downgrade:grey", f"grey {tuple(c.triplet)} became colour number {res.number}", None))
        return out

    def evaluate_codes(self, c, foreground, codes):
        if tuple(codes) != sgr_spec(c, foreground):
            return [("get_ansi_codes", f"codes {codes!r}, the standard ones are {sgr_spec(c, foreground)!r}", None)]
        return []


_ORACLE = None


def oracle():
    global _ORACLE
    if _ORACLE is None:
        _ORACLE = Oracle()
    return _ORACLE


# ------------------------------------------------------------------ pool workers
def work_triplets(job):
    """job = (triplets, systems, wrapped).  For every triplet and system: the encoded answer of the real
    downgrade plus the failures of the direct evaluation.  Returns (answers, failures, n_evals)."""
    from rich.color import Color, ColorSystem
    from rich.color_triplet import ColorTriplet

    triplets, systems, wrapped = job
    orc = oracle()
    dg = unwrap(Color.downgrade) if wrapped else Color.downgrade
    answers = []
    failures = []
    n = 0
    for t in triplets:
        c = Color.from_triplet(ColorTriplet(*t))
        row = []
        for s in systems:
            sysm = ColorSystem(s)
            ans, res = call(lambda: dg(c, sysm), enc_color)
            row.append(ans)
            if res is None:
                failures.append(("downgrade:raises", (color_key(c), s), f"downgrade raised {ans} on a well-formed colour", None))
                continue
            again = dg(res, sysm)
            n += 1
            for site, what, finding in orc.evaluate(c, s, res, again):
                failures.append((site, (color_key(c), s), what, finding))
            for fg in (True, False):
                codes = res.get_ansi_codes(foreground=fg)
                for site, what, finding in orc.evaluate_codes(res, fg, codes):
                    failures.append((site, (color_key(res), fg), what, finding))
        answers.append(row)
    return answers, failures, n


def work_block(job):
    """job = (r, g, systems): the 256 colours (r, g, 0..255) through Color.downgrade.__wrapped__ (no LRU),
    answers as the 256 resulting numbers per system; direct evaluation inlined for speed."""
    from rich.color import Color, ColorSystem, ColorType
    from rich.color_triplet import ColorTriplet

    r, g, systems = job
    orc = oracle()
    dg = unwrap(Color.downgrade)
    out = {}
    failures = []
    n = 0
    for s in systems:
        sysm = ColorSystem(s)
        want_type = {1: ColorType.STANDARD, 2: ColorType.EIGHT_BIT, 4: ColorType.WINDOWS}[s]
        pal = orc.std if s == 1 else orc.win if s == 4 else None
        nums = []
        for b in range(256):
            c = Color("", ColorType.TRUECOLOR, None, ColorTriplet(r, g, b))
            try:
                res = dg(c, sysm)
            except Exception as e:  # noqa: BLE001
                nums.append(enc_exc(e))
                failures.append(("downgrade:raises", (color_key(c), s), f"raised {type(e).__name__}", None))
                continue
            num = res.number
            nums.append(enc_opt(num))
            n += 1
            ok = res.type == want_type and res.triplet is None and res.name == "" and isinstance(num, int)
            if ok:
                if s == 2:
                    ok = 16 <= num <= 255 and num == doc256((r, g, b))
                    if ok and r == g == b:
                        ok = num in (16, 231) or num >= 232
                else:
                    ok = 0 <= num < 16 and num == nearest(pal, (r, g, b))
            if not ok or dg(res, sysm) != res:
                fs = orc.evaluate(c, s, res, dg(res, sysm))
                if not fs:
                    fs = [("downgrade:gamut", f"result {res!r} has the wrong type or carries a triplet", None)]
                for site, what, finding in fs:
                    failures.append((site, (color_key(c), s), what, finding))
        out[s] = " ".join(nums)
    return r, g, out, failures, n
