"""Helpers for the C04 check: adapters around real rich.markup, an independent oracle for the
markup semantics, generators, and the per-shard worker (pure function of its input, so the result
does not depend on how shards are scheduled over processes).
"""
import itertools
import os
import subprocess

from core import driver_path, enc_str, enc_str_list

ALPHA = ["[", "]", "\\", "/", "=", "#", "a", "b", "1", " ", "\n", ":"]

# second exhaustive alphabet: the neighbours of every class boundary of `[a-z#\/]` ('`' 'a'..'z' '{',
# '"' '#' '$', '.' '/' '0'), an upper-case letter, a stripped control (CR), white space other than ' '
ALPHA2 = ["[", "]", "\\", "/", "z", "`", "{", "A", '"', "$", ".", "0", "\r", "\t", ":", "="]

F8_SLUG = "markup-same-start-precedence"
# the F8 defect is repaired in /repo: with the repaired span order nothing is ever classified as F8
# (every failure is a loud violation); set by props/c04.py from its SORT_SPANS flag before forking.
CLASSIFY_F8 = False

# ------------------------------------------------------------------------------------------------
# adapters around the real code
# ------------------------------------------------------------------------------------------------
_REC = None  # dict recording Style.normalize calls made by the real render


def install_recorder():
    """Wrap Style.normalize so that the (argument -> result) pairs the real `render` uses are known.
    The wrapper calls the original; behaviour is unchanged."""
    from rich.style import Style

    if getattr(Style, "_verif_wrapped", False):
        return
    orig = Style.normalize.__func__

    def normalize(cls, style):
        r = orig(cls, style)
        if _REC is not None:
            _REC[style] = r
        return r

    Style.normalize = classmethod(normalize)
    Style._verif_wrapped = True


def enc_table(d):
    return f"{len(d)}:" + ",".join(enc_str(k) + ">" + enc_str(v) for k, v in d.items())


def enc_spans(spans):
    return f"{len(spans)}|" + ";".join(f"{s.start},{s.end},{enc_str(s.style)}" for s in spans)


def emoji_table(markup):
    """every `:name:` candidate of the markup that the EMOJI table knows (superset of what can match)."""
    from rich._emoji_codes import EMOJI

    cols = [i for i, c in enumerate(markup) if c == ":"]
    out = {}
    for a in range(len(cols)):
        for b in range(a + 1, len(cols)):
            name = markup[cols[a] + 1 : cols[b]]
            v = EMOJI.get(name.lower())
            if v is not None:
                out[name] = v
    return out


def recorded(fn):
    """run fn() -> Text on real rich while recording Style.normalize: (canonical answer, table, result or exception)"""
    global _REC
    from rich.errors import MarkupError

    _REC = {}
    try:
        t = fn()
        ans = "ok|" + enc_str(t.plain) + "|" + enc_spans(t.spans)
        res = t
    except MarkupError as e:
        ans = "err:MarkupError:" + enc_str(str(e))
        res = e
    except Exception as e:  # any other exception is outside the statement: reported by the caller
        ans = "err:Other:" + type(e).__name__
        res = e
    tbl, _REC = _REC, None
    return ans, tbl, res


def real_render(markup, emoji, via_text=False):
    """-> (canonical answer, normalize table, result or exception)"""
    from rich.markup import render
    from rich.text import Text

    if via_text:
        return recorded(lambda: Text.from_markup(markup, emoji=emoji))
    return recorded(lambda: render(markup, emoji=emoji))


def enc_opt_bool(b):
    return "-" if b is None else ("1" if b else "0")


def tri(arg, dflt):
    return dflt if arg is None else arg


_CONSOLES = {}


def console_for(ce, cm):
    """Console(emoji=ce, markup=cm) with highlighting off, writing to a StringIO, no colour, very wide"""
    import io

    from rich.console import Console

    key = (ce, cm)
    if key not in _CONSOLES:
        _CONSOLES[key] = Console(file=io.StringIO(), width=2000, color_system=None, force_terminal=False,
                                 highlight=False, emoji=ce, markup=cm, legacy_windows=False)
    return _CONSOLES[key]


def o_render_str(text, emoji_on, markup_on, normalize=None):
    """oracle for render_str with highlighting off: ('ok', plain, ann, spans) | ('err', ...) | ('undecided',)"""
    if markup_on:
        return o_render(text, normalize or o_normalize, emoji_on)
    plain = strip_ctl(o_emoji(text) if emoji_on else text)
    return ("ok", plain, [()] * len(plain), [])


def check_glue(out, strs, sep, ce, cm, e, m, full=True):
    """Console.render_str on strs[0] and Console.print(*strs, sep=sep): which of markup / emoji is
    interpreted is decided by the arguments and the console defaults."""
    from rich.errors import MarkupError

    con = console_for(ce, cm)
    emoji_on, markup_on = tri(e, ce), tri(m, cm)
    s = strs[0]
    flags = [enc_bool01(ce), enc_bool01(cm), enc_opt_bool(e), enc_opt_bool(m)]
    # ---- render_str
    ans, tbl, res = recorded(lambda: con.render_str(s, emoji=e, markup=m, highlight=False, style="red", justify="center", overflow="fold"))
    out.cases.append(("mk_render_str", [enc_str(s)] + flags + [enc_table(tbl), enc_table(emoji_table(s))], ans,
                      f"m{int(markup_on)}e{int(emoji_on)}", f"Console(emoji={ce},markup={cm}).render_str({s!r}, emoji={e}, markup={m})"))
    out.prop(not (isinstance(res, Exception) and not isinstance(res, MarkupError)), "render_str:exception-kind", (s, ce, cm, e, m), f"raised {type(res).__name__}")
    if not isinstance(res, Exception):
        out.prop(res.style == "red" and res.justify == "center" and res.overflow == "fold", "render_str:glue", (s, ce, cm, e, m), "style/justify/overflow not passed through")
        if not markup_on:
            out.prop(res.spans == [], "render_str:markup-off", (s, ce, cm, e, m), f"markup is off but the text got spans {res.spans!r}")
            if not emoji_on:
                out.prop(res.plain == strip_ctl(s), "render_str:verbatim", (s, ce, cm, e, m), f"markup and emoji are off but the text came out as {res.plain!r}")
    else:
        out.prop(markup_on, "render_str:markup-off", (s, ce, cm, e, m), f"markup is off but render_str raised {res!r}")
    o = o_render_str(s, emoji_on, markup_on)
    compare_oracle(out, (s, ce, cm, e, m), o, res, ans, "render_str")
    # ---- print: the Text handed to the renderer, and the characters written
    ans_p, tbl_p, res_p = recorded(lambda: con._collect_renderables(list(strs), sep, "\n", emoji=e, markup=m, highlight=False)[0])
    etbl = {}
    for x in strs:
        etbl.update(emoji_table(x))
    out.cases.append(("mk_print", [enc_str_list(list(strs)), enc_str(sep)] + flags + [enc_table(tbl_p), enc_table(etbl)], ans_p,
                      f"n{len(strs)}", f"print(*{list(strs)!r}, sep={sep!r}, emoji={e}, markup={m}) on Console(emoji={ce},markup={cm})"))
    # expected from the oracle, piece by piece
    want_plain, want_ann, err = "", [], None
    ssep = strip_ctl(sep)
    for i, x in enumerate(strs):
        ox = o_render_str(x, emoji_on, markup_on)
        if ox[0] == "undecided":
            out.note("oracle:undecided")
            return
        if ox[0] == "err":
            err = ox
            break
        if i and ssep:
            want_plain += ssep
            want_ann += [("",)] * len(ssep)
        want_plain += ox[1]
        want_ann += [("",) + a for a in ox[2]]
    inp = (tuple(strs), sep, ce, cm, e, m)
    if err is not None:
        out.prop(isinstance(res_p, MarkupError), "print:error_iff_nothing_to_close", inp, f"a closing tag has nothing to close but print built {ans_p[:80]}")
    elif out.prop(not isinstance(res_p, Exception), "print:error_iff_nothing_to_close", inp, f"print raised {res_p!r}"):
        out.prop(res_p.plain == want_plain, "print:plain", inp, f"plain {res_p.plain!r}, expected {want_plain!r}")
        if res_p.plain == want_plain:
            out.prop(cover(spans_of(res_p), len(want_plain)) == want_ann, "print:tags_style_exactly", inp, f"spans {spans_of(res_p)!r}; expected per character {want_ann!r}")
    if full and "\t" not in "".join(strs) + sep:
        import io

        con.file = io.StringIO()
        try:
            con.print(*strs, sep=sep, emoji=e, markup=m)
            written = con.file.getvalue()
            exc = None
        except Exception as x:  # noqa: BLE001
            written, exc = None, x
        if err is not None:
            out.prop(isinstance(exc, MarkupError), "print:written", inp, f"expected MarkupError, print wrote {written!r} / raised {exc!r}")
        else:
            out.prop(exc is None and written == want_plain + "\n", "print:written", inp, f"print wrote {written!r} (raised {exc!r}); expected {want_plain + chr(10)!r}")


# ---- glue with a highlighter ---------------------------------------------------------------------
_HCONSOLES = {}


def _rec_highlighter(base):
    """a Highlighter that delegates to `base` and records plain text -> the spans it appended"""
    from rich.highlighter import Highlighter

    class Rec(Highlighter):
        def __init__(self):
            self.rec = {}

        def highlight(self, text):
            n0 = len(text._spans)
            base.highlight(text)
            self.rec[text.plain] = [(s.start, s.end, str(s.style)) for s in text._spans[n0:]]

    return Rec()


def _arg_highlighter():
    from rich.highlighter import RegexHighlighter

    class Letters(RegexHighlighter):
        base_style = "hx."
        highlights = [r"(?P<a>a+)", r"(?P<colon>:)|(?P<br>[\[\]])"]

    return Letters()


def hconsole_for(ce, cm, ch):
    import io

    from rich.console import Console
    from rich.highlighter import ReprHighlighter

    key = (ce, cm, ch)
    if key not in _HCONSOLES:
        rec = _rec_highlighter(ReprHighlighter())
        con = Console(file=io.StringIO(), width=2000, color_system=None, force_terminal=False, highlight=ch,
                      highlighter=rec, emoji=ce, markup=cm, legacy_windows=False)
        _HCONSOLES[key] = (con, rec, _rec_highlighter(_arg_highlighter()))
    return _HCONSOLES[key]


def enc_hl_table(rec):
    return f"{len(rec)}:" + ",".join(enc_str(k) + ">" + "/".join(f"{a}.{b}.{enc_str(st)}" for a, b, st in v) for k, v in rec.items())


def o_hl_cover(which, plain):
    """per character: the styles a FRESH highlighter of the same kind puts there, in the order it adds them"""
    from rich.highlighter import ReprHighlighter
    from rich.text import Text

    t = Text(plain)
    (ReprHighlighter() if which == "console" else _arg_highlighter()).highlight(t)
    return cover([(s.start, s.end, str(s.style)) for s in t._spans], len(plain))


def check_glue_h(out, strs, sep, ce, cm, ch, e, m, h, use_arg):
    """Console.render_str / Console.print with a highlighter: is it applied (flags), on which text,
    and who wins where a tag and the highlighter style the same character (the tag: its span comes later)."""
    from rich.errors import MarkupError

    con, rec_con, rec_arg = hconsole_for(ce, cm, ch)
    emoji_on, markup_on = tri(e, ce), tri(m, cm)
    s = strs[0]
    flags = [enc_bool01(ce), enc_bool01(cm), enc_bool01(ch), enc_opt_bool(e), enc_opt_bool(m), enc_opt_bool(h)]
    rec_con.rec.clear()
    rec_arg.rec.clear()
    kw = {"highlighter": rec_arg} if use_arg else {}
    ans, tbl, res = recorded(lambda: con.render_str(s, emoji=e, markup=m, highlight=h, **kw))
    out.cases.append(("mk_render_str_h", [enc_str(s)] + flags + [enc_bool01(use_arg), enc_table(tbl), enc_table(emoji_table(s)), enc_hl_table(rec_con.rec), enc_hl_table(rec_arg.rec)], ans,
                      f"h{int(tri(h, ch))}a{int(use_arg)}m{int(markup_on)}", f"Console(emoji={ce},markup={cm},highlight={ch}).render_str({s!r}, emoji={e}, markup={m}, highlight={h}{', highlighter=A' if use_arg else ''})"))
    inp = (s, ce, cm, ch, e, m, h, use_arg)
    out.prop(not (isinstance(res, Exception) and not isinstance(res, MarkupError)), "render_str_h:exception-kind", inp, f"raised {type(res).__name__}")
    o = o_render_str(s, emoji_on, markup_on)
    if o[0] == "undecided":
        out.note("oracle:undecided")
    elif o[0] == "err":
        out.prop(isinstance(res, MarkupError), "render_str_h:error_iff_nothing_to_close", inp, f"a closing tag has nothing to close but the result is {ans[:80]}")
    elif out.prop(not isinstance(res, Exception), "render_str_h:error_iff_nothing_to_close", inp, f"raised {res!r}"):
        _, plain, ann, _w = o
        if out.prop(res.plain == plain, "render_str_h:plain", inp, f"plain {res.plain!r}, expected {plain!r}"):
            hc = o_hl_cover("arg" if use_arg else "console", plain) if tri(h, ch) else [()] * len(plain)
            want = [tuple(a) + tuple(b) for a, b in zip(hc, ann)]
            out.prop(cover(spans_of(res), len(plain)) == want, "render_str_h:markup_wins_over_highlight", inp,
                     f"spans {spans_of(res)!r}; expected per character (highlighter first, then the open tags) {want!r}")
            out.note("hl:" + ("on" if tri(h, ch) else "off") + (":both" if any(a and b for a, b in zip(hc, ann)) else ""))
    # ---- print
    rec_con.rec.clear()
    ans_p, tbl_p, res_p = recorded(lambda: con._collect_renderables(list(strs), sep, "\n", emoji=e, markup=m, highlight=h)[0])
    etbl = {}
    for x in strs:
        etbl.update(emoji_table(x))
    out.cases.append(("mk_print_h", [enc_str_list(list(strs)), enc_str(sep)] + flags + [enc_table(tbl_p), enc_table(etbl), enc_hl_table(rec_con.rec)], ans_p,
                      f"n{len(strs)}h{int(ch and h is not False)}", f"print(*{list(strs)!r}, sep={sep!r}, emoji={e}, markup={m}, highlight={h}) on Console(emoji={ce},markup={cm},highlight={ch})"))
    hl_on = ch and h is not False  # the code as it is: print's highlight=True is not passed on to render_str
    want_plain, want_cov, err = "", [], None
    ssep = strip_ctl(sep)
    for i, x in enumerate(strs):
        ox = o_render_str(x, emoji_on, markup_on)
        if ox[0] == "undecided":
            out.note("oracle:undecided")
            return
        if ox[0] == "err":
            err = ox
            break
        if i and ssep:
            want_plain += ssep
            want_cov += [("",)] * len(ssep)
        hc = o_hl_cover("console", ox[1]) if hl_on else [()] * len(ox[1])
        want_plain += ox[1]
        want_cov += [("",) + tuple(a) + tuple(b) for a, b in zip(hc, ox[2])]
    inp = (tuple(strs), sep, ce, cm, ch, e, m, h)
    if err is not None:
        out.prop(isinstance(res_p, MarkupError), "print_h:error_iff_nothing_to_close", inp, f"a closing tag has nothing to close but print built {ans_p[:80]}")
    elif out.prop(not isinstance(res_p, Exception), "print_h:error_iff_nothing_to_close", inp, f"print raised {res_p!r}"):
        if out.prop(res_p.plain == want_plain, "print_h:plain", inp, f"plain {res_p.plain!r}, expected {want_plain!r}"):
            out.prop(cover(spans_of(res_p), len(want_plain)) == want_cov, "print_h:markup_wins_over_highlight", inp,
                     f"spans {spans_of(res_p)!r}; expected per character (join's empty style, highlighter, open tags) {want_cov!r}")


def enc_bool01(b):
    return "1" if b else "0"


def compare_oracle(out, inp, o, res, ans, pre):
    """shared: rich's result `res` against the oracle's answer `o` (no F8 classification: that defect is repaired)"""
    from rich.errors import MarkupError

    if o[0] == "undecided":
        out.note("oracle:undecided")
    elif o[0] == "err":
        out.prop(isinstance(res, MarkupError), pre + ":error_iff_nothing_to_close", inp, f"a closing tag at {o[2]} has nothing to close but the result is {ans[:80]}")
        if isinstance(res, MarkupError):
            want = (f"closing tag '{o[3]}' at position {o[2]} doesn't match any open tag" if o[1] == "nomatch"
                    else f"closing tag '[/]' at position {o[2]} has nothing to close")
            out.prop(str(res) == want, pre + ":error-message", inp, f"message {str(res)!r}, expected {want!r}")
    else:
        _, plain, ann, want_spans = o
        if out.prop(not isinstance(res, Exception), pre + ":error_iff_nothing_to_close", inp, f"every closing tag has something to close but {res!r} was raised"):
            out.prop(res.plain == plain, pre + ":plain", inp, f"plain {res.plain!r}, expected {plain!r}")
            got = spans_of(res)
            out.prop(cover(got, len(plain)) == [tuple(a) for a in ann] and len(got) == len(want_spans), pre + ":tags_style_exactly", inp,
                     f"spans {got!r}; expected (opening order, later wins) {want_spans!r}")


def real_parse(markup):
    from rich.markup import _parse

    out = []
    for pos, text, tag in _parse(markup):
        if text is not None:
            out.append(f"T,{pos},{enc_str(text)}")
        else:
            out.append(f"G,{pos},{enc_str(tag.name)}," + ("-" if tag.parameters is None else "=" + enc_str(tag.parameters)))
    return f"{len(out)}#" + ";".join(out)


# ------------------------------------------------------------------------------------------------
# independent oracle (does not use rich.markup, re, or the Lean model)
# ------------------------------------------------------------------------------------------------
STRIP = "\x08\x0b\x0c\x0d"


def strip_ctl(s):
    return "".join(c for c in s if c not in STRIP)


def o_tokens(markup):
    """[('t', text)] / ('g', k, body)]: hand scanner for `\\\\*[[a-z#/].*?]`."""
    out = []
    i, n = 0, len(markup)
    buf = []
    while i < n:
        c = markup[i]
        if c == "[":
            # candidate tag: needs a class char, then the first ']' before any newline
            j = i + 1
            ok = j < n and (("a" <= markup[j] <= "z") or markup[j] in "#/")
            end = -1
            if ok:
                j += 1
                while j < n and markup[j] != "\n":
                    if markup[j] == "]":
                        end = j
                        break
                    j += 1
            if end >= 0:
                k = 0
                while buf and buf[-1] == "\\":
                    buf.pop()
                    k += 1
                if buf:
                    out.append(("t", "".join(buf)))
                    buf = []
                out.append(("g", k, markup[i + 1 : end]))
                i = end + 1
                continue
        buf.append(c)
        i += 1
    if buf:
        out.append(("t", "".join(buf)))
    return out


ATTR = {
    "b": "bold", "bold": "bold", "i": "italic", "italic": "italic", "u": "underline", "underline": "underline",
    "s": "strike", "strike": "strike", "d": "dim", "dim": "dim", "r": "reverse", "reverse": "reverse",
    "blink": "blink", "blink2": "blink2", "conceal": "conceal", "c": "conceal", "frame": "frame", "encircle": "encircle",
    "overline": "overline", "o": "overline", "uu": "underline2", "underline2": "underline2",
}
ATTR_ORDER = ["bold", "dim", "italic", "underline", "blink", "blink2", "reverse", "conceal", "strike",
              "underline2", "frame", "encircle", "overline"]
COLORS = {"red", "green", "blue", "yellow", "magenta", "cyan", "white", "black"}
HEX = set("0123456789abcdef")


def _is_color(w):
    return w in COLORS or (len(w) == 7 and w[0] == "#" and all(ch in HEX for ch in w[1:]))


def o_normalize(name):
    """What Style.normalize must answer, for the word vocabulary this check generates (attribute
    words, `not X`, `on C`, eight colour names, #rrggbb); anything else is not a style definition and
    normalizes to strip().lower().  Returns None when the vocabulary does not decide (never generated)."""
    words = name.split()
    if not words:
        return "none"
    attrs = {}
    fg = bg = None
    it = iter(words)
    for w0 in it:
        w = w0.lower()
        if w == "on":
            w2 = next(it, "")
            if not w2:
                return name.strip().lower()
            if not _is_color(w2.lower()):
                return None if _maybe_style(w2) else name.strip().lower()
            bg = w2.lower()
        elif w == "not":
            w2 = next(it, "")  # as written: Style.parse does not lower-case the word after `not`
            if w2 not in ATTR:
                return name.strip().lower()
            attrs[ATTR[w2]] = False
        elif w == "link":
            if not next(it, ""):
                return name.strip().lower()
            return None
        elif w in ATTR:
            attrs[ATTR[w]] = True
        elif _is_color(w):
            fg = w
        elif _maybe_style(w):
            return None
        else:
            return name.strip().lower()
    parts = []
    for a in ATTR_ORDER:
        if a in attrs:
            parts.append(a if attrs[a] else "not " + a)
    if fg:
        parts.append(fg)
    if bg:
        parts.append("on " + bg)
    return " ".join(parts) or "none"


def o_style(text):
    """The Style a tag applies, from the style definition AS WRITTEN in the markup (tag name, plus
    " " + parameters when the tag has them), by this module's own word parser and Style's keyword
    constructor — independent of Style.parse, Style.normalize and Style.__str__.
    Text that is not a style definition applies nothing (Style.null()).  None = vocabulary does not decide."""
    from rich.style import Style

    if text.strip() == "none":
        return Style.null()
    attrs = {}
    fg = bg = link = None
    it = iter(text.split())
    for w0 in it:
        w = w0.lower()
        if w == "on":
            w2 = next(it, "").lower()
            if not w2:
                return Style.null()
            if not _is_color(w2):
                return None if _maybe_style(w2) else Style.null()
            bg = w2
        elif w == "not":
            w2 = next(it, "")  # as written (see o_normalize)
            if w2 not in ATTR:
                return Style.null()
            attrs[ATTR[w2]] = False
        elif w == "link":
            w2 = next(it, "")
            if not w2:
                return Style.null()
            link = w2
        elif w in ATTR:
            attrs[ATTR[w]] = True
        elif _is_color(w):
            fg = w
        elif _maybe_style(w):
            return None
        else:
            return Style.null()
    return Style(color=fg, bgcolor=bg, link=link, **attrs)


def o_fields(text):
    """The settings a tag applies, from the style definition AS WRITTEN, as a plain dict (tri-state
    attributes: True / False / absent, colour and background by lower-cased word, link verbatim) —
    no Style object is involved, so neither Style.parse / normalize / __str__ nor Style.copy /
    __add__ / combine can influence the expectation.
    -> ('style', dict) | ('nonstyle', {}) (not a style definition: applies nothing) | ('undecided', None)"""
    if text.strip() == "none":
        return ("style", {})
    d = {}
    it = iter(text.split())
    for w0 in it:
        w = w0.lower()
        if w == "on":
            w2 = next(it, "").lower()
            if not w2:
                return ("nonstyle", {})
            if not _is_color(w2):
                return ("undecided", None) if _maybe_style(w2) else ("nonstyle", {})
            d["bgcolor"] = w2
        elif w == "not":
            w2 = next(it, "")  # as written: Style.parse does not lower-case the word after `not`
            if w2 not in ATTR:
                return ("nonstyle", {})
            d[ATTR[w2]] = False
        elif w == "link":
            w2 = next(it, "")
            if not w2:
                return ("nonstyle", {})
            d["link"] = w2
        elif w in ATTR:
            d[ATTR[w]] = True
        elif _is_color(w):
            d["color"] = w
        elif _maybe_style(w):
            return ("undecided", None)
        else:
            return ("nonstyle", {})
    return ("style", d)


def o_compose(texts, memo=None):
    """fields of the style a character is drawn with when the tags `texts` (as written, opening
    order) are open: every later tag overrides exactly the settings it speaks about (a negated
    attribute is a setting).  -> (dict | None when undecided, True when every tag is a style definition)"""
    out = {}
    allstyle = True
    for t in texts:
        k, d = o_fields(t)
        if k == "undecided":
            return None, False
        if k == "nonstyle":
            allstyle = False
        out.update(d)
    return out, allstyle


def _maybe_style(w):
    """words the oracle vocabulary does not cover but that might be a colour for rich"""
    w = w.lower()
    return w.startswith("color(") or w.startswith("rgb(") or w == "default" or (w.isidentifier() and len(w) > 2 and w not in COLORS and _might_be_color_name(w))


_COLOR_NAMES = None


def _might_be_color_name(w):
    global _COLOR_NAMES
    if _COLOR_NAMES is None:
        # read the *names* only (a data table; used to stay silent, never to decide an answer)
        from rich.color import ANSI_COLOR_NAMES

        _COLOR_NAMES = set(ANSI_COLOR_NAMES)
    return w in _COLOR_NAMES


class OracleError(Exception):
    pass


def o_render(markup, normalize=o_normalize, emoji=False):
    """Reference semantics of console markup with emoji off.
    -> ('ok', plain, ann, spans) where ann[i] = style strings of the tags open at character i in
    opening order and spans = expected (start, end, style) in opening order;  or ('err', kind, pos, tagmarkup);
    or ('undecided',) when the tag vocabulary is outside the oracle."""
    plain = []
    ann = []
    open_ = []  # [idx, start, name, stylestr]
    spans = {}
    nopen = 0
    pos = 0
    for tok in o_tokens(markup):
        if tok[0] == "t":
            s = strip_ctl(o_emoji(tok[1]) if emoji else tok[1])
            cur = tuple(o[3] for o in open_)
            plain.append(s)
            ann.extend([cur] * len(s))
            pos += len(tok[1])
            continue
        _, k, body = tok
        start = pos
        pos += k + len(body) + 2
        lit, esc = divmod(k, 2)
        cur = tuple(o[3] for o in open_)
        if lit:
            plain.append("\\" * lit)
            ann.extend([cur] * lit)
            start += 2 * lit
        if esc:
            s = strip_ctl(o_emoji("[" + body + "]") if emoji else "[" + body + "]")
            plain.append(s)
            ann.extend([cur] * len(s))
            continue
        name, eq, params = body.partition("=")
        if name.startswith("/"):
            sn = name[1:].strip()
            length = sum(map(len, plain))
            if sn:
                nn = normalize(sn)
                if nn is None:
                    return ("undecided",)
                for q in range(len(open_) - 1, -1, -1):
                    if open_[q][2] == nn:
                        o = open_.pop(q)
                        spans[o[0]] = (o[1], length, o[3])
                        break
                else:
                    mk = "[" + name + "]" if not eq else "[" + name + "=" + params + "]"
                    return ("err", "nomatch", start, mk)
            else:
                if not open_:
                    return ("err", "nothing", start, "[/]")
                o = open_.pop()
                spans[o[0]] = (o[1], length, o[3])
        else:
            nn = normalize(name)
            if nn is None:
                return ("undecided",)
            st = nn if not eq else nn + " " + params
            open_.append([nopen, sum(map(len, plain)), nn, st])
            nopen += 1
    length = sum(map(len, plain))
    for o in open_:
        spans[o[0]] = (o[1], length, o[3])
    return ("ok", "".join(plain), ann, [spans[i] for i in range(nopen)])


def cover(spans, n):
    """per character: styles of the covering spans, in list order"""
    out = [[] for _ in range(n)]
    for s in spans:
        for i in range(max(s[0], 0), min(s[1], n)):
            out[i].append(s[2])
    return [tuple(x) for x in out]


def f8_shape(got_spans, want_spans):
    """narrow classifier for pre-finding F8: rich returned exactly the expected spans, and every pair
    that is out of opening order starts at the same offset."""
    if sorted(got_spans) != sorted(want_spans) or got_spans == want_spans:
        return False
    want = list(want_spans)
    idx = []
    for g in got_spans:
        i = want.index(g)
        idx.append(i)
        want[i] = None  # duplicates: take them in order
    for a in range(len(idx)):
        for b in range(a + 1, len(idx)):
            if idx[a] > idx[b] and got_spans[a][0] != got_spans[b][0]:
                return False
    return True


def admissible(s):
    """side condition of the embedded form: s does not end in a backslash and every '[' in s is
    closed by a later ']' within s."""
    if s.endswith("\\"):
        return False
    last_close = s.rfind("]")
    last_open = s.rfind("[")
    return last_open < last_close or last_open == -1


def has_emoji_code(s):
    return bool(emoji_table(s))


def o_emoji(s, isspace=str.isspace):
    """independent `:name:` replacement (leftmost, lazy, no white space inside)."""
    from rich._emoji_codes import EMOJI

    out = []
    i, n = 0, len(s)
    while i < n:
        if s[i] == ":":
            j = i + 1
            while j < n and s[j] != ":" and not isspace(s[j]):
                j += 1
            if j < n and s[j] == ":":
                code = s[i : j + 1]
                out.append(EMOJI.get(s[i + 1 : j].lower(), code))
                i = j + 1
                continue
        out.append(s[i])
        i += 1
    return "".join(out)


# ------------------------------------------------------------------------------------------------
# the checks on one markup string
# ------------------------------------------------------------------------------------------------
CONTEXTS = [("[b]", "[/b]"), ("x[red]y", "z[/red]w"), ("[a=1]", "[/]"), ("\\[a][b]", "[b][/b]"), ("", "[u]q"), ("[i]a\n", "")]


class Out:
    """what a worker hands back"""

    def __init__(self):
        self.cases = []  # (fn, args, answer, shape, sample)
        self.fails = []  # (site, input, what, finding)
        self.nprop = {}  # site -> evaluations
        self.notes = {}

    def prop(self, ok, site, inp, what, finding=None):
        self.nprop[site] = self.nprop.get(site, 0) + 1
        if not ok:
            self.fails.append((site, inp, what, finding))
        return ok

    def note(self, k, n=1):
        self.notes[k] = self.notes.get(k, 0) + n


def spans_of(t):
    return [(s.start, s.end, s.style) for s in t.spans]


def against_oracle(out, s, res, ans, emoji, normalize=o_normalize, pre="render"):
    """direct evaluation of `tags_style_exactly` / `error_iff_nothing_to_close` on rich's own result"""
    from rich.errors import MarkupError

    o = o_render(s, normalize, emoji)
    if o[0] == "undecided":
        out.note("oracle:undecided")
    elif o[0] == "err":
        out.prop(isinstance(res, MarkupError), pre + ":error_iff_nothing_to_close", s, f"a closing tag at {o[2]} has nothing to close but render returned {ans[:80]}")
        if isinstance(res, MarkupError):
            want = (f"closing tag '{o[3]}' at position {o[2]} doesn't match any open tag" if o[1] == "nomatch"
                    else f"closing tag '[/]' at position {o[2]} has nothing to close")
            out.prop(str(res) == want, pre + ":error-message", s, f"message {str(res)!r}, expected {want!r}")
    else:
        _, plain, ann, want_spans = o
        if out.prop(not isinstance(res, Exception), pre + ":error_iff_nothing_to_close", s, f"every closing tag has something to close but render raised {res!r}"):
            out.prop(res.plain == plain, pre + ":plain", s, f"plain {res.plain!r}, expected the input without its tags {plain!r}")
            got = spans_of(res)
            okc = cover(got, len(plain)) == ann and len(got) == len(want_spans)
            out.prop(okc, pre + ":tags_style_exactly", s,
                     f"spans {got!r}; expected (opening order, later wins) {want_spans!r}",
                     finding=F8_SLUG if (CLASSIFY_F8 and not okc and res.plain == plain and f8_shape(got, want_spans)) else None)
            if want_spans:
                out.note("oracle:spans%d" % min(len(want_spans), 4))


def check_string(out, s, sort_flag, level=2, normalize=o_normalize):
    """All C04 work for one string.  level 0 = direct evaluation only (cheap), 1 = + correspondence
    of escape/parse/render, 2 = + emoji=True path and escaped form through the model."""
    from rich.errors import MarkupError
    from rich.markup import escape

    es = enc_str(s)
    # ---- escape
    e = escape(s)
    if level >= 1:
        out.cases.append(("mk_escape", [es], enc_str(e), "changed" if e != s else "same", None))
        out.cases.append(("mk_parse", [es], real_parse(s), None, None))
    # ---- render(s), emoji off, against the model and against the oracle
    ans, tbl, res = real_render(s, False)
    if level >= 1:
        kind = "err" if ans.startswith("err") else ("spans%d" % min(len(res.spans), 3))
        out.cases.append(("mk_render", [es, 0, sort_flag, enc_table(tbl), "0:"], ans, kind, f"render({s!r}, emoji=False)"))
    out.note("render:" + ("MarkupError" if isinstance(res, MarkupError) else "other-exception" if isinstance(res, Exception) else "ok"))
    out.prop(not (isinstance(res, Exception) and not isinstance(res, MarkupError)), "render:exception-kind", s, f"render raised {type(res).__name__}, not MarkupError")
    against_oracle(out, s, res, ans, False, normalize)
    # ---- render(escape(s)) gives s back
    ans_e, tbl_e, res_e = real_render(e, False)
    ok = (not isinstance(res_e, Exception)) and res_e.plain == strip_ctl(s) and res_e.spans == []
    out.prop(ok, "render_escape", s, f"render(escape(s)) = {ans_e[:120]} for escape(s) = {e!r}")
    if level >= 2 and e != s:
        out.cases.append(("mk_render", [enc_str(e), 0, sort_flag, enc_table(tbl_e), "0:"], ans_e, "escaped", None))
    # ---- the same through Text.from_markup with its defaults (emoji=True)
    if level >= 2 or (level >= 1 and ":" in s):
        ans_t, tbl_t, res_t = real_render(e, True, via_text=True)
        et = emoji_table(e)
        if not et:
            out.prop((not isinstance(res_t, Exception)) and res_t.plain == strip_ctl(s) and res_t.spans == [], "from_markup_escape", s, f"Text.from_markup(escape(s)) = {ans_t[:120]}")
        else:
            out.note("emoji:code-present")
        ans_m, tbl_m, res_m = real_render(s, True, via_text=True)
        if level >= 1:
            out.cases.append(("mk_render", [es, 1, sort_flag, enc_table(tbl_m), enc_table(emoji_table(s))], ans_m, "emoji", f"Text.from_markup({s!r})"))
        against_oracle(out, s, res_m, ans_m, True, normalize, pre="from_markup")
    # ---- embedded between complete markup
    if level >= 1 and admissible(s):
        out.note("embedded:admissible")
        for A, B in CONTEXTS:
            ansx, _, resx = real_render(A + e + B, False)
            base = o_render(A + "\x00" + B, normalize)  # NUL marks the junction; never stripped, never a tag
            assert base[0] == "ok"
            cut = base[1].index("\x00")
            st = strip_ctl(s)
            want_plain = base[1][:cut] + st + base[1][cut + 1 :]
            want_ann = base[2][:cut] + [base[2][cut]] * len(st) + base[2][cut + 1 :]
            ok = (not isinstance(resx, Exception)) and resx.plain == want_plain
            fnd = None
            if ok:
                got = spans_of(resx)
                ok = cover(got, len(want_plain)) == want_ann
                if not ok:
                    # expected spans: those of A+B with the junction widened
                    ws = [(a if a <= cut else a + len(st) - 1, b2 if b2 <= cut else b2 + len(st) - 1, c) for a, b2, c in base[3]]
                    fnd = F8_SLUG if (CLASSIFY_F8 and f8_shape(got, ws)) else None
            out.prop(ok, "render_escape_embedded", (A, s, B), f"render(A + escape(s) + B) = {ansx[:160]}; expected plain {want_plain!r} styled as A+B around the junction", finding=fnd)


# ------------------------------------------------------------------------------------------------
# exhaustive enumeration, sharded by prefix
# ------------------------------------------------------------------------------------------------
def shard_strings(prefix, maxlen, alpha=ALPHA):
    """all strings over `alpha` of length <= maxlen that start with `prefix` (the prefix itself included)"""
    yield prefix
    for n in range(1, maxlen - len(prefix) + 1):
        for t in itertools.product(alpha, repeat=n):
            yield prefix + "".join(t)


def shards(maxlen, plen=2, alpha=ALPHA):
    """prefixes partitioning all strings of length <= maxlen"""
    out = [("short", maxlen)]
    for t in itertools.product(alpha, repeat=plen):
        out.append(("".join(t), maxlen))
    return out


def interesting(s):
    """a string in which RE_TAGS can match at all: a '[' with a later ']'"""
    i = s.find("[")
    return i >= 0 and s.find("]", i + 2) >= 0


def fast_check(out, s):
    """a string in which no tag can occur (no '[' with a ']' two or more places later): escape must
    leave it alone and render must return it unstyled.  One escape + one render, no oracle."""
    from rich.markup import escape, render

    e = escape(s)
    try:
        t = render(s, emoji=False)
        ok = e == s and t.plain == strip_ctl(s) and not t.spans
        what = f"escape -> {e!r}, render -> {t.plain!r} {t.spans!r}"
    except Exception as exc:
        ok, what = False, f"render raised {exc!r}"
    out.prop(ok, "render_escape", s, "no tag can occur in this text, yet " + what)
    out.prop(ok, "render:plain", s, "no tag can occur in this text, yet " + what)


def run_driver_local(cases):
    """worker-side diff (thorough tier): returns (compared, agreed, unmodelled, mismatches[:5])"""
    lines = [fn + "\t" + "\t".join(str(a) for a in args) for fn, args, _a, _s, _r in cases]
    p = subprocess.run([driver_path("C04")], input="\n".join(lines) + "\n", stdout=subprocess.PIPE, stderr=subprocess.PIPE, text=True)
    if p.returncode != 0:
        raise RuntimeError("driver crashed: " + p.stderr[-500:])
    ans = p.stdout.split("\n")
    if ans and ans[-1] == "":
        ans.pop()
    if len(ans) != len(lines):
        raise RuntimeError(f"driver answered {len(ans)} lines for {len(lines)} requests")
    compared = agreed = unm = 0
    mism = []
    byfn = {}
    for (fn, args, want, shape, readable), line, a in zip(cases, lines, ans):
        byfn[fn] = byfn.get(fn, 0) + 1
        if a == "unmodelled":
            unm += 1
            continue
        compared += 1
        if a == want:
            agreed += 1
        elif len(mism) < 5:
            mism.append({"request": line, "model": a, "impl": want, "readable": readable})
        if a != want:
            byfn["MISMATCH:" + fn] = byfn.get("MISMATCH:" + fn, 0) + 1
    return compared, agreed, unm, mism, byfn


def work_shard(job):
    """job = (prefix|'short', maxlen, plen, sort_flag, local_diff, full_upto)
    Strings longer than `full_upto` get the full treatment only when `interesting`; the others get
    the direct evaluation (level 0)."""
    prefix, maxlen, plen, sort_flag, local_diff, full_upto = job[:6]
    alpha = ALPHA2 if (len(job) > 6 and job[6] == 2) else ALPHA
    install_recorder()
    out = Out()
    if prefix == "short":
        strings = [""] + ["".join(t) for n in range(1, plen) for t in itertools.product(alpha, repeat=n)]
    else:
        strings = shard_strings(prefix, maxlen, alpha)
    n = 0
    for s in strings:
        n += 1
        if len(s) <= full_upto:
            check_string(out, s, sort_flag, level=2)
        elif interesting(s):
            check_string(out, s, sort_flag, level=1)
        else:
            fast_check(out, s)
    res = {"n": n, "fails": out.fails[:40], "nfails": len(out.fails), "nprop": out.nprop, "notes": out.notes}
    # keep one failure per (site, finding), the shortest
    best = {}
    for f in out.fails:
        k = (f[0], f[3])
        if k not in best or len(repr(f[1])) < len(repr(best[k][1])):
            best[k] = f
    res["fails"] = list(best.values())
    res["failcount"] = {}
    for f in out.fails:
        k = (f[0], f[3])
        res["failcount"][k] = res["failcount"].get(k, 0) + 1
    if local_diff:
        res["diff"] = run_driver_local(out.cases)
        res["ncases"] = len(out.cases)
    else:
        res["cases"] = out.cases
    return res
