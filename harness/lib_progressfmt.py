"""C12, second part: what the progress columns show for a task, rich/filesize.py and the arithmetic of
ProgressBar — correspondence with Model/ProgressFmt.lean (requests `pf_*`) and direct evaluation of the
statements of Props/C12.lean (`pick_unit_law`, `to_str_unit_law`, `td_fields_spec`, `bar_cells`, ...) on
rich's own output, with oracles that do not use the Lean model (exact `Fraction` arithmetic, parsing the
text back).

Everything compared here is text or integers; the floats the real code computes on the way
(`completed / unit`, `base * size / unit`, `completed / total * 100.0`, `width * 2 * completed / total`)
are reproduced exactly by the model (`rn53` = the correctly rounded double), so there is no tolerance.
"""
import io
import re
from fractions import Fraction

from core import enc_str

DEC_SUFFIXES = ("kB", "MB", "GB", "TB", "PB", "EB", "ZB", "YB")
DL_SUFFIXES = {
    False: ["bytes", "KB", "MB", "GB", "TB", "PB", "EB", "ZB", "YB"],
    True: ["bytes", "KiB", "MiB", "GiB", "TiB", "PiB", "EiB", "ZiB", "YiB"],
}


def observe(fn):
    """('ok', value) or ('err', class name) — every exception class is an observation"""
    try:
        return "ok", fn()
    except (KeyboardInterrupt, SystemExit):
        raise
    except BaseException as e:  # noqa: BLE001
        return "err", type(e).__name__


def enc_obs(o):
    return "ok:" + enc_str(o[1]) if o[0] == "ok" and isinstance(o[1], str) else ("err:" + str(o[1]) if o[0] == "err" else f"type:{type(o[1]).__name__}")


def sizes_around(base, top, rng, extra):
    out = {-(base ** 2), -1, 0, 1, 2, base - 1, base, base + 1}
    for i in range(1, top + 1):
        u = base ** i
        out |= {u - 1, u, u + 1, 2 * u - 1, u * base - 1, u + u // 2, u + u // 20, u + 3 * u // 20, u + u // 4}
    for _ in range(extra):
        i = rng.randint(0, top)
        out.add(rng.randint(0, base ** (i + 1)))
    return sorted(out)


# ------------------------------------------------------------------ filesize.pick_unit_and_suffix
def pick_unit(ctx, rng, quick):
    from rich import filesize

    for base in (1000, 1024, 2, 3, 10):
        for n in range(0, 10):
            sfx = [f"s{j}" for j in range(n)]
            for size in sizes_around(base, n + 1, rng, 6 if quick else 60):
                o = observe(lambda: filesize.pick_unit_and_suffix(size, list(sfx), base))
                if o[0] == "ok":
                    unit, suffix = o[1]
                    idx = sfx.index(suffix) if suffix in sfx else -1
                    ans = f"{unit} {idx}"
                    # the unit selection law, on rich's own answer
                    ok = (idx >= 0 and unit == base ** idx and (idx == 0 or unit <= size)
                          and (idx == n - 1 or size < unit * base))
                    ctx.check(ok, "pick_unit_law", (size, n, base), f"pick_unit_and_suffix -> {o[1]!r}: not unit <= size < unit*base (ends excepted)")
                else:
                    ans = "err:" + o[1]
                    ctx.check(n == 0 and o[1] == "UnboundLocalError", "pick_unit_law", (size, n, base), f"pick_unit_and_suffix raised {o[1]}")
                ctx.case("pf_pick", [size, n, base], ans, shape=f"n{min(n, 2)}")
                ctx.note(f"pick:{'err' if o[0] == 'err' else 'first' if idx == 0 else 'last' if idx == n - 1 else 'mid'}")
    ctx.flush()


def expected_to_str(size, sfx, base):
    """the documented reading of `_to_str`: the largest unit base**(j+1) <= size (capped at the last suffix)"""
    if size == 1:
        return "1 byte"
    if size < base:
        return "{:,} bytes".format(size)
    j = 0
    while j + 1 < len(sfx) and size >= base ** (j + 2):
        j += 1
    return "{:,.1f} {}".format(size / base ** (j + 1), sfx[j])


def to_str(ctx, rng, quick):
    from rich import filesize

    fn = getattr(filesize, "_to_str")
    for base in (1000, 1024, 2, 10):
        for n in range(0, 9):
            sfx = tuple(f"s{j}" for j in range(n))
            for size in sizes_around(base, n + 2, rng, 6 if quick else 60):
                o = observe(lambda: fn(size, sfx, base))
                if o[0] == "ok" and n > 0:
                    ctx.check(o[1] == expected_to_str(size, sfx, base), "to_str_unit_law", (size, n, base), f"_to_str -> {o[1]!r}, by the unit law {expected_to_str(size, sfx, base)!r}")
                elif o[0] == "err":
                    ctx.check(n == 0 and size >= base and size != 1 and o[1] == "UnboundLocalError", "to_str_unit_law", (size, n, base), f"_to_str raised {o[1]}")
                ctx.case("pf_tostr", [size, n, base], enc_obs(o), shape=f"n{min(n, 2)}")
    ctx.flush()


NUM = re.compile(r"^(-?[0-9][0-9,]*(?:\.[0-9]+)?) (\S+)$")


def decimal(ctx, rng, quick):
    from rich import filesize

    sizes = set(sizes_around(1000, 9, rng, 300 if quick else 6000))
    for k in range(0, 28):  # ties of the one-decimal rounding: x.x5 of every unit, and their neighbours
        for m in (1005, 1015, 1025, 1045, 1050, 1150, 1250, 1350, 1450, 1750, 9995, 99995, 999949, 999950, 999951):
            v = m * 10 ** k
            sizes |= {v // 1000 - 1, v // 1000, v // 1000 + 1}
    for size in sorted(sizes):
        o = observe(lambda: filesize.decimal(size))
        ctx.case("pf_decimal", [size], enc_str(o[1]) if o[0] == "ok" and isinstance(o[1], str) else f"err:{o[1]}", shape="decimal")
        ok = o[0] == "ok" and o[1] == expected_to_str(size, DEC_SUFFIXES, 1000)
        if ok and size >= 1000:
            # the text read back: the value shown is within half a last digit of size / unit, and 1 <= size/unit < 1000 below the top
            m = NUM.match(o[1])
            ok = bool(m) and m.group(2) in DEC_SUFFIXES
            if ok:
                j = DEC_SUFFIXES.index(m.group(2))
                unit = 1000 ** (j + 1)
                shown = Fraction(m.group(1).replace(",", ""))
                ok = abs(shown - Fraction(size, unit)) <= Fraction(1, 20) + Fraction(size, unit) * Fraction(1, 2 ** 50) and unit <= size and (j == 7 or size < unit * 1000)
        ctx.check(ok, "to_str_unit_law:decimal", size, f"filesize.decimal -> {o[1]!r}")
        ctx.note("decimal:" + ("small" if size < 1000 else f"e{min(len(str(size)) // 3, 9)}"))
    ctx.flush()


def download(ctx, rng, quick):
    from rich.progress import DownloadColumn

    class T:
        pass

    cols = {False: DownloadColumn(), True: DownloadColumn(binary_units=True)}
    cases = set()
    for binary in (False, True):
        base = 1024 if binary else 1000
        grid = sizes_around(base, 9, rng, 0)
        for total in grid:
            for completed in (0, 1, total // 3, total // 2 + total // 20, total - 1, total, total + total // 7, -5):
                cases.add((binary, completed, total))
        for _ in range(150 if quick else 3000):
            i = rng.randint(0, 9)
            total = rng.randint(0, base ** (i + 1))
            cases.add((binary, rng.randint(0, max(1, total)), total))
    for binary, completed, total in sorted(cases):
        t = T()
        # whole numbers as int or as float (int() of the column must not change them)
        fl = abs(total) < 2 ** 50 and abs(completed) < 2 ** 50 and (total + completed) % 3 == 1
        t.completed, t.total = (float(completed), float(total)) if fl else (completed, total)
        o = observe(lambda: cols[binary].render(t).plain)
        ctx.case("pf_download", [int(binary), completed, total], enc_str(o[1]) if o[0] == "ok" and isinstance(o[1], str) else f"err:{o[1]}", shape="bin" if binary else "dec")
        ok = o[0] == "ok"
        if ok:
            m = re.match(r"^(-?[0-9,.]+)/(-?[0-9,.]+) (\S+)$", o[1])
            ok = bool(m) and m.group(3) in DL_SUFFIXES[binary]
            if ok:
                base = 1024 if binary else 1000
                j = DL_SUFFIXES[binary].index(m.group(3))
                unit = base ** j
                prec = Fraction(1, 2) if unit == 1 else Fraction(1, 20)
                tv, cv = Fraction(m.group(2).replace(",", "")), Fraction(m.group(1).replace(",", ""))
                slack = lambda x: prec + abs(x) * Fraction(1, 2 ** 50)
                ok = ((j == 0 or unit <= total) and (j == 8 or total < unit * base)
                      and abs(tv - Fraction(total, unit)) <= slack(Fraction(total, unit))
                      and abs(cv - Fraction(completed, unit)) <= slack(Fraction(completed, unit)))
        ctx.check(ok, "pick_unit_law:download", (binary, completed, total), f"DownloadColumn -> {o[1]!r}")
    ctx.flush()


# ------------------------------------------------------------------ the float layer
def fixed_and_trunc(ctx, rng, quick):
    cases = set()
    for b in (1, 2, 3, 7, 8, 10, 20, 40, 1000, 1024, 10 ** 6, 10 ** 9, 2 ** 40, 10 ** 27, 3 ** 40):
        for num in (0, 1, b // 20, b // 4, b // 2, b - 1, b, b + 1, 21 * b // 20, 23 * b // 20, 5 * b // 4, 7 * b // 4, 999 * b + 19 * b // 20, 12345 * b + b // 2, (2 ** 53 + 1) * b, (2 ** 53 + 3) * b + b // 2):
            for a in (num, -num, num + 1, num - 1):
                cases.add((a, b))
                cases.add((a, -b))
    for _ in range(1500 if quick else 40000):
        b = rng.choice([1, 10 ** rng.randint(0, 27), 2 ** rng.randint(0, 80), rng.randint(1, 10 ** rng.randint(1, 30))])
        k = rng.randint(0, 10 ** rng.randint(0, 8))
        a = rng.choice([k * b + b // 20, k * b + b // 2, k * b + rng.randint(0, b), (20 * k + 1) * b // 20, k * b - 1, k * b + 1, rng.randint(0, 10 ** 40)])
        cases.add((a * rng.choice([1, 1, 1, -1]), b))
    for a, b in sorted(cases):
        for p in (0, 1):
            ctx.case("pf_fixed", [p, a, b], enc_str(format(a / b, f",.{p}f")), shape=f"p{p}")
        ctx.case("pf_trunc", [a, b], int(a / b), shape="trunc")
    ctx.flush()


# ------------------------------------------------------------------ timedelta text
TD = re.compile(r"^(?:(-?[0-9]+) days?, )?([0-9]+):([0-9][0-9]):([0-9][0-9])$")


def parse_td(s):
    m = TD.match(s)
    if not m:
        return None
    d = int(m.group(1) or 0)
    h, mi, se = int(m.group(2)), int(m.group(3)), int(m.group(4))
    if not (h < 24 and mi < 60 and se < 60):
        return None
    return d * 86400 + h * 3600 + mi * 60 + se


def timedelta_text(ctx, rng, quick):
    from rich.progress import TimeRemainingColumn

    class T:
        completed = 1
        id = 0

    col = TimeRemainingColumn()
    lim = 999999999
    vals = {0, 1, 9, 10, 59, 60, 61, 599, 600, 3599, 3600, 3601, 35999, 36000, 86399, 86400, 86401, 2 * 86400 - 1, 2 * 86400,
            lim * 86400, lim * 86400 + 86399, (lim + 1) * 86400, 10 ** 18, -lim * 86400, -lim * 86400 - 1, -(lim + 1) * 86400}
    vals |= {-v for v in list(vals) if v < 10 ** 6}
    for _ in range(200 if quick else 5000):
        vals.add(rng.randint(-10 ** rng.randint(1, 15), 10 ** rng.randint(1, 15)))
    for n in sorted(vals):
        t = T()
        t.time_remaining = n if n % 4 else float(n) if abs(n) < 2 ** 50 else n
        o = observe(lambda: col.render(t).plain)
        ctx.case("pf_td", [n], enc_obs(o), shape="td")
        if o[0] == "ok":
            ctx.check(parse_td(o[1]) == n, "td_fields_spec", n, f"TimeRemainingColumn text {o[1]!r} does not read back as {n} s")
        else:
            ctx.check(o[1] == "OverflowError" and abs(n // 86400) > lim, "td_fields_spec", n, f"TimeRemainingColumn.render raised {o[1]}")
        ctx.note("td:" + ("err" if o[0] == "err" else "neg" if n < 0 else "days" if n >= 86400 else "hms"))
    t = T()
    t.time_remaining = None
    o = observe(lambda: col.render(t).plain)
    ctx.check(o == ("ok", "-:--:--"), "td_fields_spec", None, f"no estimate is shown as {o[1]!r}")
    ctx.flush()


# ------------------------------------------------------------------ ProgressBar cells
def bar_cells(ctx, rng, quick):
    from rich.console import Console
    from rich.progress_bar import ProgressBar

    console = Console(file=io.StringIO(), force_terminal=True, width=80, color_system="truecolor", legacy_windows=False, _environ={})
    cases = set()
    for w in (1, 2, 3, 10, 40):
        for total in (0, 1, 2, 3, 7, 100, -5, 2 ** 60 + 1):
            for c in {-1, 0, 1, 2, 3, total // 2, total - 1, total, total + 1, total // 3, 2 * total // 3, total // 7}:
                cases.add((w, total, c))
    for _ in range(400 if quick else 8000):
        total = rng.choice([rng.randint(1, 50), rng.randint(1, 10 ** 6), 3 * 2 ** rng.randint(40, 70) + 1])
        w = rng.randint(1, 60)
        k = rng.randint(0, 2 * w)
        c = rng.choice([rng.randint(0, total), (k * total + 2 * w - 1) // (2 * w), k * total // (2 * w)])
        cases.add((w, total, c))
    for w, total, c in sorted(cases):
        # floats only where `width * 2 * completed` is still exact in double (the model multiplies exactly)
        fl = max(abs(total), abs(c)) * 2 * w < 2 ** 53 and (total + c) % 3 == 1
        bar = ProgressBar(total=float(total) if fl else total, completed=float(c) if fl else c, width=w,
                          style="red", complete_style="green", finished_style="green")
        o = observe(lambda: [(s.text, str(s.style)) for s in bar.__rich_console__(console, console.options)])
        text = "".join(t for t, _ in o[1]) if o[0] == "ok" else None
        ctx.case("pf_bar", [w, total, c], enc_str(text) if o[0] == "ok" else f"err:{o[1]}", shape="bar")
        ok = o[0] == "ok" and len(text) == w and set(text) <= set("━╸╺")
        if ok:
            # complete halves read off the drawn cells (green = done) against the exact quotient
            halves = sum(2 * t.count("━") + t.count("╸") for t, st in o[1] if st == "green")
            ok = all(st in ("green", "red") for _, st in o[1]) and not any("╺" in t for t, st in o[1] if st == "green")
            x = Fraction(2 * w) if total == 0 else Fraction(2 * w * min(total, max(0, c)), total)
            ok = ok and x - 1 < halves <= x + x * Fraction(1, 2 ** 40)
        ctx.check(ok, "bar_cells", (w, total, c), f"ProgressBar draws {o[1]!r}: not floor(2*width*completed/total) half cells")
    ctx.flush()


# ------------------------------------------------------------------ the columns on real tasks
def columns(ctx, rng, quick, cfg_str):
    from rich.progress import BarColumn, Progress, ProgressSample, Task, TimeElapsedColumn, TransferSpeedColumn
    from rich.console import Console

    import lib_progress as lp

    prog = Progress(console=Console(file=io.StringIO(), width=60), auto_refresh=False)
    defaults = list(prog.columns)  # description, BarColumn, percentage text, TimeRemainingColumn
    todo = []
    grid = [(tot, c) for tot in (0, 1, 3, 7, 8, 200, 1000, -4) for c in (-1, 0, 1, 2, 3, 5, 7, 8, 9, 100, 199, 200, 995, 999, 1000, 1001)]
    for tot, c in grid:
        todo.append((1, 1, tot, c, None, None, None, [], 0))
        todo.append((1, 1, tot, c, None, 0, None, [(0, 1), (4, 2), (8, 3)], 9))
    for _ in range(1200 if quick else 30000):
        A, T = rng.choice([1, 1, 2, 16]), rng.choice([1, 2, 8])
        tot = rng.choice([0, rng.randint(1, 40), rng.randint(1, 10 ** 4), rng.randint(1, 10 ** 9), -rng.randint(1, 9)]) * rng.choice([1, A])
        c = rng.choice([0, rng.randint(0, max(1, abs(tot))), tot, tot + 1, rng.randint(0, max(1, abs(tot))) // 2, -1])
        start = rng.choice([None, 0, rng.randint(0, 50)])
        now = (start or 0) + rng.randint(0, 10 ** rng.randint(0, 7))
        stop = rng.choice([None, None, None, rng.randint(0, now)])
        ns = rng.choice([0, 1, 2, 3, 5])
        ts = sorted(rng.randint(start or 0, now) for _ in range(ns))
        samples = [(x, rng.choice([0, 1, rng.randint(0, 50), rng.randint(0, 10 ** rng.randint(0, 8))])) for x in ts]
        fin = rng.choice([None, None, None, rng.randint(0, 100)]) if c >= tot else None
        todo.append((A, T, tot, c, fin, start, stop, samples, now))
    for A, T, tot, c, fin, start, stop, samples, now in todo:
        u = lp.Units(A, T)
        task = Task(0, "d0", u.amt(tot), u.amt(c), _get_time=lambda: u.time(now))
        task.finished_time = None if fin is None else u.time(fin)
        task.start_time = None if start is None else u.time(start)
        task.stop_time = None if stop is None else u.time(stop)
        for x, a in samples:
            task._progress.append(ProgressSample(u.time(x), u.amt(a)))
        inp = (A, T, tot, c, fin, start, stop, samples, now)
        pct = observe(lambda: defaults[2].render(task).plain)
        bar = observe(lambda: defaults[1].render(task))
        rem = observe(lambda: defaults[3].render(task).plain)
        ela = observe(lambda: TimeElapsedColumn().render(task).plain)
        spd = observe(lambda: TransferSpeedColumn().render(task).plain)
        # ---- direct evaluation, oracles from the raw fields
        pe = lp.exact_percentage(u.amt(tot), u.amt(c))
        okp = pct[0] == "ok" and isinstance(pct[1], str) and len(pct[1]) == 4 and pct[1].endswith("%") and pct[1][:3].strip().isdigit() and abs(int(pct[1][:3]) - pe) <= Fraction(1, 2) + Fraction(1, 10 ** 9)
        ctx.check(okp, "pct_text", inp, f"percentage column shows {pct[1]!r}, exact percentage {pe}")
        okb = bar[0] == "ok" and (Fraction(bar[1].total), Fraction(bar[1].completed), bar[1].pulse) == (max(Fraction(0), Fraction(u.amt(tot))), max(Fraction(0), Fraction(u.amt(c))), start is None)
        ctx.check(okb, "bar_args_clamped", inp, f"BarColumn.render -> {bar[1]!r}")
        etr = lp.exact_time_remaining(task)
        rtr = lp.get(task, "time_remaining")
        if rem[0] == "ok":
            okr = (rem[1] == "-:--:--") == (etr is None) and (etr is None or (isinstance(rtr, (int, float)) and parse_td(rem[1]) == int(rtr)))
        else:
            okr = rem[1] == "OverflowError" and isinstance(rtr, (int, float)) and abs(int(rtr) // 86400) > 999999999
        ctx.check(okr, "time_remaining_text", inp, f"TimeRemainingColumn shows {rem[1]!r}; time_remaining={rtr!r}, exact {etr}")
        el = fin if fin is not None else None if start is None else (stop - start) if stop is not None else now - start
        if ela[0] == "ok":
            oke = (ela[1] == "-:--:--") == (el is None) and (el is None or parse_td(ela[1]) == int(Fraction(el, T)))
        else:
            oke = False
        ctx.check(oke, "time_elapsed_text", inp, f"TimeElapsedColumn shows {ela[1]!r}; elapsed ticks {el}")
        es = lp.exact_speed(task)
        oks = spd[0] == "ok" and ((spd[1] == "?") == (es is None)) and (es is None or spd[1].endswith("/s"))
        ctx.check(oks, "transfer_speed_text", inp, f"TransferSpeedColumn shows {spd[1]!r}; exact speed {es}")
        # ---- correspondence (only where the real time_remaining is the exact ceiling: the float slack of
        # ceil(remaining / speed) is judged by pg_hist, not here)
        if etr is not None and not (isinstance(rtr, (int, float)) and rtr == etr):
            ctx.note("col:time_remaining-float-slack(skipped)")
            continue
        if es is not None and es < 0:
            ctx.note("col:negative-speed")
        ba = "type" if bar[0] != "ok" else f"{lp.to_units(bar[1].total, A)} {lp.to_units(bar[1].completed, A)} {int(bool(bar[1].pulse))}"
        ans = "|".join([enc_str(pct[1][:-1]) if pct[0] == "ok" and isinstance(pct[1], str) and pct[1].endswith("%") else f"bad:{pct[1]!r}",
                        ba, enc_obs(rem), enc_obs(ela), enc_str(spd[1]) if spd[0] == "ok" and isinstance(spd[1], str) else f"err:{spd[1]}"])
        ctx.case("pf_col", [cfg_str(0, T), A, tot, c, lp.opt(fin), lp.opt(start), lp.opt(stop), " ".join(f"{x}:{a}" for x, a in samples), lp.opt(el)], ans, shape="col")
        ctx.note("col:" + ("dash" if rem == ("ok", "-:--:--") else "err" if rem[0] == "err" else "hms"))
        ctx.note("col:speed-" + ("none" if es is None else "some"))
    ctx.flush()


def run_fmt(ctx, guard, cfg_str):
    quick = ctx.quick
    rng = ctx.rng
    guard(ctx, "pick_unit_law", "grid", lambda: pick_unit(ctx, rng, quick))
    guard(ctx, "to_str_unit_law", "grid", lambda: to_str(ctx, rng, quick))
    guard(ctx, "to_str_unit_law:decimal", "grid", lambda: decimal(ctx, rng, quick))
    guard(ctx, "pick_unit_law:download", "grid", lambda: download(ctx, rng, quick))
    guard(ctx, "float_layer", "grid", lambda: fixed_and_trunc(ctx, rng, quick))
    guard(ctx, "td_fields_spec", "grid", lambda: timedelta_text(ctx, rng, quick))
    guard(ctx, "bar_cells", "grid", lambda: bar_cells(ctx, rng, quick))
    guard(ctx, "columns", "grid", lambda: columns(ctx, rng, quick, cfg_str))
