"""Helpers shared by the checks that talk about `rich.style.Style` (owner: C06).

* wire encoders for Color / Style (the formats of lean/RichModel/Drv/C06.lean);
* construction routes: small terms over the public constructors of Style, with an evaluator on the
  real rich objects (`build`) and an encoder for the Lean driver (`enc_route`).

A route is a nested tuple:
  ("N",)                              Style.null()
  ("I", colorarg, colorarg, kw, link) Style(color=, bgcolor=, bold=…, link=)   kw: 13-tuple of None/bool
  ("F", color, color)                 Style.from_color(color, bgcolor)
  ("P", text)                         Style.parse(text)   (lru_cache bypassed: a fresh object every time)
  ("A", r, r)                         r + r
  ("O", r)                            r + None
  ("C", r)                            r.copy()
  ("U", link, r)                      r.update_link(link)
  ("W", r)                            r.without_color
  ("T", r)                            str(r) is called, then r is used
  ("H", combine?, [r…])               Style.chain(*rs) / Style.combine(rs)
  ("B", r)                            r.background_style
  ("K", [r | None …])                 Style.pick_first(*values)   (the values are built left to right first)
  ("M", r, [r…])                      sum([r…], start)            (start a Style; there is no Style.__radd__)
colorarg: None | ("S", text) | ("C", color);  color: None | Color | a colour constructor call, evaluated by
`mk_color` on the real rich and by the model on the Lean side:
  ("ansi", n)        Color.from_ansi(n)
  ("trip", r, g, b)  Color.from_triplet(ColorTriplet(r, g, b))
  ("rgb", r4, g4, b4) Color.from_rgb(r4 / 4, g4 / 4, b4 / 4)   (floats; int() truncates)
  ("default",)       Color.default()
"""
from core import enc_str

ATTRS = ["bold", "dim", "italic", "underline", "blink", "blink2", "reverse", "conceal", "strike", "underline2", "frame", "encircle", "overline"]


def enc_optstr(s):
    return "-" if s is None else "=" + enc_str(s)


def is_ctor(c):
    """A colour constructor call (see the module docstring) rather than a Color value."""
    return isinstance(c, tuple) and len(c) >= 1 and c[0] in ("ansi", "trip", "rgb", "default") and not hasattr(c, "_fields")


def mk_color(c):
    """Evaluate a colour (None | Color | constructor call) on the real rich."""
    if c is None or not is_ctor(c):
        return c
    from rich.color import Color
    from rich.color_triplet import ColorTriplet

    if c[0] == "ansi":
        return Color.from_ansi(c[1])
    if c[0] == "trip":
        return Color.from_triplet(ColorTriplet(c[1], c[2], c[3]))
    if c[0] == "rgb":
        return Color.from_rgb(c[1] / 4, c[2] / 4, c[3] / 4)
    return Color.default()


def show_color(c):
    if c is None or not is_ctor(c):
        return repr(c)
    if c[0] == "ansi":
        return f"Color.from_ansi({c[1]})"
    if c[0] == "trip":
        return f"Color.from_triplet(ColorTriplet({c[1]}, {c[2]}, {c[3]}))"
    if c[0] == "rgb":
        return f"Color.from_rgb({c[1] / 4}, {c[2] / 4}, {c[3] / 4})"
    return "Color.default()"


def enc_color(c):
    if c is None:
        return "-"
    if is_ctor(c):
        if c[0] == "ansi":
            return f"@A{c[1]}"
        if c[0] == "trip":
            return f"@T{c[1]}.{c[2]}.{c[3]}"
        if c[0] == "rgb":
            return f"@R{c[1]}.{c[2]}.{c[3]}"
        return "@D"
    num = "-" if c.number is None else str(int(c.number))
    trip = "-" if c.triplet is None else ".".join(str(int(x)) for x in c.triplet)
    return f"{enc_str(c.name)}/{int(c.type)}/{num}/{trip}"


def enc_style(s):
    return "|".join([enc_color(s._color), enc_color(s._bgcolor), str(s._attributes), str(s._set_attributes), enc_optstr(s._link)])


def enc_tri(v):
    return "-" if v is None else ("1" if v else "0")


def fields_hash(s):
    return hash((s._color, s._bgcolor, s._attributes, s._set_attributes, s._link))


def wf(s):
    """The well-formedness hypothesis of the round-trip theorem (Style.wf in Model/Style.lean), evaluated
    on a real Style: 13 attribute bits with values only where set, colours whose name is a white-space-free
    definition of that very colour, link None or one non-empty word."""
    from rich.color import Color

    def okc(c):
        if c is None:
            return True
        try:
            return not any(ch.isspace() for ch in c.name) and Color.parse(c.name) == c
        except Exception:  # noqa: BLE001
            return False

    lk = s.link
    bits = s._attributes & s._set_attributes == s._attributes and 0 <= s._set_attributes < 8192
    return bits and okc(s.color) and okc(s.bgcolor) and (lk is None or (lk != "" and not any(ch.isspace() for ch in lk)))


def enc_state(s):
    """Full modelled state of a real Style; reads the cache *before* str() fills it."""
    cached = s._style_definition
    return (
        enc_style(s)
        + "|n" + ("0" if s else "1")
        + "|d" + enc_optstr(cached)
        + "|s" + enc_str(str(s))
        + "|a" + "".join(enc_tri(getattr(s, a)) for a in ATTRS)
        + "|h" + ("1" if hash(s) == fields_hash(s) else "0")
        + "|w" + ("1" if wf(s) else "0")
        + "|t" + ("1" if s.transparent_background else "0")
    )


def enc_err(e):
    from rich.color import ColorParseError
    from rich.errors import StyleSyntaxError

    if isinstance(e, ColorParseError):
        return "err:ColorParseError"
    if isinstance(e, StyleSyntaxError):
        return "err:StyleSyntaxError"
    return "err:Other:" + type(e).__name__


def enc_colorarg(a):
    if a is None:
        return "-"
    if a[0] == "S":
        return "S:" + enc_str(a[1])
    return "C:" + enc_color(a[1])


def enc_kw(kw):
    return "".join(enc_tri(v) for v in kw)


def enc_route(r):
    out = []

    def go(r):
        t = r[0]
        if t == "N":
            out.append("N")
        elif t == "I":
            out.extend(["I", enc_colorarg(r[1]), enc_colorarg(r[2]), enc_kw(r[3]), enc_optstr(r[4])])
        elif t == "F":
            out.extend(["F", enc_color(r[1]), enc_color(r[2])])
        elif t == "P":
            out.extend(["P", enc_str(r[1])])
        elif t == "A":
            out.append("A")
            go(r[1])
            go(r[2])
        elif t in "OCWTB":
            out.append(t)
            go(r[1])
        elif t == "U":
            out.extend(["U", enc_optstr(r[1])])
            go(r[2])
        elif t == "H":
            out.extend(["H", str(len(r[2]))])
            for x in r[2]:
                go(x)
        elif t == "K":
            out.extend(["K", str(len(r[1]))])
            for x in r[1]:
                if x is None:
                    out.append("-")
                else:
                    go(x)
        elif t == "M":
            out.extend(["M", str(len(r[2]))])
            go(r[1])
            for x in r[2]:
                go(x)
        else:
            raise ValueError(r)

    go(r)
    return ";".join(out)


def _arg(a):
    return None if a is None else (mk_color(a[1]) if a[0] == "C" else a[1])


def build(r):
    """Evaluate a route on the real rich objects, left to right.  Raises what rich raises."""
    from rich.style import Style

    t = r[0]
    if t == "N":
        return Style.null()
    if t == "I":
        kw = {name: v for name, v in zip(ATTRS, r[3]) if v is not None}
        return Style(color=_arg(r[1]), bgcolor=_arg(r[2]), link=r[4], **kw)
    if t == "F":
        return Style.from_color(mk_color(r[1]), mk_color(r[2]))
    if t == "P":
        raw = getattr(Style.parse, "__wrapped__", None)  # bypass the lru_cache: a fresh object every time
        return raw(Style, r[1]) if raw is not None else Style.parse(r[1])
    if t == "A":
        a = build(r[1])
        b = build(r[2])
        return a + b
    if t == "O":
        return build(r[1]) + None
    if t == "C":
        return build(r[1]).copy()
    if t == "U":
        return build(r[2]).update_link(r[1])
    if t == "W":
        return build(r[1]).without_color
    if t == "T":
        s = build(r[1])
        str(s)
        return s
    if t == "H":
        ss = [build(x) for x in r[2]]
        return Style.combine(ss) if r[1] else Style.chain(*ss)
    if t == "B":
        return build(r[1]).background_style
    if t == "K":
        vals = [None if x is None else build(x) for x in r[1]]
        return Style.pick_first(*vals)
    if t == "M":
        start = build(r[1])
        return sum([build(x) for x in r[2]], start)
    raise ValueError(r)


def show(r):
    """Readable Python expression for a route (for samples / replays)."""
    t = r[0]
    if t == "N":
        return "Style.null()"
    if t == "I":
        parts = []
        if r[1] is not None:
            parts.append("color=" + (show_color(r[1][1]) if r[1][0] == "C" else repr(r[1][1])))
        if r[2] is not None:
            parts.append("bgcolor=" + (show_color(r[2][1]) if r[2][0] == "C" else repr(r[2][1])))
        parts += [f"{n}={v}" for n, v in zip(ATTRS, r[3]) if v is not None]
        if r[4] is not None:
            parts.append(f"link={r[4]!r}")
        return "Style(" + ", ".join(parts) + ")"
    if t == "F":
        return f"Style.from_color({show_color(r[1])}, {show_color(r[2])})"
    if t == "P":
        return f"Style.parse({r[1]!r})"
    if t == "A":
        return f"({show(r[1])} + {show(r[2])})"
    if t == "O":
        return f"({show(r[1])} + None)"
    if t == "C":
        return show(r[1]) + ".copy()"
    if t == "U":
        return show(r[2]) + f".update_link({r[1]!r})"
    if t == "W":
        return show(r[1]) + ".without_color"
    if t == "T":
        return f"touch_str({show(r[1])})"
    if t == "H":
        return ("Style.combine([" if r[1] else "Style.chain(*[") + ", ".join(show(x) for x in r[2]) + "])"
    if t == "B":
        return show(r[1]) + ".background_style"
    if t == "K":
        return "Style.pick_first(" + ", ".join("None" if x is None else show(x) for x in r[1]) + ")"
    if t == "M":
        return "sum([" + ", ".join(show(x) for x in r[2]) + "], " + show(r[1]) + ")"
    raise ValueError(r)
