"""Helpers shared by the checks that talk about `rich.style.Style` (owner: C06).

* wire encoders for Color / Style (the formats of lean/RichModel/Drv/C06.lean);
* construction routes: small terms over the public constructors of Style, with an evaluator on the
  real rich objects (`build`) and an encoder for the Lean driver (`enc_route`).

A route is a nested tuple:
  ("N",)                              Style.null()
  ("I", colorarg, colorarg, kw, link) Style(color=, bgcolor=, bold=…, link=)   kw: 13-tuple of None/bool
  ("F", color, color)                 Style.from_color(color, bgcolor)
  ("P", text)                         Style.parse(text)   (lru_cache bypassed: a fresh object every time)
  ("A", r, r)                         r + r
  ("O", r)                            r + None
  ("C", r)                            r.copy()
  ("U", link, r)                      r.update_link(link)
  ("W", r)                            r.without_color
  ("T", r)                            str(r) is called, then r is used
  ("H", combine?, [r…])               Style.chain(*rs) / Style.combine(rs)
  ("B", r)                            r.background_style
colorarg: None | ("S", text) | ("C", Color);  color: None | Color
"""
from core import enc_str

ATTRS = ["bold", "dim", "italic", "underline", "blink", "blink2", "reverse", "conceal", "strike", "underline2", "frame", "encircle", "overline"]


def enc_optstr(s):
    return "-" if s is None else "=" + enc_str(s)


def enc_color(c):
    if c is None:
        return "-"
    num = "-" if c.number is None else str(int(c.number))
    trip = "-" if c.triplet is None else ".".join(str(int(x)) for x in c.triplet)
    return f"{enc_str(c.name)}/{int(c.type)}/{num}/{trip}"


def enc_style(s):
    return "|".join([enc_color(s._color), enc_color(s._bgcolor), str(s._attributes), str(s._set_attributes), enc_optstr(s._link)])


def enc_tri(v):
    return "-" if v is None else ("1" if v else "0")


def fields_hash(s):
    return hash((s._color, s._bgcolor, s._attributes, s._set_attributes, s._link))


def wf(s):
    """The well-formedness hypothesis of the round-trip theorem (Style.wf in Model/Style.lean), evaluated
    on a real Style: 13 attribute bits with values only where set, colours whose name is a white-space-free
    definition of that very colour, link None or one non-empty word."""
    from rich.color import Color

    def okc(c):
        if c is None:
            return True
        try:
            return not any(ch.isspace() for ch in c.name) and Color.parse(c.name) == c
        except Exception:  # noqa: BLE001
            return False

    lk = s.link
    bits = s._attributes & s._set_attributes == s._attributes and 0 <= s._set_attributes < 8192
    return bits and okc(s.color) and okc(s.bgcolor) and (lk is None or (lk != "" and not any(ch.isspace() for ch in lk)))


def enc_state(s):
    """Full modelled state of a real Style; reads the cache *before* str() fills it."""
    cached = s._style_definition
    return (
        enc_style(s)
        + "|n" + ("0" if s else "1")
        + "|d" + enc_optstr(cached)
        + "|s" + enc_str(str(s))
        + "|a" + "".join(enc_tri(getattr(s, a)) for a in ATTRS)
        + "|h" + ("1" if hash(s) == fields_hash(s) else "0")
        + "|w" + ("1" if wf(s) else "0")
    )


def enc_err(e):
    from rich.color import ColorParseError
    from rich.errors import StyleSyntaxError

    if isinstance(e, ColorParseError):
        return "err:ColorParseError"
    if isinstance(e, StyleSyntaxError):
        return "err:StyleSyntaxError"
    return "err:Other:" + type(e).__name__


def enc_colorarg(a):
    if a is None:
        return "-"
    if a[0] == "S":
        return "S:" + enc_str(a[1])
    return "C:" + enc_color(a[1])


def enc_kw(kw):
    return "".join(enc_tri(v) for v in kw)


def enc_route(r):
    out = []

    def go(r):
        t = r[0]
        if t == "N":
            out.append("N")
        elif t == "I":
            out.extend(["I", enc_colorarg(r[1]), enc_colorarg(r[2]), enc_kw(r[3]), enc_optstr(r[4])])
        elif t == "F":
            out.extend(["F", enc_color(r[1]), enc_color(r[2])])
        elif t == "P":
            out.extend(["P", enc_str(r[1])])
        elif t == "A":
            out.append("A")
            go(r[1])
            go(r[2])
        elif t in "OCWTB":
            out.append(t)
            go(r[1])
        elif t == "U":
            out.extend(["U", enc_optstr(r[1])])
            go(r[2])
        elif t == "H":
            out.extend(["H", str(len(r[2]))])
            for x in r[2]:
                go(x)
        else:
            raise ValueError(r)

    go(r)
    return ";".join(out)


def _arg(a):
    return None if a is None else a[1]


def build(r):
    """Evaluate a route on the real rich objects, left to right.  Raises what rich raises."""
    from rich.style import Style

    t = r[0]
    if t == "N":
        return Style.null()
    if t == "I":
        kw = {name: v for name, v in zip(ATTRS, r[3]) if v is not None}
        return Style(color=_arg(r[1]), bgcolor=_arg(r[2]), link=r[4], **kw)
    if t == "F":
        return Style.from_color(r[1], r[2])
    if t == "P":
        return Style.parse.__wrapped__(Style, r[1])
    if t == "A":
        a = build(r[1])
        b = build(r[2])
        return a + b
    if t == "O":
        return build(r[1]) + None
    if t == "C":
        return build(r[1]).copy()
    if t == "U":
        return build(r[2]).update_link(r[1])
    if t == "W":
        return build(r[1]).without_color
    if t == "T":
        s = build(r[1])
        str(s)
        return s
    if t == "H":
        ss = [build(x) for x in r[2]]
        return Style.combine(ss) if r[1] else Style.chain(*ss)
    if t == "B":
        return build(r[1]).background_style
    raise ValueError(r)


def show(r):
    """Readable Python expression for a route (for samples / replays)."""
    t = r[0]
    if t == "N":
        return "Style.null()"
    if t == "I":
        parts = []
        if r[1] is not None:
            parts.append(f"color={r[1][1]!r}")
        if r[2] is not None:
            parts.append(f"bgcolor={r[2][1]!r}")
        parts += [f"{n}={v}" for n, v in zip(ATTRS, r[3]) if v is not None]
        if r[4] is not None:
            parts.append(f"link={r[4]!r}")
        return "Style(" + ", ".join(parts) + ")"
    if t == "F":
        return f"Style.from_color({r[1]!r}, {r[2]!r})"
    if t == "P":
        return f"Style.parse({r[1]!r})"
    if t == "A":
        return f"({show(r[1])} + {show(r[2])})"
    if t == "O":
        return f"({show(r[1])} + None)"
    if t == "C":
        return show(r[1]) + ".copy()"
    if t == "U":
        return show(r[2]) + f".update_link({r[1]!r})"
    if t == "W":
        return show(r[1]) + ".without_color"
    if t == "T":
        return f"touch_str({show(r[1])})"
    if t == "H":
        return ("Style.combine([" if r[1] else "Style.chain(*[") + ", ".join(show(x) for x in r[2]) + "])"
    if t == "B":
        return show(r[1]) + ".background_style"
    raise ValueError(r)
