"""C09's clause for `rich.syntax.Syntax`, evaluated directly on real rich (used by props/c09.py and props/c17.py).

Statement (C09): for every renderable and available width the reported measurement satisfies
0 <= minimum <= maximum <= available width, and rendering at the reported maximum never produces a line wider than
that value (for values at or above the structural minimum).

What is demanded here, and no more:
* `Measurement.get(console, syntax, w)` gives 0 <= minimum <= maximum <= max(w, 0) for EVERY available width w;
* whenever the width offered holds the object's structural minimum — the gutter (`numbers column + 1` blank, when line
  numbers are shown) plus the explicit `code_width`, or plus one cell (two when the code has wide characters) when
  `code_width` is None — rendering with `options.max_width = reported maximum` writes no line wider than that maximum.
  Below the structural minimum (the object cannot be drawn in what is offered) only the inequalities are demanded.
  Rendering at the reported MINIMUM is never demanded: the minimum Syntax reports is the bare numbers column, which is
  below its structural minimum in every configuration.
`options.no_wrap` stays off (with it on, Syntax does not crop at all: not a measuring matter).

The oracle shares nothing with the Lean model: gutter width and structural minimum are computed here from the option
values, line widths with rich.cells.cell_len (C13's subject, used as a measuring device).
"""
import io

FLAG_NOTE = "syntax-measure-one-short = rich/syntax.py __rich_measure__ forgets the blank after the line number (pending_fixes/C09-syntax-measure-one-short.diff)"

LINES = ["x = 1", "", "def f(a):", "    return a", "\tif x:", "\t\tpass", "# あいう wide", "s = 'ｗｉｄｅ'", "  ", "y = [1,\t2]",
         "long_name = " + " + ".join(["value"] * 9), "z", "あ", "    # 注释", "print('héllo')"]


def _cell_len(s):
    from rich.cells import cell_len

    return cell_len(s)


def gen_code(rng):
    n = rng.choice([0, 1, 1, 2, 3, 5, 8, 9, 10, 11, 12, 30])
    lines = [rng.choice(LINES) for _ in range(n)]
    lead = rng.choice([0, 0, 0, 1, 3])
    trail = rng.choice([0, 1, 1, 2, 4])
    return "\n" * lead + "\n".join(lines) + "\n" * trail


def gutter_of(line_numbers, start_line, code):
    return (len(str(start_line + code.count("\n"))) + 2) if line_numbers else 0


def structural_minimum(line_numbers, start_line, code, code_width, tab_size):
    g = gutter_of(line_numbers, start_line, code)
    g = g + 1 if line_numbers else 0
    if code_width is not None:
        return g + code_width
    wide = any(_cell_len(ch) == 2 for ch in code.expandtabs(tab_size))
    # without line numbers the code is rendered one cell narrower than the width offered (`max_width - 0 - 1`)
    return g + (2 if wide else 1) + (0 if line_numbers else 1)


def render_widths(console, syntax, max_width):
    """Cell widths of the lines `console.render(syntax)` writes at options.max_width = max_width (nothing is cropped here)."""
    options = console.options.update(width=max_width)
    text = "".join(s.text for s in console.render(syntax, options) if not s.is_control)
    rows = text.split("\n")
    if rows and rows[-1] == "":
        rows.pop()
    return rows


def one_case(ctx, rng, model, judge):
    from rich.console import Console
    from rich.measure import Measurement
    from rich.syntax import Syntax

    code = gen_code(rng)
    line_numbers = rng.random() < 0.65
    # the last line number has 1, 2, 3 or 4(+) digits
    start_line = rng.choice([1, 1, 2, 8, 9, 10, 90, 95, 99, 100, 990, 995, 999, 1000, 9995, 12345])
    code_width = rng.choice([None, None, None, 0, 1, 2, 3, 5, 8, 12, 20, 40, 88, 150])
    word_wrap = rng.random() < 0.3
    theme = rng.choice(["ansi_dark", "monokai", "default", "ansi_light"])
    tab_size = rng.choice([4, 4, 2, 8])
    lexer = rng.choice(["python", "python", "text", "no-such-lexer"])
    indent_guides = rng.random() < 0.3
    need = structural_minimum(line_numbers, start_line, code, code_width, tab_size)
    # available widths: below the need, at it, just above, ample, zero
    w = rng.choice([0, 1, 2, 3, max(need - 2, 0), max(need - 1, 0), need, need, need + 1, need + 2, need + 7, 40, 80, 120, 200])
    syntax = Syntax(code, lexer, theme=theme, line_numbers=line_numbers, start_line=start_line, code_width=code_width,
                    word_wrap=word_wrap, tab_size=tab_size, indent_guides=indent_guides)
    console = Console(file=io.StringIO(), width=rng.choice([80, 80, 20, 200]), color_system=None, force_terminal=False, legacy_windows=False)
    inp = {"code": code, "lexer": lexer, "theme": theme, "line_numbers": line_numbers, "start_line": start_line, "code_width": code_width,
           "word_wrap": word_wrap, "tab_size": tab_size, "indent_guides": indent_guides, "available": w, "structural_minimum": need}
    site = "Measurement.get(Syntax)"
    ctx.note("syntax-measure:numbers=%d code_width=%s gutter-digits=%d" % (line_numbers, "explicit" if code_width is not None else "auto",
                                                                       min(len(str(start_line + code.count("\n"))), 5) if line_numbers else 0))
    try:
        m = Measurement.get(console, syntax, w)
    except Exception as e:
        ctx.check(False, site, inp, "Measurement.get raised %s: %s" % (type(e).__name__, e))
        return
    ctx.check(0 <= m.minimum <= m.maximum <= max(w, 0), site, inp,
              "measurement (%d, %d) is not 0 <= minimum <= maximum <= available width %d" % (m.minimum, m.maximum, w))
    if model:  # the correspondence with the Lean model of __rich_measure__ lives in drv_c17
        from core import enc_bool, enc_opt, enc_str
        from props.c17 import MEASURE_SHORT

        raw = syntax.__rich_measure__(console, max(w, 1))
        if all(not (0xD800 <= ord(ch) <= 0xDFFF) for ch in code):
            ctx.case("syn_measure", [enc_str(code), enc_bool(line_numbers), start_line, enc_opt(code_width), max(w, 1), MEASURE_SHORT],
                     "%d,%d" % (raw.minimum, raw.maximum), shape="lib-numbers%d-cw%s" % (line_numbers, "y" if code_width is not None else "n"))
    if w < need:
        ctx.note("syntax-measure:below-structural-minimum (inequalities only)")
        return
    if m.maximum < 1:
        rows = []
    else:
        try:
            rows = render_widths(console, syntax, m.maximum)
        except Exception as e:
            ctx.check(False, "Syntax rendered at its reported maximum", inp, "rendering raised %s: %s" % (type(e).__name__, e))
            return
    over = [(r, _cell_len(r)) for r in rows if _cell_len(r) > m.maximum]
    finding = None
    if over and line_numbers and code_width is not None and all(n == m.maximum + 1 for _r, n in over) \
            and m.maximum == gutter_of(line_numbers, start_line, code) + code_width:
        finding = "syntax-measure-one-short"
    if not judge:  # called from a property that does not own the clause: counted, not judged
        ctx.note("syntax-measure(observed):render-at-maximum-%s" % (("OVERFLOWS:" + str(finding)) if over else "fits"))
        return
    ctx.check(not over, "Syntax rendered at its reported maximum", inp,
              "available width %d >= structural minimum %d, reported maximum %d, but rendering at that maximum writes a line of %d cells: %r"
              % (w, need, m.maximum, over[0][1] if over else 0, over[0][0] if over else ""), finding=finding)
    if not over:
        ctx.note("syntax-measure:render-at-maximum-fits")


def run(ctx, scale=1.0, model=None, judge=None):
    """Evaluate the clause on `int(2500 * scale)` generated Syntax objects (all randomness from ctx.rng).
    `model`: also compare `__rich_measure__` with the Lean model (only drv_c17 has it; default: when run for C17).
    `judge`: turn an overflow at the reported maximum into a property failure (default: unless run for C17, whose
    statement does not contain the clause — there it is only counted)."""
    if model is None:
        model = getattr(ctx, "prop", "") == "C17"
    if judge is None:
        judge = getattr(ctx, "prop", "") != "C17"
    n = max(1, int(2500 * scale))
    for _ in range(n):
        one_case(ctx, ctx.rng, model, judge)
    if model:
        ctx.flush()


RULE = ("Syntax measured and rendered at its reported maximum: generated code (blank lines, wide characters, tabs, 0-30 lines) x line_numbers x "
        "start_line (last line number of 1-5 digits) x code_width None / 0 / 1 / small / larger than offered x word_wrap x indent_guides x "
        "themes (padding or not) x available widths below, at and above the structural minimum; ")
