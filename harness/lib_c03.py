"""Helpers for property C03 (the ANSI stream means what the styled segments say).  Owner: C03.

* `Interp`            an independent SGR / OSC 8 interpreter over the tokens of `harness/term.py`, written
                      from ECMA-48 / the xterm documentation as *tables* (set / clear / colour ranges) — a
                      different shape from the Lean `AnsiTerm.sgr1` if-chain on purpose; the two are compared
                      with each other on every real stream (`c03_cells`);
* `expected_look`     the specification side: how a character printed with a given style must appear on a
                      console with a given colour system (colours after the documented down-conversion, computed
                      here from the raw palettes and stdlib `colorsys`, not by calling `Color.downgrade`);
* wire encoders       of styles (read through the *public* API of `Style`), segments, operations, cells.

A *look* is the tuple `(mask, fg, bg, link)`: mask = 13 bits in the order of `ATTRS`; fg / bg =
("d",) | ("i", n) | ("r", r, g, b); link = None | str.
"""
import colorsys
import itertools
import re

from core import enc_str

ATTRS = ["bold", "dim", "italic", "underline", "blink", "blink2", "reverse", "conceal", "strike", "underline2", "frame", "encircle", "overline"]

# ------------------------------------------------------------------ the interpreter (oracle)
# ECMA-48 8.3.117: parameter -> aspect switched on
SGR_ON = {1: "bold", 2: "dim", 3: "italic", 4: "underline", 5: "blink", 6: "blink2", 7: "reverse", 8: "conceal", 9: "strike",
          21: "underline2", 51: "frame", 52: "encircle", 53: "overline"}
# parameter -> aspects switched off
SGR_OFF = {22: ("bold", "dim"), 23: ("italic",), 24: ("underline", "underline2"), 25: ("blink", "blink2"), 27: ("reverse",),
           28: ("conceal",), 29: ("strike",), 54: ("frame", "encircle"), 55: ("overline",)}
DEFAULT = ("d",)
C0_RAW = {"LF": "\n", "CR": "\r", "BEL": "\x07", "BS": "\x08", "TAB": "\t"}


class Interp:
    """Replays term.py tokens; `cells` = [(char, look)], `state()` = the look a following character would get."""

    def __init__(self):
        self.on = set()
        self.fg = DEFAULT
        self.bg = DEFAULT
        self.link = None
        self.cells = []
        self.foreign = 0  # escape sequences that are neither SGR nor OSC 8

    def reset(self):
        self.on = set()
        self.fg = DEFAULT
        self.bg = DEFAULT

    def sgr(self, ps):
        ps = list(ps)
        if not ps:
            self.reset()
            return
        i = 0
        while i < len(ps):
            p = ps[i]
            i += 1
            if p in (38, 48):
                # ISO 8613-6 extended colour, the semicolon form xterm accepts
                if i < len(ps) and ps[i] == 5 and i + 1 < len(ps):
                    col = ("i", ps[i + 1])
                    i += 2
                elif i < len(ps) and ps[i] == 2 and i + 3 < len(ps):
                    col = ("r", ps[i + 1], ps[i + 2], ps[i + 3])
                    i += 4
                else:
                    return  # malformed: the rest of the sequence is ignored
                if p == 38:
                    self.fg = col
                else:
                    self.bg = col
            elif p == 0:
                self.reset()
            elif p in SGR_ON:
                self.on.add(SGR_ON[p])
            elif p in SGR_OFF:
                self.on.difference_update(SGR_OFF[p])
            elif 30 <= p <= 37:
                self.fg = ("i", p - 30)
            elif p == 39:
                self.fg = DEFAULT
            elif 40 <= p <= 47:
                self.bg = ("i", p - 40)
            elif p == 49:
                self.bg = DEFAULT
            elif 90 <= p <= 97:
                self.fg = ("i", p - 90 + 8)
            elif 100 <= p <= 107:
                self.bg = ("i", p - 100 + 8)
            # anything else: ignored

    def state(self):
        mask = sum(1 << i for i, a in enumerate(ATTRS) if a in self.on)
        return (mask, self.fg, self.bg, self.link)

    def put(self, text):
        look = self.state()
        for ch in text:
            self.cells.append((ch, look))

    def feed(self, tokens):
        for t in tokens:
            k = t[0]
            if k == "T":
                self.put(t[1])
            elif k == "SGR":
                self.sgr(t[1])
            elif k == "OSC8":
                self.link = t[2] or None
            elif k in C0_RAW:
                self.put(C0_RAW[k])
            elif k == "C0":
                self.put(t[1])
            else:
                self.foreign += 1
        return self


LINK_ID = re.compile(r"\x1b\]8;id=[0-9.eE+-]*;")


def mask_ids(s):
    """the random link id of every OSC 8 opener replaced by `*`"""
    return LINK_ID.sub("\x1b]8;id=*;", s)


def no_esc(s):
    return "\x1b" not in s and "\x9b" not in s and "\x9d" not in s


def shown(text):
    """what a terminal prints of a segment text that may contain escape sequences (control segments do): the characters
    outside the sequences, and the number of sequences that are neither SGR nor OSC 8"""
    if no_esc(text):
        return text, 0
    import term

    chars, foreign = [], 0
    for t in term.tokenize(text):
        k = t[0]
        if k == "T":
            chars.append(t[1])
        elif k in C0_RAW:
            chars.append(C0_RAW[k])
        elif k == "C0":
            chars.append(t[1])
        elif k not in ("SGR", "OSC8"):
            foreign += 1
    return "".join(chars), foreign


def canon_tokens(tokens):
    """term.py tokens -> the normal form the Lean driver prints: text runs (C0 controls are ordinary characters of
    a run), SGR, OSC 8; None when the stream contains any other escape sequence."""
    out = []
    for t in tokens:
        k = t[0]
        if k == "T":
            txt = t[1]
        elif k in C0_RAW:
            txt = C0_RAW[k]
        elif k == "C0":
            txt = t[1]
        elif k == "SGR":
            out.append(("G", tuple(t[1])))
            continue
        elif k == "OSC8":
            out.append(("L", t[1], t[2]))
            continue
        else:
            return None
        if not txt:
            continue
        if out and out[-1][0] == "T":
            out[-1] = ("T", out[-1][1] + txt)
        else:
            out.append(("T", txt))
    return out


def enc_tokens(toks):
    parts = []
    for t in toks:
        if t[0] == "T":
            parts.append("T" + enc_str(t[1]))
        elif t[0] == "G":
            parts.append("G" + ".".join(str(p) for p in t[1]))
        else:
            parts.append("L" + enc_str(t[1]) + "/" + enc_str(t[2]))
    return ";".join(parts)


def enc_tc(c):
    if c[0] == "d":
        return "d"
    if c[0] == "i":
        return "i%d" % c[1]
    return "r%d_%d_%d" % (c[1], c[2], c[3])


def enc_look(look):
    mask, fg, bg, link = look
    return "%d|%s|%s|%s" % (mask, enc_tc(fg), enc_tc(bg), "-" if link is None else "=" + enc_str(link))


def enc_cells(cells):
    """runs of consecutive cells with the same look: `string|mask|fg|bg|link` joined by `;`"""
    return ";".join(enc_str("".join(c for c, _ in grp)) + "|" + enc_look(look) for look, grp in ((k, list(g)) for k, g in itertools.groupby(cells, key=lambda x: x[1])))


# ------------------------------------------------------------------ the specification side
def nearest(pal, c):
    """index of the first palette entry at minimum weighted-RGB ("redmean") distance — rich/palette.py's metric in
    exact integer arithmetic"""
    best, bd = 0, None
    for i, p in enumerate(pal):
        rm = (c[0] + p[0]) // 2
        dr, dg, db = c[0] - p[0], c[1] - p[1], c[2] - p[2]
        d = (((512 + rm) * dr * dr) >> 8) + 4 * dg * dg + (((767 - rm) * db * db) >> 8)
        if bd is None or d < bd:
            best, bd = i, d
    return best


class Palettes:
    def __init__(self):
        from rich._palettes import EIGHT_BIT_PALETTE, STANDARD_PALETTE, WINDOWS_PALETTE

        self.std = [tuple(x) for x in STANDARD_PALETTE._colors]
        self.win = [tuple(x) for x in WINDOWS_PALETTE._colors]
        self.eight = [tuple(x) for x in EIGHT_BIT_PALETTE._colors]


_PAL = None


def palettes():
    global _PAL
    if _PAL is None:
        _PAL = Palettes()
    return _PAL


def to_256(rgb):
    """truecolor -> 256-colour number: greys (saturation < 10 %) on the grey ramp, the rest on the 6x6x6 cube"""
    r, g, b = (x / 255.0 for x in rgb)
    _h, l, s = colorsys.rgb_to_hls(r, g, b)
    if s < 0.1:
        gray = round(l * 25.0)
        return 16 if gray == 0 else 231 if gray == 25 else 231 + gray
    return 16 + 36 * round(r * 5.0) + 6 * round(g * 5.0) + round(b * 5.0)


def expected_color(c, cs):
    """terminal colour for a style colour `c` (a rich Color or None) on colour system cs in 1..4.
    Returns None when `c` is not well-formed (the model's error branches are compared separately)."""
    if c is None:
        return DEFAULT
    t = int(c.type)
    if t == 0:
        return DEFAULT if c.number is None and c.triplet is None else None
    pal = palettes()
    if t == 3:
        if c.triplet is None or c.number is not None:
            return None
        rgb = tuple(int(x) for x in c.triplet)
        if not all(0 <= x <= 255 for x in rgb):
            return None
        if cs == 3:
            return ("r",) + rgb
        if cs == 2:
            return ("i", to_256(rgb))
        return ("i", nearest(pal.std if cs == 1 else pal.win, rgb))
    n = c.number
    if n is None or c.triplet is not None:
        return None
    if t in (1, 4) and not 0 <= n < 16:
        return None
    if t == 2 and not 0 <= n < 256:
        return None
    if cs in (2, 3) or n < 16:
        return ("i", n)
    return ("i", nearest(pal.std if cs == 1 else pal.win, pal.eight[n]))


def style_masks(style):
    """(attributes that are on, attributes that are set) read through the public descriptors"""
    on = st = 0
    for i, a in enumerate(ATTRS):
        v = getattr(style, a)
        if v is not None:
            st |= 1 << i
            if v:
                on |= 1 << i
    return on, st


PLAIN = (0, DEFAULT, DEFAULT, None)


def expected_look(style, cs, no_color, legacy_windows):
    """how a character printed with `style` must appear (cs: 0 = colour disabled).  None: ill-formed colour."""
    if cs == 0 or style is None:
        return PLAIN
    on, _ = style_masks(style)
    if no_color:
        fg = bg = DEFAULT
    else:
        fg = expected_color(style.color, cs)
        bg = expected_color(style.bgcolor, cs)
        if fg is None or bg is None:
            return None
    link = style.link if (style.link and not legacy_windows) else None
    return (on, fg, bg, link)


# ------------------------------------------------------------------ wire encoders (formats of Drv/C03.lean)
def enc_optstr(s):
    return "-" if s is None else "=" + enc_str(s)


def enc_color(c):
    if c is None:
        return "-"
    num = "-" if c.number is None else str(int(c.number))
    trip = "-" if c.triplet is None else ".".join(str(int(x)) for x in c.triplet)
    return f"{enc_str(c.name)}/{int(c.type)}/{num}/{trip}"


def enc_style(style):
    on, st = style_masks(style)
    return "|".join([enc_color(style.color), enc_color(style.bgcolor), str(on), str(st), enc_optstr(style.link), "0" if style else "1"])


def modelled_style(style):
    """inside the domain of the wire format: natural numbers only"""
    def okc(c):
        if c is None:
            return True
        if c.number is not None and (not isinstance(c.number, int) or c.number < 0):
            return False
        if c.triplet is not None and not all(isinstance(x, int) and x >= 0 for x in c.triplet):
            return False
        return True

    return okc(style.color) and okc(style.bgcolor)


def enc_seg(text, sidx, control):
    return "%s,%s,%s" % (enc_str(text), "-" if sidx is None else sidx, "1" if control else "0")


def enc_segs(segs):
    return "%d#%s" % (len(segs), ";".join(enc_seg(*s) for s in segs))


def enc_cfg(cs, no_color, terminal, legacy):
    return "%d%d%d%d" % (cs, int(bool(no_color)), int(bool(terminal)), int(bool(legacy)))
