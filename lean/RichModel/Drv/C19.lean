import RichModel.Model.Ansi
import RichModel.Model.AnsiParams
import RichModel.Model.AnsiProxyApi
import RichModel.Drv.Proto
/-
Driver handlers for property C19 (ANSI decoder / truecolor encoder / FileProxy).

Wire formats
* string  : space separated decimal code points ("" = empty)
* flags   : eight characters 0/1: intRaises flushRaw emptyIgnored resetDropsLink offSingle crErases sgrLazy oscStOnly   (fields of `Ansi.Cfg`; `sv` is `StyleVariant.fixed`: only
            the five compared fields of a style are observed, which no `StyleVariant` flag changes)
* optstr  : `-` (None) or `=` string
* color   : `-` (None) or `name/type/number/triplet`, number `-`|n, triplet `-`|r.g.b
* style   : `color|bgcolor|attributes|set_attributes|link`            (link is an optstr)
* span    : `start~stop~style`   (`E` in place of a style = the `""` style of `Text.join`)
* text    : `plain^span;span;…`
* tokens  : `n:` then `P=`string | `S=`string | `O=`string separated by `,`
* decode  : `n#text#text…!final-style|n<null>!ok` or `…!err:<class>`
* seg     : `text~-~linkid` | `text~style|n<null>~linkid`, a list is `n:` seg `;` seg …
* ops     : `W=`string | `F0` | `F1` separated by `,`   (F1: the console's print raised); `proxy_run2`: each prefixed `o` / `e`
* params  : `ansi_attr_params flags i on` / `ansi_color_params flags color fg` → `ok:`param-text`!`style|n<null>  (the decoder's style after
            `ESC [ params m` from a fresh decoder; `!raised` if the decoder raised) or `err:`class (the encoder raised)
* apiops  : `proxy_api flags ops`: ops separated by `,`: `W=`string | `X` (write of a non-str) | `F0` | `L=`item`+`item… (writelines; item `S`string | `X`;
            `L=` alone = the empty list); answer: events per op as below, `R:TypeError` for the TypeError of a non-str write
* events  : per op, separated by `/`:  events of that op separated by `,`:
            `T`text (print of a decoded Text, markup/emoji/highlight off) | `S=`string (print of a str,
            console defaults) | `R:`class
-/
namespace RichModel.Drv.C19
open RichModel RichModel.Proto RichModel.Ansi

def decFlags (s : String) : Option Ansi.Cfg :=
  match s.toList.map (· == '1') with
  | [a, b, c, d, e, f, g, h] => some ⟨a, b, c, d, e, f, g, h⟩
  | _ => none

def decOptS (s : String) : Option (Option (List Char)) :=
  if s == "-" then some none
  else if s.startsWith "=" then some (some (decStr (s.drop 1).toString))
  else none

def encOptS : Option (List Char) → String
  | none => "-"
  | some l => "=" ++ encStr l

def decType : String → Option ColorType
  | "0" => some .default | "1" => some .standard | "2" => some .eightBit
  | "3" => some .truecolor | "4" => some .windows | _ => none

def decColor (s : String) : Option (Option Color) :=
  if s == "-" then some none
  else match s.splitOn "/" with
  | [n, t, num, trip] => do
    let ty ← decType t
    let number ← if num == "-" then some none else num.toNat?.map some
    let triplet ← if trip == "-" then some none else
      match trip.splitOn "." with
      | [r, g, b] => do
        let r ← r.toNat?
        let g ← g.toNat?
        let b ← b.toNat?
        pure (some (⟨r, g, b⟩ : Triplet))
      | _ => none
    pure (some { name := decStr n, type := ty, number := number, triplet := triplet })
  | _ => none

def encColor : Option Color → String
  | none => "-"
  | some c =>
    encStr c.name ++ "/" ++ toString c.type.toNat ++ "/" ++ encOptNat c.number ++ "/" ++
      (match c.triplet with
       | none => "-"
       | some t => toString t.red ++ "." ++ toString t.green ++ "." ++ toString t.blue)

def encStyle (s : Style) : String :=
  encColor s.color ++ "|" ++ encColor s.bgcolor ++ "|" ++ toString s.attributes ++ "|" ++
    toString s.setAttributes ++ "|" ++ encOptS s.link

/-- `color|bgcolor|attrs|set|link|n<null>` → a `Style` record (hash of the fields, empty caches). -/
def decStyle (s : String) : Option Style :=
  match s.splitOn "|" with
  | [c, b, a, sa, l, n] => do
    let c ← decColor c
    let b ← decColor b
    let a ← a.toNat?
    let sa ← sa.toNat?
    let l ← decOptS l
    pure { color := c, bgcolor := b, attributes := a, setAttributes := sa, link := l,
           hash := ⟨c, b, some a, some sa, l⟩, isNull := n == "n1", styleDef := none }
  | _ => none

def encSpan (s : Ansi.Span) : String :=
  toString s.start ++ "~" ++ toString s.stop ++ "~" ++ encStyle s.style

def encJSpan (s : JSpan) : String :=
  toString s.start ++ "~" ++ toString s.stop ++ "~" ++
    (match s.style with | none => "E" | some st => encStyle st)

def encRuns (runs : List Run) : String :=
  encStr (plainOf runs) ++ "^" ++ ";".intercalate ((spansOf runs).map encSpan)

def encJoined (parts : List (List Run)) : String :=
  let j := joinPieces parts 0
  encStr j.1 ++ "^" ++ ";".intercalate (j.2.map encJSpan)

def encStyleErr : StyleErr → String
  | .colorParse => "ColorParseError"
  | .styleSyntax => "StyleSyntaxError"
  | .valueError => "ValueError"
  | .stopIteration => "StopIteration"

def encDecErr : DecErr → String
  | .valueError => "ValueError"
  | .style e => encStyleErr e

def encToken : Token → String
  | .plain s => "P=" ++ encStr s
  | .sgr s => "S=" ++ encStr s
  | .osc s => "O=" ++ encStr s

def encFinal (st : Style) : String := encStyle st ++ "|n" ++ encBool st.isNull

def encDecoded (st : Style) (lines : List (List Run)) (err : Option DecErr) : String :=
  toString lines.length ++ "#" ++ "#".intercalate (lines.map encRuns) ++ "!" ++ encFinal st ++ "!" ++
    (match err with | none => "ok" | some e => "err:" ++ encDecErr e)

/-- `decodeMany` that also returns the lines decoded before an exception (what a consumer of the
generator `AnsiDecoder.decode` has already received). -/
def decodeCollect (cfg : Ansi.Cfg) : Style → List (List Char) → List (List Run) → Style × List (List Run) × Option DecErr
  | st, [], acc => (st, acc, none)
  | st, l :: r, acc =>
    match decodeLine cfg st l with
    | (st', .error e) => (st', acc, some e)
    | (st', .ok runs) => decodeCollect cfg st' r (acc ++ [runs])

def decSeg (s : String) : Option Seg :=
  match s.splitOn "~" with
  | [t, st, id] =>
    if st == "-" then some { text := decStr t, style := none, linkId := decStr id }
    else (decStyle st).map fun x => { text := decStr t, style := some x, linkId := decStr id }
  | _ => none

def decSegs (s : String) : Option (List Seg) :=
  match s.splitOn ":" with
  | [n, body] => if n == "0" then some [] else (body.splitOn ";").mapM decSeg
  | _ => none

def encEncErr : EncErr → String
  | .keyError => "err:KeyError"
  | .color .assertionError => "err:AssertionError"
  | .color .indexError => "err:IndexError"
  | .color .valueError => "err:ValueError"

def decOp (s : String) : Option Op :=
  if s == "F0" then some (.flush false)
  else if s == "F1" then some (.flush true)
  else if s.startsWith "W=" then some (.write (decStr (s.drop 2).toString))
  else none

def encEvent : Event → String
  | .call (.printText parts) => "T" ++ encJoined parts
  | .call (.printOne runs) => "T" ++ encRuns runs
  | .call (.printStr s) => "S=" ++ encStr s
  | .raised e => "R:" ++ encDecErr e

/-- events per operation -/
def runPerOp (cfg : Ansi.Cfg) : Proxy → List Op → List (List Event)
  | _, [] => []
  | p, op :: h =>
    let a := p.step cfg op
    a.2 :: runPerOp cfg a.1 h

/-- `o`/`e` prefix = stdout / stderr -/
def decOp2 (s : String) : Option (Bool × Op) :=
  if s.startsWith "o" then (decOp (s.drop 1).toString).map fun op => (false, op)
  else if s.startsWith "e" then (decOp (s.drop 1).toString).map fun op => (true, op)
  else none

/-- events per operation of a two-stream history -/
def run2PerOp (cfg : Ansi.Cfg) : Proxies → List (Bool × Op) → List (List Event)
  | _, [] => []
  | ps, (b, op) :: h =>
    let a := (ps.get b).step cfg op
    a.2 :: run2PerOp cfg (ps.set b a.1) h

def decArg (s : String) : Option Arg :=
  if s == "X" then some .notStr
  else if s.startsWith "S" then some (.str (decStr (s.drop 1).toString))
  else none

def decApiOp (s : String) : Option ApiOp :=
  if s == "X" then some (.write .notStr)
  else if s == "F0" then some .flush
  else if s.startsWith "W=" then some (.write (.str (decStr (s.drop 2).toString)))
  else if s.startsWith "L=" then
    let body := (s.drop 2).toString
    if body.isEmpty then some (.writelines []) else (body.splitOn "+").mapM decArg |>.map .writelines
  else none

def encApiEvent : ApiEvent → String
  | .ev e => encEvent e
  | .typeError => "R:TypeError"

def apiPerOp (cfg : Ansi.Cfg) : Proxy → List ApiOp → List (List ApiEvent)
  | _, [] => []
  | p, op :: h => let a := apiStep cfg p op; a.2 :: apiPerOp cfg a.1 h

def handlers : List (String × (List String → String)) := [
  ("proxy_api", fun a => match a with
    | [fl, ops] => match decFlags fl with
      | some cfg =>
        match (if ops.isEmpty then some [] else (ops.splitOn ",").mapM decApiOp) with
        | some h => "/".intercalate ((apiPerOp cfg Proxy.init h).map fun evs => ",".intercalate (evs.map encApiEvent))
        | none => "bad-args"
      | none => "bad-args"
    | _ => "bad-args"),
  ("ansi_tokenize", fun a => match a with
    | [fl, s] => match decFlags fl with
      | some cfg =>
        let toks := tokenize cfg.sgrLazy (!cfg.oscStOnly) (decStr s)
        toString toks.length ++ ":" ++ ",".intercalate (toks.map encToken)
      | none => "bad-args"
    | _ => "bad-args"),
  ("ansi_remove_csi", fun a => match a with
    | [s] => encStr (removeCsi (decStr s))
    | _ => "bad-args"),
  ("ansi_splitlines", fun a => match a with
    | [s] => encStrList (splitlines (decStr s))
    | _ => "bad-args"),
  ("ansi_decode_line", fun a => match a with      -- a fresh decoder, one call of decode_line
    | [fl, s] => match decFlags fl with
      | some cfg =>
        match decodeLine cfg Style.null (decStr s) with
        | (st, .ok runs) => encDecoded st [runs] none
        | (st, .error e) => encDecoded st [] (some e)
      | none => "bad-args"
    | _ => "bad-args"),
  ("ansi_decode", fun a => match a with           -- a fresh decoder, list(decode(text))
    | [fl, s] => match decFlags fl with
      | some cfg =>
        let r := decodeCollect cfg Style.null (splitlines (decStr s)) []
        encDecoded r.1 r.2.1 r.2.2
      | none => "bad-args"
    | _ => "bad-args"),
  ("ansi_attr_params", fun a => match a with     -- Style(attr_i=on): _make_ansi_codes(TRUECOLOR), then decoded from a fresh decoder
    | [fl, i, on] => match decFlags fl, i.toNat? with
      | some cfg, some i =>
        if i < 13 then
          match makeAnsiCodes (attrStyle i (on == "1")) with
          | .ok p => "ok:" ++ encStr p ++ "!" ++ (match decodeParams cfg p with | some st => encFinal st | none => "raised")
          | .error e => encEncErr e
        else "unmodelled"
      | _, _ => "bad-args"
    | _ => "bad-args"),
  ("ansi_color_params", fun a => match a with    -- Style(color=c) / Style(bgcolor=c): the colour's parameters, then decoded
    | [fl, c, fg] => match decFlags fl, decColor c with
      | some cfg, some (some col) =>
        match colorCodes col (fg == "1") with
        | .ok ps => "ok:" ++ encStr (joinWith ';' ps) ++ "!" ++
            (match decodeParams cfg (joinWith ';' ps) with | some st => encFinal st | none => "raised")
        | .error e => encEncErr e
      | _, _ => "bad-args"
    | _ => "bad-args"),
  ("ansi_encode", fun a => match a with           -- _render_buffer on a truecolor terminal
    | [legacy, segs] => match decSegs segs with
      | some gs => match encodeSegs (decBool legacy) gs with
        | .ok s => "ok:" ++ encStr s
        | .error e => encEncErr e
      | none => "unmodelled"
    | _ => "bad-args"),
  ("proxy_run2", fun a => match a with        -- stdout + stderr proxies on one console (ops prefixed o / e)
    | [fl, ops] => match decFlags fl with
      | some cfg =>
        match (if ops.isEmpty then some [] else (ops.splitOn ",").mapM decOp2) with
        | some h =>
          "/".intercalate ((run2PerOp cfg Proxies.init h).map fun evs => ",".intercalate (evs.map encEvent))
        | none => "bad-args"
      | none => "bad-args"
    | _ => "bad-args"),
  ("proxy_run", fun a => match a with
    | [fl, ops] => match decFlags fl with
      | some cfg =>
        match (if ops.isEmpty then some [] else (ops.splitOn ",").mapM decOp) with
        | some h =>
          "/".intercalate ((runPerOp cfg Proxy.init h).map fun evs => ",".intercalate (evs.map encEvent))
        | none => "bad-args"
      | none => "bad-args"
    | _ => "bad-args")
]

end RichModel.Drv.C19
