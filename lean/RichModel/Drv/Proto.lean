/-
Line protocol helpers shared by all driver modules.
Strings travel as space-separated decimal code points ("" = empty string), so no escaping exists.
-/
namespace RichModel.Proto

def decStr (s : String) : List Char :=
  if s.isEmpty then [] else (s.splitOn " ").filterMap (fun t => t.toNat?.map Char.ofNat)

def encStr (cs : List Char) : String :=
  " ".intercalate (cs.map (fun c => toString c.toNat))

def decNat (s : String) : Nat := s.toNat?.getD 0

def decInt (s : String) : Int := s.toInt?.getD 0

def decBool (s : String) : Bool := s == "1"

def encBool (b : Bool) : String := if b then "1" else "0"

def decOptNat (s : String) : Option Nat := if s == "-" then none else s.toNat?

def encOptNat : Option Nat → String
  | none => "-"
  | some n => toString n

/-- list of strings, separated by `,` (elements are code-point strings, which never contain `,`). -/
def decStrList (s : String) : List (List Char) :=
  match s.splitOn ":" with
  | [n, body] => if n == "0" then [] else (body.splitOn ",").map decStr
  | _ => []

def encStrList (l : List (List Char)) : String :=
  toString l.length ++ ":" ++ ",".intercalate (l.map encStr)

end RichModel.Proto
