import RichModel.Model.Frames
import RichModel.Model.FramesTree
import RichModel.Model.FramesColumns
import RichModel.Gen.CellWidths
import RichModel.Drv.Proto
/-
Driver handlers for property C08 (framing renderables).

`frames_batch <env> <leaves> <q1> <q2> ...` answers `r1~r2~...`:
  env    = `consoleWidth,ascii,legacy,safe,nocolor,colorsystem`
  leaves = leaf oracles joined by `&`; a leaf is `measures@renders@index`:
             measures = `min:max` for w = 0..Wtab joined by `,`
             renders  = the distinct values of `list(console.render(child, width=w))`, joined by `/`;
                        a render is segments joined by `|`; a segment is `<code points>;<control 0|1>`
             index    = for w = 0..Wtab the number of its render, joined by `,`
  query  = `R,<variant>,<max_width>,<expr>`  (render)  |  `M,<variant>,<max_width>,<expr>`  (Measurement.get)
  expr   = prefix tokens joined by `;` (see `parseExpr`)
  result = `ok:<code points of the concatenated non-control text>#<control segments>` | `m:<min>,<max>` |
           `err:<PyErr>` | `unmodelled`
A leaf looked up outside 0..Wtab yields a poison value; every query is evaluated under two different
poisons and answers `unmodelled` when the two results differ (so an out-of-range lookup can never leak
into a compared answer).
-/
namespace RichModel.Drv.C08
open RichModel RichModel.Proto RichModel.Frames

def cw : Char → Nat := charWidthT Gen.cellWidths

abbrev Seg := Segment Nat

/-- variant bitmask: 1 zeroWidthChild, 2 ruleRightRepeat, 4 rstripCountsChars, 8 columnsZeroCount -/
def decVariant (s : String) : Variant :=
  let n := decNat s
  { zeroWidthChild := n % 2 == 1, ruleRightRepeat := n / 2 % 2 == 1, rstripCountsChars := n / 4 % 2 == 1,
    columnsZeroCount := n / 8 % 2 == 1 }


/-- a title is in the modelled domain when, line feeds replaced by blanks (as the code does), all its characters are simple -/
def titleOk (t : List Char) : Bool := (t.map (fun c => if c == '\n' then ' ' else c)).all simpleChar

abbrev Ch := Child Nat

/-! ### decoding -/

def decSeg (s : String) : Seg :=
  match s.splitOn ";" with
  | [t, c] => { text := decStr t, style := none, control := decBool c }
  | _ => { text := [], style := none, control := false }

def decRender (s : String) : List Seg := if s.isEmpty then [] else (s.splitOn "|").map decSeg

def decMeasure (s : String) : Measurement :=
  match s.splitOn ":" with
  | [a, b] => ⟨decInt a, decInt b⟩
  | _ => ⟨0, 0⟩

/-- poison values for lookups outside the tabulated range -/
def poisonSeg (k : Nat) : Seg := { text := [Char.ofNat (0x10FF00 + k)], style := none, control := false }
def poisonMeasure (k : Nat) : Measurement := ⟨1000003 + k, 1000003 + k⟩

def decLeaf (k : Nat) (s : String) : Ch :=
  match s.splitOn "@" with
  | [ms, rs, ix] =>
    let measures := ((ms.splitOn ",").map decMeasure).toArray
    let renders := ((rs.splitOn "/").map decRender).toArray
    let index := ((ix.splitOn ",").map decNat).toArray
    { measure := fun w => match measures[w]? with | some m => m | none => poisonMeasure k,
      render := fun w => match index[w]? with
        | some i => (match renders[i]? with | some r => r | none => [poisonSeg k])
        | none => [poisonSeg k] }
  | _ => { measure := fun _ => poisonMeasure k, render := fun _ => [poisonSeg k] }

def decLeaves (k : Nat) (s : String) : Array Ch :=
  if s.isEmpty then #[] else ((s.splitOn "&").map (decLeaf k)).toArray

def decEnv (s : String) : Env :=
  match s.splitOn "," with
  | [w, a, l, sb, nc, cs] =>
    { consoleWidth := decNat w, asciiOnly := decBool a, legacyWindows := decBool l, safeBox := decBool sb,
      noColor := decBool nc, colorSystem := decNat cs }
  | _ => { consoleWidth := 80 }

def decOptInt (s : String) : Option Int := if s == "-" then none else s.toInt?
def decOptBool (s : String) : Option Bool := if s == "-" then none else some (s == "1")
def decAlign (s : String) : AlignM := if s == "l" then .left else if s == "r" then .right else .center

/-! ### expressions -/

mutual
inductive Expr where
  | leaf (i : Nat)
  | pad (dims : List Nat) (expand : Bool) (e : Expr)
  | panel (o : PanelOpts) (e : Expr)
  | align (o : AlignOpts) (e : Expr)
  | constrain (w : Option Int) (e : Expr)
  | styled (e : Expr)
  | rule (o : RuleOpts)
  | bar (o : BarOpts)
  | pbar (o : ProgressOpts)
  | tree (t : TNode)
inductive TNode where
  | mk (label : Expr) (gs : GStyle) (expanded : Bool) (children : List TNode)
end

def takeNats : Nat → List String → Option (List Nat × List String)
  | 0, ts => some ([], ts)
  | n+1, t :: ts => (takeNats n ts).map (fun (l, r) => (decNat t :: l, r))
  | _+1, [] => none

mutual
partial def parseExpr : List String → Option (Expr × List String)
  | "L" :: i :: ts => some (.leaf (decNat i), ts)
  | "TREE" :: ts => do
    let (t, ts) ← parseNode ts
    pure (.tree t, ts)
  | "PAD" :: ex :: n :: ts => do
    let (dims, ts) ← takeNats (decNat n) ts
    let (e, ts) ← parseExpr ts
    pure (.pad dims (decBool ex) e, ts)
  | "PANEL" :: box :: title :: ta :: sb :: ex :: wd :: n :: ts => do
    let (dims, ts) ← takeNats (decNat n) ts
    let (e, ts) ← parseExpr ts
    pure (.panel { box := decNat box, title := decStr title, titleAlign := decAlign ta, safeBox := decOptBool sb,
                   expand := decBool ex, width := decOptInt wd, padding := dims } e, ts)
  | "ALIGN" :: a :: p :: wd :: ts => do
    let (e, ts) ← parseExpr ts
    pure (.align { align := decAlign a, pad := decBool p, width := decOptInt wd } e, ts)
  | "CONSTRAIN" :: wd :: ts => do
    let (e, ts) ← parseExpr ts
    pure (.constrain (decOptInt wd) e, ts)
  | "STYLED" :: ts => do
    let (e, ts) ← parseExpr ts
    pure (.styled e, ts)
  | "RULE" :: title :: chars :: e :: a :: ts =>
    some (.rule { title := decStr title, characters := decStr chars, endS := decStr e, align := decAlign a }, ts)
  | "BAR" :: sn :: sd :: bn :: bd :: en :: ed :: wd :: ts =>
    some (.bar { size := ⟨decInt sn, decNat sd⟩, beginV := ⟨decInt bn, decNat bd⟩, endV := ⟨decInt en, decNat ed⟩,
                 width := decOptInt wd }, ts)
  | "PBAR" :: tn :: td :: cn :: cd :: wd :: pu :: tmn :: tmd :: ts =>
    some (.pbar { total := ⟨decInt tn, decNat td⟩, completed := ⟨decInt cn, decNat cd⟩, width := decOptInt wd,
                  pulse := decBool pu, time := ⟨decInt tmn, decNat tmd⟩ }, ts)
  | _ => none
partial def parseNode : List String → Option (TNode × List String)
  | "N" :: b :: u :: ex :: k :: ts => do
    let (label, ts) ← parseExpr ts
    let (children, ts) ← parseNodes (decNat k) ts
    pure (.mk label ⟨decOptBool b, decOptBool u⟩ (decBool ex) children, ts)
  | _ => none
partial def parseNodes : Nat → List String → Option (List TNode × List String)
  | 0, ts => some ([], ts)
  | n+1, ts => do
    let (t, ts) ← parseNode ts
    let (rest, ts) ← parseNodes n ts
    pure (t :: rest, ts)
end

/-- result of evaluating a frame at one width -/
inductive Res where
  | ok (segs : List Seg)
  | err (e : PyErr)
  | unmodelled

structure Ctx where
  env : Env
  v : Variant
  leaves : Array Ch
  poison : Nat

-- nested position: static errors / unmodelled sub-frames make the whole query unmodelled
mutual
partial def toChild (c : Ctx) : Expr → Option Ch
  | .leaf i => c.leaves[i]?
  | .tree t => do
    let root ← toTree c t
    some (treeChild cw c.env root)
  | .pad dims ex e => do
    let ch ← toChild c e
    match unpackPad dims with
    | .ok p => some (paddingChild cw c.v p ex ch)
    | .error _ => none
  | .panel o e => do
    let ch ← toChild c e
    match unpackPad o.padding with
    | .error _ => none
    | .ok _ =>
      if !(titleOk o.title) then none else
      if (o.width.getD 0) < 0 then none else
      some (asChild
        (fun w => match panelConsole cw c.env c.v o ch w with
          | .ok (some s) => s
          | _ => [poisonSeg c.poison])
        (fun w => match panelRichMeasure cw o ch w with
          | .ok m => m
          | .error _ => poisonMeasure c.poison))
  | .align o e => do
    let ch ← toChild c e
    some (alignChild cw c.env c.v o ch)
  | .constrain w e => do
    let ch ← toChild c e
    some (constrainChild w ch)
  | .styled e => do
    let ch ← toChild c e
    some (styledChild ch)
  | .rule o =>
    match ruleInit cw o with
    | .error _ => none
    | .ok o =>
      if !(titleOk o.title && o.characters.all simpleChar) then none else
      some (asChild
        (fun w => match ruleConsole cw c.env c.v o w with
          | some s => s
          | none => [poisonSeg c.poison])
        (fun w => ⟨0, w⟩))   -- Rule has no __rich_measure__: Measurement.get gives (0, max_width)
  | .bar o =>
    if o.size.den == 0 || o.beginV.den == 0 || o.endV.den == 0 || (o.width.getD 0) < 0 then none else
    some (asChild (barConsole (barInit o)) (barRichMeasure o.width))
  | .pbar o =>
    if o.total.den == 0 || o.completed.den == 0 || o.time.den == 0 || (o.width.getD 0) < 0 then none else
    some (asChild (progressConsole c.env o) (barRichMeasure o.width))
partial def toTree (c : Ctx) : TNode → Option (TreeN Nat)
  | .mk label gs ex children => do
    let l ← toChild c label
    let cs ← children.mapM (toTree c)
    some (.node l gs ex cs)
end

/-- top level: `list(console.render(obj, options.update(width=w)))` -/
def renderTop (c : Ctx) (e : Expr) (w : Int) : Res :=
  match e with
  | .panel o e' =>
    match toChild c e' with
    | none => .unmodelled
    | some ch =>
      if w < 1 then .ok [] else
      if !(titleOk o.title) || (o.width.getD 0) < 0 then .unmodelled else
      match panelConsole cw c.env c.v o ch w with
      | .error er => .err er
      | .ok none => .unmodelled
      | .ok (some s) => .ok s
  | .rule o =>
    match ruleInit cw o with
    | .error er => .err er
    | .ok o =>
      if w < 1 then .ok [] else
      if !(titleOk o.title && o.characters.all simpleChar) then .unmodelled else
      match ruleConsole cw c.env c.v o w with
      | none => .unmodelled
      | some s => .ok s
  | e =>
    match toChild c e with
    | none => .unmodelled
    | some ch => .ok (ch.renderAt w)

def measureTop (c : Ctx) (e : Expr) (w : Int) : Option Measurement :=
  match e with
  | .rule o =>
    match ruleInit cw o with
    | .error _ => none
    | .ok _ => some (Measurement.getPost w none)
  | e => (toChild c e).map (fun ch => ch.measureAt w)

def errName : PyErr → String
  | .valueError => "ValueError"
  | .zeroDivision => "ZeroDivisionError"
  | .indexError => "IndexError"

def encRes : Res → String
  | .unmodelled => "unmodelled"
  | .err e => "err:" ++ errName e
  | .ok segs =>
    let text := (segs.filter (fun s => !s.control)).flatMap (·.text)
    let ctl := (segs.filter (·.control)).map (fun s => encStr s.text)
    "ok:" ++ encStr text ++ "#" ++ ",".intercalate ctl

def answerQuery (env : Env) (l1 l2 : Array Ch) (q : String) : String :=
  match q.splitOn "," with
  | [kind, v, w, ex] =>
    match parseExpr (ex.splitOn ";") with
    | some (e, []) =>
      let run (k : Nat) : String :=
        let c : Ctx := { env := env, v := decVariant v, leaves := (if k == 1 then l1 else l2), poison := k }
        if kind == "R" then encRes (renderTop c e (decInt w))
        else match measureTop c e (decInt w) with
          | some m => s!"m:{m.minimum},{m.maximum}"
          | none => "unmodelled"
      let a := run 1
      let b := run 2
      if a == b then a else "unmodelled"
    | _ => "bad-expr"
  | _ => "bad-query"

def handlers : List (String × (List String → String)) := [
  ("frames_batch", fun a => match a with
    | env :: leaves :: qs =>
      let l1 := decLeaves 1 leaves
      let l2 := decLeaves 2 leaves
      "~".intercalate (qs.map (answerQuery (decEnv env) l1 l2))
    | _ => "bad-args"),
  ("frames_unpack", fun a => match a with
    | [n, body] =>
      let dims := if decNat n == 0 then [] else (body.splitOn ",").map decNat
      match unpackPad dims with
      | .ok p => s!"{p.top},{p.right},{p.bottom},{p.left}"
      | .error e => "err:" ++ errName e
    | _ => "bad-args"),
  -- frames_columns <variant bitmask> <padding n:a,b..> <width|-> <equal> <column_first> <right_to_left> <measured maxima, comma separated> <max_width>
  ("frames_columns", fun a => match a with
    | [vb, pad, wd, eq, cf, rtl, ms, mw] =>
      let v : Variant := decVariant vb
      let dims := match pad.splitOn ":" with
        | [n, body] => if decNat n == 0 then [] else (body.splitOn ",").map decNat
        | _ => []
      let measured := if ms.isEmpty then [] else (ms.splitOn ",").map decInt
      let o : ColumnsOpts := { padding := dims, width := decOptInt wd, equal := decBool eq, columnFirst := decBool cf,
                               rightToLeft := decBool rtl }
      if (o.width.getD 0) < 0 || decInt mw < 1 then "unmodelled" else
      match columnsLayout v o measured (decInt mw) with
      | .error e => "err:" ++ errName e
      | .ok none => "none"
      | .ok (some l) =>
        toString l.columnCount ++ "|" ++ ";".intercalate (l.rows.map (fun r =>
          ",".intercalate (r.map (fun x => match x with | some i => toString i | none => "-"))))
    | _ => "bad-args")
]

end RichModel.Drv.C08
