import RichModel.Model.Frames
import RichModel.Model.FramesStyled
import RichModel.Model.FramesTitle
import RichModel.Model.Layout
import RichModel.Model.FramesTree
import RichModel.Model.FramesColumns
import RichModel.Gen.CellWidths
import RichModel.Drv.Proto
import RichModel.Drv.C08Bars
/-
Driver handlers for property C08 (framing renderables).

`frames_batch <env> <leaves> <q1> <q2> ...` answers `r1~r2~...`:
  env    = `consoleWidth,ascii,legacy,safe,nocolor,colorsystem,consoleHeight,justify,overflow,no_wrap` (the last three: the
           ConsoleOptions handed down with the width: `-` = None, justify d/l/c/r/f, overflow f/c/e/i, no_wrap 0/1)
  leaves = leaf oracles joined by `&`; a leaf is `measures@renders@index`:
             measures = `min:max` for w = 0..Wtab joined by `,`
             renders  = the distinct values of `list(console.render(child, <options of width w>))`, joined by `/`;
                        a render is segments joined by `|`; a segment is `<code points>;<style>;<control 0|1>`
             index    = for w = 0..Wtab the number of its render, joined by `,`
  style  = `-` (None) or `setAttributes.attributes.color.bgcolor.link` (colour / link: `-` or an id; ids stand for values compared with ==)
  query  = `S,<variant>,<max_width>,<expr>`  (render, styles compared)  |  `R,…` (render, text only)  |  `M,…`  (Measurement.get)
  variant = bitmask 1 zeroWidthChild, 2 ruleRightRepeat, 4 rstripCountsChars, 8 columnsZeroCount, 16 linesPadUnstyled,
            32 titleAtConsoleWidth, 64 ruleNoTitleEnd
  expr   = prefix tokens joined by `;` (see `parseExpr`)
  result = `ok:<runs>#<control segments>` | `m:<min>,<max>` | `err:<Frames.PyErr>` | `unmodelled`; a run is `<style>;<code points>`:
           adjacent non-control segments of equal style are merged, empty ones dropped (`R`: every style reads `-`).
A leaf looked up outside 0..Wtab yields a poison value; every query is evaluated under two different
poisons and answers `unmodelled` when the two results differ (so an out-of-range lookup can never leak
into a compared answer).
-/
namespace RichModel.Drv.C08
open RichModel RichModel.Proto RichModel.Frames

def cw : Char → Nat := charWidthT Gen.cellWidths

/-- The compared fields of `rich.style.Style` (`_set_attributes`, `_attributes`, `_color`, `_bgcolor`, `_link`);
colours and links are ids of values compared with `==`. -/
structure FS where
  setA : Nat
  attrs : Nat
  color : Option Nat
  bg : Option Nat
  link : Option Nat
deriving Repr, BEq, DecidableEq

/-- `Style.__add__` on those fields (style.py:593-611): the right operand wins wherever it sets something. -/
def FS.add (a b : FS) : FS :=
  { setA := a.setA ||| b.setA,
    attrs := (a.attrs ^^^ (a.attrs &&& b.setA)) ||| (b.attrs &&& b.setA),
    color := match b.color with | some c => some c | none => a.color,
    bg := match b.bg with | some c => some c | none => a.bg,
    link := match b.link with | some c => some c | none => a.link }

def fsOps : SOps FS := { add := FS.add, null := ⟨0, 0, none, none, none⟩ }

abbrev Seg := Segment FS

/-- variant bitmask -/
def decVariant (s : String) : Frames.Variant :=
  let n := decNat s
  { zeroWidthChild := n % 2 == 1, ruleRightRepeat := n / 2 % 2 == 1, rstripCountsChars := n / 4 % 2 == 1,
    columnsZeroCount := n / 8 % 2 == 1 }

def decSVariant (s : String) : SVariant :=
  let n := decNat s
  { base := decVariant s, linesPadUnstyled := n / 16 % 2 == 1, titleAtConsoleWidth := n / 32 % 2 == 1,
    ruleNoTitleEnd := n / 64 % 2 == 1 }

/-- a title is in the simple domain when, line feeds replaced by blanks (as the code does), all its characters are simple -/
def titleOk (t : List Char) : Bool := (t.map (fun c => if c == '\n' then ' ' else c)).all simpleChar

abbrev Ch := Child FS

/-! ### decoding -/

def decOptNat' (s : String) : Option Nat := if s == "-" then none else s.toNat?

def decStyle (s : String) : Option FS :=
  if s == "-" then none else
  match s.splitOn "." with
  | [sa, a, c, b, l] => some ⟨decNat sa, decNat a, decOptNat' c, decOptNat' b, decOptNat' l⟩
  | _ => none

def decStyleD (s : String) : FS := (decStyle s).getD fsOps.null

def encOpt (o : Option Nat) : String := match o with | none => "-" | some n => toString n

def encStyle : Option FS → String
  | none => "-"
  | some s => s!"{s.setA}.{s.attrs}.{encOpt s.color}.{encOpt s.bg}.{encOpt s.link}"

def decSeg (s : String) : Seg :=
  match s.splitOn ";" with
  | [t, st, c] => { text := decStr t, style := decStyle st, control := decBool c }
  | _ => { text := [], style := none, control := false }

def decRender (s : String) : List Seg := if s.isEmpty then [] else (s.splitOn "|").map decSeg

def decMeasure (s : String) : Measurement :=
  match s.splitOn ":" with
  | [a, b] => ⟨decInt a, decInt b⟩
  | _ => ⟨0, 0⟩

/-- poison values for lookups outside the tabulated range -/
def poisonSeg (k : Nat) : Seg := { text := [Char.ofNat (0x10FF00 + k)], style := none, control := false }
def poisonMeasure (k : Nat) : Measurement := ⟨1000003 + k, 1000003 + k⟩

def decLeaf (k : Nat) (s : String) : Ch :=
  match s.splitOn "@" with
  | [ms, rs, ix] =>
    let measures := ((ms.splitOn ",").map decMeasure).toArray
    let renders := ((rs.splitOn "/").map decRender).toArray
    let index := ((ix.splitOn ",").map decNat).toArray
    { measure := fun w => match measures[w]? with | some m => m | none => poisonMeasure k,
      render := fun w => match index[w]? with
        | some i => (match renders[i]? with | some r => r | none => [poisonSeg k])
        | none => [poisonSeg k] }
  | _ => { measure := fun _ => poisonMeasure k, render := fun _ => [poisonSeg k] }

def decLeaves (k : Nat) (s : String) : Array Ch :=
  if s.isEmpty then #[] else ((s.splitOn "&").map (decLeaf k)).toArray

def decJustify (s : String) : Option Justify :=
  if s == "d" then some .default else if s == "l" then some .left else if s == "c" then some .center
  else if s == "r" then some .right else if s == "f" then some .full else none

def decOverflow (s : String) : Option RichModel.Overflow :=
  if s == "f" then some .fold else if s == "c" then some .crop else if s == "e" then some .ellipsis
  else if s == "i" then some .ignore else none

structure EnvX where
  env : Env
  height : Int
  opts : TOpts

def decEnv (s : String) : EnvX :=
  match s.splitOn "," with
  | [w, a, l, sb, nc, cs, h, j, ov, nw] =>
    { env := { consoleWidth := decNat w, asciiOnly := decBool a, legacyWindows := decBool l, safeBox := decBool sb,
               noColor := decBool nc, colorSystem := decNat cs }, height := decInt h,
      opts := { justify := decJustify j, overflow := decOverflow ov, noWrap := if nw == "-" then some false else some (nw == "1") } }
  | _ => { env := { consoleWidth := 80 }, height := 25, opts := {} }

def decOptInt (s : String) : Option Int := if s == "-" then none else s.toInt?
def decOptBool (s : String) : Option Bool := if s == "-" then none else some (s == "1")
def decAlign (s : String) : AlignM := if s == "l" then .left else if s == "r" then .right else .center

/-! ### expressions -/

mutual
inductive Expr where
  | leaf (i : Nat)
  | pad (style : FS) (dims : List Nat) (expand : Bool) (e : Expr)
  | panel (o : PanelOpts) (style bstyle : FS) (ttl : Option (Bool × Text FS)) (e : Expr)
  | align (o : AlignOpts) (style : Option FS) (e : Expr)
  | constrain (w : Option Int) (e : Expr)
  | styled (style : FS) (e : Expr)
  | vcenter (style : Option FS) (e : Expr)
  | rule (o : RuleOpts)
  | rulet (o : RuleOptsT FS)
  | bar (o : BarOpts)
  | pbar (o : ProgressOpts)
  | cols (o : Layout.ColsOpts) (items : List Expr)
  | tree (t : TNode)
inductive TNode where
  | mk (label : Expr) (gs : GStyle) (expanded : Bool) (children : List TNode)
end

def takeNats : Nat → List String → Option (List Nat × List String)
  | 0, ts => some ([], ts)
  | n+1, t :: ts => (takeNats n ts).map (fun (l, r) => (decNat t :: l, r))
  | _+1, [] => none

def takeSpans : Nat → List String → Option (List (Span FS) × List String)
  | 0, ts => some ([], ts)
  | n+1, a :: b :: st :: ts => (takeSpans n ts).map (fun (l, r) => (⟨decInt a, decInt b, decStyleD st⟩ :: l, r))
  | _+1, _ => none

/-- a `Text`: `plain;base style;nspans;(start;stop;style)*;justify;overflow;no_wrap;end;tab_size` -/
def parseText : List String → Option (Text FS × List String)
  | plain :: base :: n :: ts => do
    let (spans, ts) ← takeSpans (decNat n) ts
    match ts with
    | j :: ov :: nw :: e :: tab :: ts =>
      let pl := decStr plain
      some ({ plain := pl, length := pl.length, spans := spans, style := decStyleD base, justify := decJustify j,
              overflow := decOverflow ov, noWrap := decOptBool nw, endStr := decStr e, tabSize := decOptNat' tab }, ts)
    | _ => none
  | _ => none

mutual
partial def parseExpr : List String → Option (Expr × List String)
  | "L" :: i :: ts => some (.leaf (decNat i), ts)
  | "TREE" :: ts => do
    let (t, ts) ← parseNode ts
    pure (.tree t, ts)
  | "PAD" :: st :: ex :: n :: ts => do
    let (dims, ts) ← takeNats (decNat n) ts
    let (e, ts) ← parseExpr ts
    pure (.pad (decStyleD st) dims (decBool ex) e, ts)
  | "PANEL" :: st :: bst :: box :: "S" :: title :: ta :: sb :: ex :: wd :: n :: ts => do
    let (dims, ts) ← takeNats (decNat n) ts
    let (e, ts) ← parseExpr ts
    pure (.panel { box := decNat box, title := decStr title, titleAlign := decAlign ta, safeBox := decOptBool sb,
                   expand := decBool ex, width := decOptInt wd, padding := dims } (decStyleD st) (decStyleD bst) none e, ts)
  | "PANEL" :: st :: bst :: box :: "T" :: truthy :: ts => do
    let (tt, ts) ← parseText ts
    match ts with
    | ta :: sb :: ex :: wd :: n :: ts =>
      let (dims, ts) ← takeNats (decNat n) ts
      let (e, ts) ← parseExpr ts
      pure (.panel { box := decNat box, title := [], titleAlign := decAlign ta, safeBox := decOptBool sb,
                     expand := decBool ex, width := decOptInt wd, padding := dims } (decStyleD st) (decStyleD bst)
                   (some (decBool truthy, tt)) e, ts)
    | _ => none
  | "ALIGN" :: st :: a :: p :: wd :: ts => do
    let (e, ts) ← parseExpr ts
    pure (.align { align := decAlign a, pad := decBool p, width := decOptInt wd } (decStyle st) e, ts)
  | "CONSTRAIN" :: wd :: ts => do
    let (e, ts) ← parseExpr ts
    pure (.constrain (decOptInt wd) e, ts)
  | "STYLED" :: st :: ts => do
    let (e, ts) ← parseExpr ts
    pure (.styled (decStyleD st) e, ts)
  | "VC" :: st :: ts => do
    let (e, ts) ← parseExpr ts
    pure (.vcenter (decStyle st) e, ts)
  | "COLS" :: n :: ts => do
    let (dims, ts) ← takeNats (decNat n) ts
    match ts with
    | wd :: eq :: cf :: rtl :: ex :: al :: k :: ts =>
      let (items, ts) ← parseExprs (decNat k) ts
      pure (.cols { lay := { padding := dims, width := decOptInt wd, equal := decBool eq, columnFirst := decBool cf, rightToLeft := decBool rtl },
                    expand := decBool ex, align := if al == "-" then none else some (decAlign al) } items, ts)
    | _ => none
  | "RULET" :: truthy :: ts => do
    let (tt, ts) ← parseText ts
    match ts with
    | chars :: e :: a :: st :: ts =>
      some (.rulet { title := if decBool truthy then some tt else none, characters := decStr chars, endS := decStr e,
                     align := decAlign a, style := decStyleD st }, ts)
    | _ => none
  | "RULE" :: title :: chars :: e :: a :: ts =>
    some (.rule { title := decStr title, characters := decStr chars, endS := decStr e, align := decAlign a }, ts)
  | "BAR" :: sn :: sd :: bn :: bd :: en :: ed :: wd :: ts =>
    some (.bar { size := ⟨decInt sn, decNat sd⟩, beginV := ⟨decInt bn, decNat bd⟩, endV := ⟨decInt en, decNat ed⟩,
                 width := decOptInt wd }, ts)
  | "PBAR" :: tn :: td :: cn :: cd :: wd :: pu :: tmn :: tmd :: ts =>
    some (.pbar { total := ⟨decInt tn, decNat td⟩, completed := ⟨decInt cn, decNat cd⟩, width := decOptInt wd,
                  pulse := decBool pu, time := ⟨decInt tmn, decNat tmd⟩ }, ts)
  | _ => none
partial def parseExprs : Nat → List String → Option (List Expr × List String)
  | 0, ts => some ([], ts)
  | n+1, ts => do
    let (e, ts) ← parseExpr ts
    let (rest, ts) ← parseExprs n ts
    pure (e :: rest, ts)
partial def parseNode : List String → Option (TNode × List String)
  | "N" :: b :: u :: ex :: k :: ts => do
    let (label, ts) ← parseExpr ts
    let (children, ts) ← parseNodes (decNat k) ts
    pure (.mk label ⟨decOptBool b, decOptBool u⟩ (decBool ex) children, ts)
  | _ => none
partial def parseNodes : Nat → List String → Option (List TNode × List String)
  | 0, ts => some ([], ts)
  | n+1, ts => do
    let (t, ts) ← parseNode ts
    let (rest, ts) ← parseNodes n ts
    pure (t :: rest, ts)
end

/-- result of evaluating a frame at one width -/
inductive Res where
  | ok (segs : List Seg)
  | err (e : Frames.PyErr)
  | unmodelled

structure Ctx where
  env : Env
  height : Int
  opts : TOpts
  sv : SVariant
  leaves : Array Ch
  poison : Nat

def Ctx.v (c : Ctx) : Frames.Variant := c.sv.base

/-- the composition layer (Model/Layout.lean, C01) works on unstyled `Segment Nat`: styles are erased on the way in and out -/
def toNatSeg (g : Seg) : Segment Nat := { text := g.text, style := none, control := g.control }
def ofNatSeg (g : Segment Nat) : Seg := { text := g.text, style := none, control := g.control }
def toNatCh (c : Ch) : Child Nat := { measure := c.measure, render := fun w => (c.render w).map toNatSeg }

def Ctx.lcfg (c : Ctx) : Layout.Cfg :=
  { cw := cw, env := c.env, v := c.sv.base, wv := Wrap.WVariant.fixed c.sv.base.rstripCountsChars, fl := Flags.allRepaired,
    poison := [toNatSeg (poisonSeg c.poison)] }

def Ctx.lopts (c : Ctx) : Layout.Opts := { justify := c.opts.justify, overflow := c.opts.overflow, noWrap := c.opts.noWrap }

def Ctx.tcfg (c : Ctx) : TCfg FS := { cw := cw, A := fsOps, wv := Wrap.WVariant.fixed c.v.rstripCountsChars }

/-- the title of a panel: in the simple domain (`ttl = none`) or as a `Text`; the outer `none` = outside the model
(`expand_tabs` raising) -/
def panelTitleO (c : Ctx) (o : PanelOpts) (ttl : Option (Bool × Text FS)) : Option (Option (TitleO FS) × Option (Int → Int)) :=
  match ttl with
  | none =>
    some (simpleTitle cw c.v o.title o.titleAlign,
      match panelTitle o.title with
      | none => none
      | some t => some (fun avail => (textMeasureSimple cw t avail).maximum))
  | some (truthy, tt) =>
    match panelTitleText c.tcfg.wv.text truthy tt with
    | .error _ => none
    | .ok none => some (none, none)
    | .ok (some t) => some (some (textTitleO c.tcfg o.titleAlign t), some (fun avail => (textMeasureG cw t avail).maximum))

-- nested position: static errors / unmodelled sub-frames make the whole query unmodelled
mutual
partial def toChild (c : Ctx) : Expr → Option Ch
  | .leaf i => c.leaves[i]?
  | .tree t => do
    let root ← toTree c t
    some (treeChild cw c.env root)
  | .pad st dims ex e => do
    let ch ← toChild c e
    match unpackPad dims with
    | .ok p => some (paddingChildS cw fsOps c.sv st p ex ch)
    | .error _ => none
  | .panel o st bst ttl e => do
    let ch ← toChild c e
    match unpackPad o.padding with
    | .error _ => none
    | .ok _ =>
      if ttl.isNone && !(titleOk o.title) then none else
      let (tO, tM) ← panelTitleO c o ttl
      some (asChild
        (fun w => match panelConsoleS cw fsOps c.env c.sv o st bst tO ch w with
          | .ok (some s) => s
          | _ => [poisonSeg c.poison])
        (fun w => match panelRichMeasureS o tM ch w with
          | .ok m => m
          | .error _ => poisonMeasure c.poison))
  | .align o st e => do
    let ch ← toChild c e
    some (alignChildS cw fsOps c.env c.sv o st ch)
  | .constrain w e => do
    let ch ← toChild c e
    some (constrainChild w ch)
  | .styled st e => do
    let ch ← toChild c e
    some (styledChildS fsOps st ch)
  | .vcenter st e => do
    let ch ← toChild c e
    some (verticalCenterChildS cw c.height st ch)
  | .rule o =>
    match ruleInit cw o with
    | .error _ => none
    | .ok o =>
      if !(titleOk o.title && o.characters.all simpleChar) then none else
      some (asChild
        (fun w => match (let pe := ruleTextS cw c.env c.sv o w; textConsoleSimple (σ := FS) cw c.v pe.1 pe.2 w) with
          | some s => s
          | none => [poisonSeg c.poison])
        (fun w => ⟨0, w⟩))   -- Rule has no __rich_measure__: Measurement.get gives (0, max_width)
  | .cols o items => do
    let chs ← items.mapM (toChild c)
    if (o.lay.width.getD 0) < 0 then none else
    some (asChild
      (fun w => if w < 1 then [] else (Layout.columnsConsole c.lcfg o c.lopts (chs.map toNatCh) w.toNat).map ofNatSeg)
      (fun w => ⟨0, w⟩))   -- Columns has no __rich_measure__
  | .rulet o =>
    if cellLen cw o.characters < 1 then none else
    some (asChild
      (fun w => match ruleConsoleT c.tcfg c.env c.sv o c.opts w with
        | .ok s => s
        | .error _ => [poisonSeg c.poison])
      (fun w => ⟨0, w⟩))
  | .bar o =>
    if o.size.den == 0 || o.beginV.den == 0 || o.endV.den == 0 then none else
    some (asChild (barConsole (barInit o)) (barRichMeasure o.width))
  | .pbar o =>
    if o.total.den == 0 || o.completed.den == 0 || o.time.den == 0 then none else
    some (asChild (progressConsole c.env o) (barRichMeasure o.width))
partial def toTree (c : Ctx) : TNode → Option (TreeN FS)
  | .mk label gs ex children => do
    let l ← toChild c label
    let cs ← children.mapM (toTree c)
    some (.node l gs ex cs)
end

/-- top level: `list(console.render(obj, options.update(width=w)))` -/
def renderTop (c : Ctx) (e : Expr) (w : Int) : Res :=
  match e with
  | .panel o st bst ttl e' =>
    match toChild c e' with
    | none => .unmodelled
    | some ch =>
      if w < 1 then .ok [] else
      if ttl.isNone && !(titleOk o.title) then .unmodelled else
      match panelTitleO c o ttl with
      | none => .unmodelled
      | some (tO, _) =>
        match panelConsoleS cw fsOps c.env c.sv o st bst tO ch w with
        | .error er => .err er
        | .ok none => .unmodelled
        | .ok (some s) => .ok s
  | .rulet o =>
    if cellLen cw o.characters < 1 then .err .valueError else
    match ruleConsoleT c.tcfg c.env c.sv o c.opts w with
    | .ok s => .ok s
    | .error _ => .unmodelled
  | .rule o =>
    match ruleInit cw o with
    | .error er => .err er
    | .ok o =>
      if w < 1 then .ok [] else
      if !(titleOk o.title && o.characters.all simpleChar) then .unmodelled else
      match (let pe := ruleTextS cw c.env c.sv o w; textConsoleSimple (σ := FS) cw c.v pe.1 pe.2 w) with
      | none => .unmodelled
      | some s => .ok s
  | e =>
    match toChild c e with
    | none => .unmodelled
    | some ch => .ok (ch.renderAt w)

def measureTop (c : Ctx) (e : Expr) (w : Int) : Option Measurement :=
  match e with
  | .rule o =>
    match ruleInit cw o with
    | .error _ => none
    | .ok _ => some (Measurement.getPost w none)
  | .rulet o => if cellLen cw o.characters < 1 then none else some (Measurement.getPost w none)
  | e => (toChild c e).map (fun ch => ch.measureAt w)

def errName : Frames.PyErr → String
  | .valueError => "ValueError"
  | .zeroDivision => "ZeroDivisionError"
  | .indexError => "IndexError"

/-- adjacent non-control segments of equal style merged, empty ones dropped -/
def runs (styled : Bool) : List Seg → List (Option FS × List Char)
  | [] => []
  | s :: rest =>
    if s.control || s.text.isEmpty then runs styled rest
    else
      let st := if styled then s.style else none
      match runs styled rest with
      | (st', t) :: more => if st == st' then (st, s.text ++ t) :: more else (st, s.text) :: (st', t) :: more
      | [] => [(st, s.text)]

def encRes (styled : Bool) : Res → String
  | .unmodelled => "unmodelled"
  | .err e => "err:" ++ errName e
  | .ok segs =>
    let rs := (runs styled segs).map (fun r => encStyle r.1 ++ ";" ++ encStr r.2)
    let ctl := (segs.filter (·.control)).map (fun s => encStr s.text)
    "ok:" ++ "|".intercalate rs ++ "#" ++ ",".intercalate ctl

def answerQuery (env : EnvX) (l1 l2 : Array Ch) (q : String) : String :=
  match q.splitOn "," with
  | [kind, v, w, ex] =>
    match parseExpr (ex.splitOn ";") with
    | some (e, []) =>
      let run (k : Nat) : String :=
        let c : Ctx := { env := env.env, height := env.height, opts := env.opts, sv := decSVariant v, leaves := (if k == 1 then l1 else l2), poison := k }
        if kind == "R" then encRes false (renderTop c e (decInt w))
        else if kind == "S" then encRes true (renderTop c e (decInt w))
        else match measureTop c e (decInt w) with
          | some m => s!"m:{m.minimum},{m.maximum}"
          | none => "unmodelled"
      let a := run 1
      let b := run 2
      if a == b then a else "unmodelled"
    | _ => "bad-expr"
  | _ => "bad-query"

def handlers : List (String × (List String → String)) := [
  ("frames_batch", fun a => match a with
    | env :: leaves :: qs =>
      let l1 := decLeaves 1 leaves
      let l2 := decLeaves 2 leaves
      "~".intercalate (qs.map (answerQuery (decEnv env) l1 l2))
    | _ => "bad-args"),
  ("frames_unpack", fun a => match a with
    | [n, body] =>
      let dims := if decNat n == 0 then [] else (body.splitOn ",").map decNat
      match unpackPad dims with
      | .ok p => s!"{p.top},{p.right},{p.bottom},{p.left}"
      | .error e => "err:" ++ errName e
    | _ => "bad-args"),
  -- frames_columns <variant bitmask> <padding n:a,b..> <width|-> <equal> <column_first> <right_to_left> <measured maxima, comma separated> <max_width>
  ("frames_columns", fun a => match a with
    | [vb, pad, wd, eq, cf, rtl, ms, mw] =>
      let v : Frames.Variant := decVariant vb
      let dims := match pad.splitOn ":" with
        | [n, body] => if decNat n == 0 then [] else (body.splitOn ",").map decNat
        | _ => []
      let measured := if ms.isEmpty then [] else (ms.splitOn ",").map decInt
      let o : ColumnsOpts := { padding := dims, width := decOptInt wd, equal := decBool eq, columnFirst := decBool cf,
                               rightToLeft := decBool rtl }
      if ((o.width.getD 0) < 0 && v.columnsZeroCount) || decInt mw < 1 then "unmodelled" else
      match columnsLayout v o measured (decInt mw) with
      | .error e => "err:" ++ errName e
      | .ok none => "none"
      | .ok (some l) =>
        toString l.columnCount ++ "|" ++ ";".intercalate (l.rows.map (fun r =>
          ",".intercalate (r.map (fun x => match x with | some i => toString i | none => "-"))))
    | _ => "bad-args")
] ++ RichModel.Drv.C08Bars.barsHandlers   -- styled Bar / ProgressBar (deepening round 4)

end RichModel.Drv.C08
