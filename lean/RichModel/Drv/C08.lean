import RichModel.Drv.Proto
/- Driver handlers for property C08 (stub: filled in when the model is built). -/
namespace RichModel.Drv.C08
open RichModel RichModel.Proto

def handlers : List (String × (List String → String)) := []

end RichModel.Drv.C08
