import RichModel.Drv.Proto
import RichModel.Drv.Ratio
/- Driver handlers for property C07 (tables): the width arithmetic for now; the table renderer is added by the layout builder. -/
namespace RichModel.Drv.C07
open RichModel RichModel.Proto

def handlers : List (String × (List String → String)) := Drv.Ratio.handlers

end RichModel.Drv.C07
